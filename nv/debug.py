"""debug dump: python -m nv.debug <qualname> [...]"""
import sys, time, pickle, os
from .index import Program
from .interp import Analyzer
from .vals import fmt_obj


def dump(A, q):
    c = A.root(q)
    print("=" * 100)
    print(q, "params:", c.params)
    print(" ret:", c.summary.ret)
    for (o, f), v in sorted(c.summary.heap.items(), key=repr):
        print("  heap", fmt_obj(o), f, "=", repr(v)[:300])
    for e in sorted(c.summary.effects, key=repr):
        print("  effect", e[0], fmt_obj(e[1]), e[2], e[3], e[4])
    for cr in sorted(c.calls, key=lambda x: (getattr(x.node, "lineno", 0), getattr(x.node, "col_offset", 0))):
        print("  call@%s %s -> %s" % (getattr(cr.node, "lineno", 0), cr.kind, [f.qual for f in cr.callees]))
    for u in c.unresolved:
        print("  unresolved", u)


if __name__ == "__main__":
    t = time.time()
    P = Program()
    A = Analyzer(P, exact="--exact" in sys.argv).run()
    print(A.stats, time.time() - t, file=sys.stderr)
    for q in sys.argv[1:]:
        if not q.startswith("--"):
            dump(A, q)
