from fractions import Fraction as F
import numpy as np, traceback, warnings, signal
warnings.simplefilter("ignore")
from compmec.nurbs import Curve, KnotVector, GeneratorKnotVector, Function, Derivate, Integrate, Projection, Intersection
from compmec.nurbs import heavy
class TO(Exception): pass
def handler(s,f): raise TO()
signal.signal(signal.SIGALRM, handler)
def kinds(x):
    out=set()
    def rec(v):
        if isinstance(v,(list,tuple,np.ndarray)):
            for e in v: rec(e)
        else: out.add(type(v).__name__)
    rec(x); return sorted(out)
def show(title, fn):
    signal.alarm(20)
    try:
        r = fn()
        print("==", title, "->", kinds(r), str(r)[:100])
    except BaseException as e:
        print("==", title, "EXC", type(e).__name__, str(e)[:150])
    signal.alarm(0)
def st(c): return (tuple(c.knotvector), c.ctrlpoints, c.weights)
U=[F(0),F(0),F(0),F(1,3),F(1,2),F(1),F(1),F(1)]
P=[F(1),F(2),F(-1),F(3),F(5)]
W=[1,2,F(3,2),1,2]
mk=lambda w=None: Curve(U,P,w)
show("eval", lambda: mk()([F(1,5),F(1,3),F(1)]))
show("eval rat", lambda: mk(W)([F(1,5),F(1,3),F(1)]))
show("basis", lambda: Function(U)[:,1]([F(1,5),F(1,3),F(1)]))
def ins(w=None):
    c=mk(w); c.knot_insert([F(1,4),F(1,3)]); return st(c)
show("insert", ins); show("insert rat", lambda: ins(W))
def rem(w=None):
    c=mk(w); c.knot_insert([F(1,4)]); c.knot_remove([F(1,4)]); return st(c)
show("remove", rem); show("remove rat", lambda: rem(W))
def elev(w=None):
    c=mk(w); c.degree_increase(1); return st(c)
show("elevate", elev); show("elevate rat", lambda: elev(W))
def red(w=None):
    c=mk(w); c.degree_increase(1); c.degree_decrease(1); return st(c)
show("reduce", red); show("reduce rat", lambda: red(W))
def spl(w=None):
    c=mk(w); ps=c.split([F(1,4)]); return [st(p) for p in ps]
show("split", spl); show("split rat", lambda: spl(W))
def join(w=None):
    c=mk(w); a,b=c.split([F(1,4)]); return st(a|b)
show("join", join); show("join rat", lambda: join(W))
V=[F(0),F(0),F(1,4),F(1),F(1)]; Q=[F(1),F(3),F(2)]
show("add", lambda: st(mk()+Curve(V,Q)))
show("mul", lambda: st(mk()*Curve(V,Q)))
show("div", lambda: st(mk()/Curve(V,Q)))
show("add rat", lambda: st(mk(W)+Curve(V,Q)))
show("scalar ops", lambda: st(2*mk()+F(1,2)))
show("neg", lambda: st(-mk()))
def fitc():
    c=Curve(V); e=c.fit_curve(mk()); return (e, st(c))
show("fit_curve", fitc)
def fitp():
    c=Curve(V); c.fit_points([F(1),F(2),F(3),F(5)], [F(0),F(1,3),F(2,3),F(1)]); return st(c)
show("fit_points", fitp)
def fitp2():
    c=Curve(V); c.fit_points([F(1),F(2),F(3),F(5)]); return st(c)
show("fit_points default nodes", fitp2)
def fitf():
    c=Curve(V); c.fit_function(lambda u: 1+u*u); return st(c)
show("fit_function", fitf)
show("integrate scalar", lambda: Integrate.scalar(mk()))
show("integrate function", lambda: Integrate.function(KnotVector(U), lambda u: u*u))
show("derivate", lambda: st(Derivate(mk())))
show("eq", lambda: mk()==mk())
def cl():
    c=mk(); c.knot_insert([F(1,4)]); c.degree_increase(1); c.clean(); return st(c)
show("clean", cl)
show("uniform Fraction", lambda: tuple(GeneratorKnotVector.uniform(2,5,F)))
show("random Fraction", lambda: tuple(GeneratorKnotVector.random(2,5,F)))
