"""./check <ID> [--tier quick|thorough] [--replay <path>] [--src <dir>] [--no-cache]"""
from __future__ import annotations

import argparse
import hashlib
import importlib
import json
import os
import sys
import time
import traceback

from . import REPO_SRC, AnalysisError
from .report import VERIF, Check


def run_property(prop: str, tier: str, src: str, cache: bool = True, sources=None, quiet=False):
    """evaluate all rules of one property; returns the Check"""
    from . import model

    mod = importlib.import_module(f"nv.rules.{prop.lower()}")
    need = getattr(mod, "NEED", ("generic",))
    m = model.load(src, sources=sources, need=need, cache=cache)
    chk = Check(prop, tier)
    mod.run(m, chk)
    return m, chk


def main(argv=None) -> int:
    ap = argparse.ArgumentParser()
    ap.add_argument("prop")
    ap.add_argument("--tier", default=os.environ.get("VERIF_TIER", "quick"), choices=["quick", "thorough"])
    ap.add_argument("--replay", default=None)
    ap.add_argument("--src", default=REPO_SRC)
    ap.add_argument("--no-cache", action="store_true")
    ap.add_argument("--no-evidence", action="store_true")
    a = ap.parse_args(argv)
    prop = a.prop.upper()
    seed = int(os.environ.get("VERIF_SEED", "0") or 0)
    t0 = time.time()
    try:
        m, chk = run_property(prop, a.tier, a.src, cache=not a.no_cache)
        if a.tier == "thorough":
            from . import selftest

            selftest.run(prop, chk, a.src)
        stats = {}
        for name, an in (("generic", m.A), ("exact", m.AX)):
            if an is not None:
                stats[name] = dict(an.stats)
        stats["functions"] = len(m.prog.funcs)
        stats["modules"] = sorted(m.prog.modules)
        stats["source_digest"] = m.digest
        stats["model_build_s"] = m.build_s
        ev = chk.evidence(seed, stats)
        kn, new = chk.classify()
        if a.replay:
            with open(a.replay) as fh:
                want = json.load(fh)
            hit = [f for f, _ in new + kn if [f.rule, f.func, f.construct] == [want.get("rule"), want.get("function"), want.get("construct")]]
            if hit:
                print(f"REPLAY: still violated: {hit[0].rule} {hit[0].func} {hit[0].loc}: {hit[0].message}")
                print(f"VIOLATION property={prop} replay={a.replay}")
                return 1
            print("REPLAY: the recorded instance no longer violates the rule")
            return 0
        if not a.no_evidence:
            os.makedirs(os.path.join(VERIF, "evidence"), exist_ok=True)
            with open(os.path.join(VERIF, "evidence", f"{prop}.json"), "w") as fh:
                json.dump(ev, fh, indent=1, default=str)
        nob = len(chk.obligations)
        print(f"{prop} [{a.tier}] {nob} obligations, {sum(1 for o in chk.obligations if o['ok'])} discharged, "
              f"{len(kn)} known finding(s), {len(new)} violation(s), {time.time() - t0:.1f}s")
        for f, k in kn:
            print(f"KNOWN-FINDING: property={prop} {k.get('id', '')} {f.rule} {f.func} [{f.loc}] {k.get('what', f.message)}")
        rc = 0
        for f, _ in new:
            rdir = os.path.join(VERIF, "evidence", "replay")
            os.makedirs(rdir, exist_ok=True)
            hk = hashlib.sha1(repr(f.key()).encode()).hexdigest()[:10]
            rp = os.path.join(rdir, f"{prop}-{f.rule}-{hk}.json")
            with open(rp, "w") as fh:
                json.dump(f.asdict(), fh, indent=1)
            print(f"  {f.rule}: {f.func} [{f.loc}] {f.message}")
            print(f"VIOLATION property={prop} replay={rp}")
            rc = 1
        return rc
    except AnalysisError as e:
        print(f"ANALYSIS-ERROR property={prop}: {e}")
        return 2
    except Exception:
        traceback.print_exc()
        print(f"ANALYSIS-ERROR property={prop}: internal error in the checker (see traceback)")
        return 2


if __name__ == "__main__":
    sys.exit(main())
