"""C13 — curve equality means equality as functions, independent of representation."""
from __future__ import annotations

import ast

from .common import R, seg

NEED = ("generic",)
EQ = "curves.BaseCurve.__eq__"
NE = "curves.BaseCurve.__ne__"


def dead_refinement(r: R, chk, qual: str):
    """every fresh copy of an operand that is refined (setter / mutator applied) is read afterwards"""
    ctx = r.root(qual)
    copies = {}
    for n in r.stmt_nodes(ctx):
        if isinstance(n.ast, ast.Assign) and len(n.ast.targets) == 1 and isinstance(n.ast.targets[0], ast.Name):
            if any(c.kind == "copy" and c.node is n.ast.value for c in ctx.calls):
                copies[n.ast.targets[0].id] = n
    chk.floor("DEAD-REFINEMENT", f"copies of operands in {qual}", len(copies), 1)
    for var, defn in sorted(copies.items()):
        muts = []
        for n in r.stmt_nodes(ctx):
            a = n.ast
            if isinstance(a, (ast.Assign, ast.AugAssign)):
                tg = a.targets if isinstance(a, ast.Assign) else [a.target]
                if any(isinstance(t, ast.Attribute) and isinstance(t.value, ast.Name) and t.value.id == var for t in tg):
                    muts.append(n)
            elif isinstance(a, ast.Expr) and isinstance(a.value, ast.Call) and isinstance(a.value.func, ast.Attribute) and isinstance(a.value.func.value, ast.Name) and a.value.func.value.id == var:
                muts.append(n)
        if not muts:
            continue
        for mu in muts:
            reach = ctx.cfg.reachable_from_succ(mu.id, exc=False)
            used = False
            for x in reach:
                nx = ctx.cfg.nodes[x]
                if nx.ast is None:
                    continue
                tree = nx.ast.iter if nx.kind == "for" else nx.ast
                if nx.kind == "for":
                    tree = nx.ast.iter
                if any(isinstance(y, ast.Name) and y.id == var and isinstance(y.ctx, ast.Load) for y in ast.walk(tree)):
                    used = True
                    break
            chk.ob("DEAD-REFINEMENT", f"{qual}: `{var}` is refined by `{seg(mu.ast, 40)}` and read afterwards", used, loc=r.loc(ctx, mu.ast),
                   detail="" if used else f"{qual}: the copy `{var}` is refined to the common knot vector (`{seg(mu.ast, 50)}`) but never read afterwards — the unrefined operand is compared instead (a coarser left operand is compared point-by-point against a finer right one: `A == B` and `B == A` differ)",
                   func=qual, construct=f"refined copy {var} never read")


def run(m, chk):
    r = R(m, chk)
    chk.explanation = (
        "Static discharge of structural clauses of C13 in BaseCurve.__eq__ / __ne__: the result must-depend (on every path reaching a deciding site) on knot vector, "
        "control points and weights of both operands (DEP-MUST field coverage), every refined copy is read (no dead refinement), operands are not modified, "
        "__ne__ is the negation of __eq__, the non-curve ⇒ False guard comes first. The 1e-9 semantics and invariance under elevation are not decided."
    )
    chk.decides = ["INTERP-COUNT (every refit that interpolates at the knots does so under a test of the degree: the refinement behind == never asks for more interpolation nodes than control points)", "SPANS-UNION (the Gram matrices behind every refinement / projection are integrated span by span of the union of both knot sets)", "SWAP-SYMMETRIC (the product knot vector treats both operands alike)", "DEP-MUST field coverage", "DEAD-REFINEMENT", "PURE", "__ne__ = not __eq__", "type guard first", 'REFINE-BOTH (comparison only after refinement or for equal knot vectors)', 'TOL-HOMOG (the quantity compared with the tolerance literal is a distance: degree 1 in the point difference, or the literal is the matching power of 1e-9)']
    chk.not_decided = ["which norm the tolerance applies to", "invariance of the answer under knot insertion / degree elevation as values"]
    ctx = r.root(EQ)
    fi = ctx.fi
    other = fi.params[1]
    # 1. field coverage
    have = set()
    nsites = 0
    for n in r.stmt_nodes(ctx):
        if n.kind == "test":
            v = ctx.val(n.ast)
            if v is not None:
                have |= v.all_mdep()
                nsites += 1
        elif n.kind == "for":
            v = ctx.val(n.ast.iter)
            if v is not None:
                have |= v.all_mdep()
    for nid, v in ctx.ret_sites.items():
        a = ctx.cfg.nodes[nid].ast
        if a.value is not None and not isinstance(a.value, ast.Constant):
            have |= v.all_mdep()
            nsites += 1
    chk.floor("DEP-MUST", "deciding sites of __eq__", nsites, 3)
    for who in ("self", other):
        for f in ("knotvector", "ctrlpoints", "weights"):
            want = next(iter(r.srcs(fi, [f"{who}.{f}"])))
            ok = want in have
            chk.ob("DEP-MUST", f"{EQ}: the answer must-depend on {who}.{f}", ok, loc=r.loc(ctx, fi.node),
                   detail="" if ok else f"{EQ}: no deciding site (branch condition or returned expression) depends on `{who}.{f}` on every path: two curves that differ only in {f} compare equal (must-dependences found: {r.fmt_deps(fi, have)})",
                   func=EQ, construct=f"{who}.{f} not consulted" if who == "self" else f"other.{f} not consulted")
    # 2. dead refinement
    dead_refinement(r, chk, EQ)
    from .extra import interp_count

    interp_count(r, chk)
    from .extra import refine_both

    refine_both(r, chk, EQ)
    from .common import CURVE_FIELDS
    from .extra import spans_union

    spans_union(r, chk, "heavy.LeastSquare.func2func")
    from .homog import tol_homog

    tol_homog(r, chk, EQ, (CURVE_FIELDS[1],), 1e-9)
    # 3. purity, negation, first guard
    r.pure("PURE", EQ, ["self", other])
    r.pure("PURE", NE, list(r.root(NE).fi.params))
    nfi = r.prog.func(NE)
    rets = [n for n in ast.walk(nfi.node) if isinstance(n, ast.Return)]

    def is_eq_call(e):
        return (isinstance(e, ast.Call) and isinstance(e.func, ast.Attribute) and e.func.attr == "__eq__") or (isinstance(e, ast.Compare) and len(e.ops) == 1 and isinstance(e.ops[0], ast.Eq))

    def const(e, val):
        return isinstance(e, ast.Return) and isinstance(e.value, ast.Constant) and e.value.value is val

    body = [s_ for s_ in nfi.node.body if not (isinstance(s_, ast.Expr) and isinstance(s_.value, ast.Constant))]
    # `equal = self.__eq__(obj); return not equal`: a single-use local is folded back into the return
    while len(body) >= 2 and isinstance(body[0], ast.Assign) and len(body[0].targets) == 1 and isinstance(body[0].targets[0], ast.Name):
        nm_, val_ = body[0].targets[0].id, body[0].value
        uses_ = [x for s_ in body[1:] for x in ast.walk(s_) if isinstance(x, ast.Name) and x.id == nm_]
        if len(uses_) != 1:
            break

        class _Sub(ast.NodeTransformer):
            def visit_Name(self, n_):
                return val_ if n_.id == nm_ and isinstance(n_.ctx, ast.Load) else n_

        import copy as _copy

        body = [_Sub().visit(_copy.deepcopy(s_)) for s_ in body[1:]]
    shape = False
    if len(body) == 1 and isinstance(body[0], ast.Return) and isinstance(body[0].value, ast.UnaryOp) and isinstance(body[0].value.op, ast.Not) and is_eq_call(body[0].value.operand):
        shape = True  # return not self.__eq__(obj)
    elif len(body) == 2 and isinstance(body[0], ast.If) and not body[0].orelse and len(body[0].body) == 1:
        t = body[0].test
        if is_eq_call(t) and const(body[0].body[0], False) and const(body[1], True):
            shape = True  # if eq: return False; return True
        if isinstance(t, ast.UnaryOp) and isinstance(t.op, ast.Not) and is_eq_call(t.operand) and const(body[0].body[0], True) and const(body[1], False):
            shape = True
    elif len(body) == 1 and isinstance(body[0], ast.Return) and isinstance(body[0].value, ast.IfExp) and is_eq_call(body[0].value.test) and isinstance(body[0].value.body, ast.Constant) and body[0].value.body.value is False and isinstance(body[0].value.orelse, ast.Constant) and body[0].value.orelse.value is True:
        shape = True
    okn = shape and any(c.callees and c.callees[0].qual == EQ for c in r.root(NE).calls)
    chk.ob("NEGATION", f"{NE} returns `not` of {EQ} on the same operands", okn, loc=f"curves.py:{nfi.node.lineno}", detail="" if okn else f"{NE}: is not the plain negation of {EQ}: `{seg(rets[0], 60) if rets else '?'}`", func=NE, construct="__ne__ not the negation of __eq__")
    # `A != B` is `not A.__eq__(B)`: __eq__ has to answer with a bool — NotImplemented is truthy, so `!=` would be False where `==`
    # (after Python's fallback to identity) is False as well
    ni = [x for x in ast.walk(ctx.fi.node) if isinstance(x, ast.Return) and x.value is not None and any(isinstance(y, ast.Name) and y.id == "NotImplemented" for y in ast.walk(x.value))]
    chk.ob("NEGATION", f"{EQ} never answers NotImplemented (its negation {NE} would turn that into False)", not ni, loc=r.loc(ctx, ni[0]) if ni else r.loc(ctx, ctx.fi.node),
           detail="" if not ni else f"{EQ}: `{seg(ni[0], 60)}` can answer NotImplemented; {NE} returns `not self.__eq__(obj)` and NotImplemented is truthy, so for such operands A != B is False while A == B is False too — `!=` is not the negation of `==`",
           func=EQ, construct="__eq__ may return NotImplemented")
    first = [n for n in r.stmt_nodes(ctx) if n.kind == "test"]
    first = min(first, key=lambda n: n.id) if first else None
    okg = False
    if first is not None:
        txt = seg(first.ast)
        is_type = ("type(" in txt or "isinstance(" in txt)
        arm = [t for t, lab in first.succ if lab == ("t" if "not" in txt else "f")]
        def all_false(e):
            """a returned expression that is False (possibly only for some kinds of operand: `X if isinstance(..) else False`)"""
            if isinstance(e, ast.Constant):
                return e.value is False
            if isinstance(e, ast.IfExp):
                return all_false(e.body) or all_false(e.orelse)
            return False

        retf = arm and isinstance(ctx.cfg.nodes[arm[0]].ast, ast.Return) and ctx.cfg.nodes[arm[0]].ast.value is not None and all_false(ctx.cfg.nodes[arm[0]].ast.value)
        before = [n for n in r.stmt_nodes(ctx) if n.id < first.id and n.kind != "entry" and not (isinstance(n.ast, ast.Expr) and isinstance(n.ast.value, ast.Constant))]
        okg = bool(is_type and retf and not before)
    chk.ob("TYPE-GUARD", f"{EQ}: the first statement returns False for a non-curve", okg, loc=r.loc(ctx, first.ast) if first is not None else "", detail="" if okg else f"{EQ}: comparing with a non-curve does not return False before anything else is touched", func=EQ, construct="missing leading type guard")
    from .extra import swap_symmetric

    swap_symmetric(r, chk, "heavy.MathOperations.knotvector_mul")
