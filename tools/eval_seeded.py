"""apply a seeded change to /repo, run the quick checks, undo it.  usage: eval_seeded.py <patch.diff> [C05 C14 ...]"""
import json, os, subprocess, sys
V = os.path.dirname(os.path.dirname(os.path.abspath(__file__)))
patch = os.path.abspath(sys.argv[1])
props = sys.argv[2:] or [json.loads(l)["id"] for l in open(os.path.join(V, "properties.jsonl"))]
st = subprocess.run(["git", "-C", "/repo", "status", "--porcelain"], capture_output=True, text=True).stdout.strip()
if st:
    sys.exit("refusing: /repo has uncommitted changes:\n" + st)
subprocess.check_call(["git", "-C", "/repo", "apply", patch])
out = {}
try:
    for p in props:
        r = subprocess.run([os.path.join(V, "check"), p, "--no-evidence"], capture_output=True, text=True, cwd=V)
        lines = [l for l in r.stdout.splitlines() if l.startswith(("  ", "ANALYSIS-ERROR")) and not l.startswith("KNOWN")]
        out[p] = {"exit": r.returncode, "reports": lines}
        if r.returncode != 0:
            print(f"--- {p} exit={r.returncode}")
            for l in lines[:6]:
                print("   ", l.strip()[:300])
finally:
    subprocess.check_call(["git", "-C", "/repo", "checkout", "--", "."])
hit = [p for p, v in out.items() if v["exit"] != 0]
print("DETECTED by:", hit if hit else "NONE")
json.dump(out, open("/tmp/eval_seeded_last.json", "w"), indent=1)
