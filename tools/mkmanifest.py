"""regenerate MANIFEST.json from the evidence of the last run (decides / not decided come from the checks)"""
import json, os, sys
V = os.path.dirname(os.path.dirname(os.path.abspath(__file__)))
props = [json.loads(l) for l in open(os.path.join(V, "properties.jsonl"))]
NA = {}
if os.path.exists(os.path.join(V, "tools", "not_applicable.json")):
    NA = json.load(open(os.path.join(V, "tools", "not_applicable.json")))
TECH = {
 "C01": "must-pass-through / guard dominance on the CFG, exception-escape on the call chain, dependence summaries, divisor classification",
 "C02": "must-pass-through of the index validators, dependence summaries, exception-escape",
 "C03": "who-may-write funnel, commit-last on the CFG, guard dominance (interval validation), loop-shape classification",
 "C04": "guard dominance (V1, ValueError-before-assert), commit-last, alias/effect analysis (in-place on shared points), divisor classification, dependence of committed state",
 "C05": "guard dominance of the tolerance gate, None-sentinel lint over resolved parameter flow, argument-flow dependence, commit-last",
 "C06": "guard dominance of the tolerance gate, dispatch shape of the degree setter, commit-last, divisor classification, argument-flow",
 "C07": "effect / alias analysis (operands preserved, results fresh), must-dependence of the weights component, guard dominance, divisor classification",
 "C08": "effect / alias analysis, guard dominance of the limits comparison, per-return-site operand dependence",
 "C09": "effect / alias analysis, exhaustive-dispatch check on the CFG, dependence summaries",
 "C10": "pure-memo discipline of the module tables (who reads/writes, key, guard), family/size pairing of node and weight accessors, literal-table folding against closed forms",
 "C11": "family/size pairing in func2func, argument-flow dependence at both least-squares call sites",
 "C12": "guard dominance of the count check, commit-last, argument-flow dependence, same-variable def-use for the sampling nodes",
 "C13": "must-dependence (field coverage) of the deciding sites, def-use liveness of refined copies, effect analysis",
 "C14": "loop-shape classification (shrink-until-refused), handler typing, argument-flow of the tolerance, gate dominance",
 "C15": "who-may-write funnel, commit-last on the CFG for every derived mutator, effect / alias analysis for ~90 operand-preservation instances, shared-object mutation rule",
 "C16": "number-kind abstract interpretation (library-introduced floats / fixed-width integers reaching results on exact paths)",
 "C17": "effect / alias analysis, guard dominance of the limits comparison, operand dependence",
 "C18": "reciprocal-of-own-element lint on the resolved scaling step, commit-last, dependence of generator results",
 "C19": "loop-shape classification over the reachable call graph (termination), clamp-after-last-update path rule, must-pass-through",
 "C20": "callee-precondition / sibling agreement at every call site, absolute-residual def-use rule, clamp path rule, loop classification",
}
checks = []
na = []
for p in props:
    pid = p["id"]
    ev = os.path.join(V, "evidence", pid + ".json")
    if pid in NA or not os.path.exists(os.path.join(V, "nv", "rules", pid.lower() + ".py")):
        na.append({"property_id": pid, "reason": NA.get(pid, "no static clause could be made exact (see DESIGN.md)")})
        continue
    dec, nd = [], []
    if os.path.exists(ev):
        c = json.load(open(ev))["coverage"]
        dec, nd = c.get("decides", []), c.get("not_decided", [])
    checks.append({
        "property_id": pid,
        "quick_cmd": f"./check {pid} --tier quick",
        "thorough_cmd": f"./check {pid} --tier thorough",
        "evidence_file": f"/verif/evidence/{pid}.json",
        "replay_cmd_template": f"./check {pid} --replay {{path}}",
        "engine": "nv",
        "level_claimed": {
            "category": "other",
            "text": "static discharge of structural clauses that are necessary conditions of the property, on every path of the current /repo sources: " + "; ".join(dec) + ". It decides those clauses and NOT the behaviour itself; not decided: " + "; ".join(nd) + ".",
            "design_ref": f"DESIGN.md §3 ({pid}), §2b (rule templates)",
        },
        "level_note": "trusted base: the checker (nv/), CPython's ast, the models of builtins/numpy in nv/models*.py (numpy and user callables treated as pure; view/copy table); annotations seed parameter types; a violated clause is reported with file:line, rule and instance; exit 2 + ANALYSIS-ERROR when an anchor vanished or a vacuity floor is not met",
        "technique": "static analysis: " + TECH.get(pid, "rule discharge over ast/CFG/effect summaries"),
    })
m = {
    "version": 1,
    "setup_cmd": "/venv/bin/python -m compileall -q nv >/dev/null 2>&1; /venv/bin/python -m nv.warm",
    "hooks": {"guard": "COMPMEC_NURBS_VERIF", "enable": "none needed: the analysis reads the sources under /repo/src, nothing is instrumented or executed", "baseline_off_cmd": "cd /repo && /venv/bin/python -m pytest -ra -q -p no:cacheprovider --timeout=900 --continue-on-collection-errors", "source_commits": [], "add_only": True},
    "engines": [{"name": "nv", "path": "nv/", "serves_properties": [c["property_id"] for c in checks], "kind_free_text": "repository-specific static analyser: ast index, statement CFG with dominators, whole-program abstract interpreter (types x points-to x may/must dependences x number kinds) with polyvariant summaries, rule templates in nv/rules"}],
    "checks": checks,
    "notes": "static analysis only; nothing under /repo is imported or executed by a check. known_findings.json lists recorded (open) and repaired (fixed) defects. See DESIGN.md.",
    "not_applicable": na,
}
json.dump(m, open(os.path.join(V, "MANIFEST.json"), "w"), indent=1)
print(len(checks), "checks,", len(na), "not applicable")
