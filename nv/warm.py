"""setup: build and cache the program model once (every check rebuilds it anyway if the sources changed)"""
import sys

try:
    from . import model

    model.load(need=("generic", "exact"))
except Exception as e:  # never fail the setup: the checks report their own errors
    print("warm-up skipped:", e, file=sys.stderr)
