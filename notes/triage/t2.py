from fractions import Fraction as F
import numpy as np, traceback, warnings, signal
warnings.simplefilter("ignore")
from compmec.nurbs import Curve, KnotVector, GeneratorKnotVector, Function, Derivate, Integrate, Projection, Intersection
from compmec.nurbs import heavy
class TO(Exception): pass
def handler(s,f): raise TO()
signal.signal(signal.SIGALRM, handler)
def show(title, fn):
    print("==", title)
    signal.alarm(10)
    try:
        r = fn()
        print("   ->", r)
    except BaseException as e:
        print("   EXC", type(e).__name__, str(e)[:150])
    signal.alarm(0)

R1 = Curve([0,0,0,1,1,1],[F(0),F(1),F(3)],[1,1,1]); R2 = Curve([0,0,0,1,1,1],[F(0),F(1),F(3)],[1,5,1])
show("rational eq differing weights", lambda: (R1==R2, R1(F(1,4)), R2(F(1,4))))

# C15 apply atomicity: int ndarray points with float weights
c = Curve([0,0,1,1], np.array([[1,2],[3,4]]), [1.0,2.0])
show("knot_insert on int-array rational", lambda: c.knot_insert([0.5]))
print("   state:", c.knotvector, c.ctrlpoints, c.weights)
pts = np.array([[1.,2.],[3.,4.]])
c = Curve([0,0,1,1], pts, [1.0,2.0])
show("knot_insert on float-array rational", lambda: c.knot_insert([0.5]))
print("   user array after:", pts.tolist(), " curve:", c.ctrlpoints)

# knot_insert outside interval
c = Curve([0,0,1,1],[F(1),F(2)])
show("knot_insert outside", lambda: c.knot_insert([2]))
print("   state:", c.knotvector, c.ctrlpoints)
show("eval outside", lambda: c(2))
show("eval outside seq", lambda: c([0,2]))
# shared knotvector
kv = KnotVector([0,0,1,1])
a = Curve(kv,[1,2]); b = Curve(kv,[3,4])
a.knot_insert([F(1,2)])
print("shared kv:", kv, a.knotvector, b.knotvector, b.ctrlpoints, a.knotvector is kv)
a = Curve(kv,[1,2]); b = Curve(kv,[3,4])
a.degree_increase(1)
print("shared kv deginc:", kv, a.knotvector, b.knotvector, b.ctrlpoints)

# C19 termination: polyline with duplicate vertex
poly = Curve(GeneratorKnotVector.uniform(1,4), np.array([[0.,0.],[1.,0.],[1.,0.],[2.,1.]]))
show("projection on polyline with repeated vertex", lambda: Projection.point_on_curve((0.5,1.0), poly))
poly = Curve(GeneratorKnotVector.uniform(1,4), np.array([[0.,0.],[1.,0.],[1.,1.],[2.,1.]]))
show("projection on polyline", lambda: Projection.point_on_curve((0.5,1.0), poly))
show("projection point on curve", lambda: Projection.point_on_curve((1.0,0.5), poly))

# C20: disjoint
a = Curve(GeneratorKnotVector.bezier(1), np.array([[0.,0.],[1.,0.]]))
b = Curve(GeneratorKnotVector.bezier(1), np.array([[0.,5.],[1.,5.]]))
show("intersection disjoint bbox", lambda: Intersection.curve_and_curve(a,b))
b = Curve(GeneratorKnotVector.bezier(1), np.array([[0.,0.5],[0.4,-0.5]]))
show("intersection crossing", lambda: Intersection.curve_and_curve(a,b))
b = Curve(GeneratorKnotVector.bezier(2), np.array([[0.,1.],[0.5,-0.5],[1.,1.]]))
show("intersection bez2 not touching but overlapping bbox", lambda: Intersection.curve_and_curve(a,b))
print(b(0.5))
