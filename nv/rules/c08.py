"""C08 — curve arithmetic is pointwise."""
from __future__ import annotations

import ast

from .. import AnalysisError
from .common import CURVE_FIELDS, R, limits_guards, seg

NEED = ("generic",)
B = "curves.BaseCurve."
CURVE_CURVE = ["__add__", "__mul__", "__matmul__", "__truediv__"]
DERIVED = ["__sub__", "__radd__", "__rsub__"]
SCALAR_ONLY = ["__rmul__", "__rmatmul__", "__rtruediv__", "__neg__"]
ALL = CURVE_CURVE + DERIVED + SCALAR_ONLY


def path_facts(ctx, nid):
    """(text, polarity) of the conjuncts of the tests whose edge dominates node nid"""
    facts = set()
    cfg = ctx.cfg
    from .common import local_aliases, unalias

    al = local_aliases(ctx.fi.node)
    fn = ctx.fi.node
    smap = posmap = None

    def flow_unalias(test):
        """a local that is rebound LATER (`w = self.weights` ... `if w is None: ... else: w = w or ones`) still is the attribute it
        was read from at the test: replaced by the plain attribute chain of the assignment that reaches the test"""
        nonlocal smap, posmap
        names = {x.id for x in ast.walk(test) if isinstance(x, ast.Name)} - set(al)
        if not names:
            return test
        from .extra import _block_defs, _stmt_map, _target_names, reaching_assign
        import copy

        smap = smap or _stmt_map(fn)
        posmap = posmap or _block_defs(fn)
        at = smap.get(id(test))
        if at is None:
            return test
        sub = {}
        for nm in names:
            st = reaching_assign(fn, at, nm, posmap)
            if not isinstance(st, ast.Assign) or len(st.targets) != 1:
                continue
            tg, v = st.targets[0], st.value
            if isinstance(tg, ast.Tuple) and isinstance(v, ast.Tuple) and len(tg.elts) == len(v.elts):
                v = next((vv for tt, vv in zip(tg.elts, v.elts) if isinstance(tt, ast.Name) and tt.id == nm), None)
            elif not (isinstance(tg, ast.Name) and tg.id == nm):
                v = None
            if isinstance(v, ast.Attribute) and isinstance(v.value, ast.Name) and v.value.id in ctx.fi.params:
                sub[nm] = v
        if not sub:
            return test

        class T(ast.NodeTransformer):
            def visit_Name(self, n):
                return copy.deepcopy(sub[n.id]) if n.id in sub and isinstance(n.ctx, ast.Load) else n

        return T().visit(copy.deepcopy(test))

    for t in cfg.nodes:
        if t.kind != "test":
            continue
        for lab, pol in (("t", True), ("f", False)):
            if cfg.edge_dominates(t.id, lab, nid) and nid in cfg.live_nodes() and any(l == lab for _, l in t.succ):
                c = unalias(flow_unalias(t.ast), al)
                parts = [c]
                if isinstance(c, ast.BoolOp) and ((isinstance(c.op, ast.And) and pol) or (isinstance(c.op, ast.Or) and not pol)):
                    parts = c.values
                elif isinstance(c, ast.BoolOp):
                    parts = []
                for p in parts:
                    pp, q = p, pol
                    while isinstance(pp, ast.UnaryOp) and isinstance(pp.op, ast.Not):
                        pp, q = pp.operand, not q
                    facts.add(norm_fact(pp, q))
    return facts


def norm_fact(pp: ast.expr, q: bool):
    """normal form of a fact: `x is not None` (q) == `x is None` (not q); `a != b` (q) == `a == b` (not q)"""
    if isinstance(pp, ast.Compare) and len(pp.ops) == 1:
        if isinstance(pp.ops[0], ast.IsNot):
            return (seg(ast.Compare(left=pp.left, ops=[ast.Is()], comparators=pp.comparators)), not q)
        if isinstance(pp.ops[0], ast.NotEq):
            return (seg(ast.Compare(left=pp.left, ops=[ast.Eq()], comparators=pp.comparators)), not q)
        if isinstance(pp.ops[0], ast.NotIn):
            return (seg(ast.Compare(left=pp.left, ops=[ast.In()], comparators=pp.comparators)), not q)
    return (seg(pp), q)


def scalar_arm(ctx, other: str):
    """(test node, label) of the arm taken when `other` is not a curve"""
    for t in ctx.cfg.nodes:
        if t.kind == "test":
            c = t.ast
            neg = False
            while isinstance(c, ast.UnaryOp) and isinstance(c.op, ast.Not):
                c, neg = c.operand, not neg
            if isinstance(c, ast.Call) and isinstance(c.func, ast.Name) and c.func.id == "isinstance" and isinstance(c.args[0], ast.Name) and c.args[0].id == other:
                return t, ("t" if neg else "f")
    return None


def _affine(e, var: str):
    """'const' (no `var`), 'affine' (a*var + b with a, b free of var), 'no' (definitely not affine: a quotient by, or a product /
    power of, expressions of var), None (a call or a construct this rule does not know)"""
    has = any(isinstance(x, ast.Name) and x.id == var for x in ast.walk(e))
    if not has:
        return "const"
    if isinstance(e, ast.Name):
        return "affine"
    if isinstance(e, ast.UnaryOp) and isinstance(e.op, (ast.USub, ast.UAdd)):
        return _affine(e.operand, var)
    if isinstance(e, ast.Call) and isinstance(e.func, ast.Name) and e.func.id in ("copy", "deepcopy") and len(e.args) == 1:
        return _affine(e.args[0], var)
    if isinstance(e, ast.BinOp):
        a, b = _affine(e.left, var), _affine(e.right, var)
        if "no" in (a, b):
            return "no"
        if isinstance(e.op, (ast.Add, ast.Sub)):
            return None if None in (a, b) else "affine"
        if isinstance(e.op, (ast.Mult, ast.MatMult)):
            if a != "const" and b != "const":
                return "no"
            return None if None in (a, b) else "affine"
        if isinstance(e.op, (ast.Div, ast.FloorDiv, ast.Mod)):
            if b != "const":
                return "no"
            return None if a is None else "affine"
        if isinstance(e.op, ast.Pow):
            return "no" if not (isinstance(e.right, ast.Constant) and e.right.value == 1) else a
    return None


def affine_map(r: R, chk, quals, rule="AFFINE-MAP"):
    """a result that keeps the basis of the operand (it starts as `copy(self)` and its weights are not set again) and replaces every
    control point P_i by E(P_i) is the curve u -> E(C(u)) only for affine E: sum_i R_i(u) E(P_i) = E(sum_i R_i(u) P_i) needs
    E(a x + b y) = a E(x) + b E(y) for a + b = 1.  `s / P_i`, `P_i * P_i`, `P_i ** 2` are not affine."""
    n = 0
    for q in quals:
        ctx = r.root(q)
        fi = ctx.fi
        def is_copy_of_self(v):
            return (isinstance(v, ast.Call) and isinstance(v.func, ast.Name) and v.func.id in ("copy", "deepcopy") and len(v.args) == 1 and isinstance(v.args[0], ast.Name) and v.args[0].id == "self") or \
                   (isinstance(v, ast.Call) and isinstance(v.func, ast.Attribute) and v.func.attr in ("copy", "deepcopy", "__copy__", "__deepcopy__") and isinstance(v.func.value, ast.Name) and v.func.value.id == "self")

        # statement lists, to look backwards from a store for the definition that reaches it
        blocks = []
        for x in ast.walk(fi.node):
            for fld in ("body", "orelse", "finalbody"):
                b = getattr(x, fld, None)
                if isinstance(b, list) and b and isinstance(b[0], ast.stmt):
                    blocks.append((x, b))

        def kept_basis(store, name):
            """True when the definition of `name` reaching `store` is copy(self) and neither weights nor knot vector of it are set in between"""
            cur = store
            while True:
                owner = next(((x, b) for x, b in blocks if any(st is cur for st in b)), None)
                if owner is None:
                    return False
                x, b = owner
                for st in reversed(b[: next(k for k, st in enumerate(b) if st is cur)]):
                    for y in ast.walk(st):
                        if isinstance(y, ast.Assign):
                            for t in y.targets:
                                if isinstance(t, ast.Attribute) and t.attr in ("weights", "knotvector") and isinstance(t.value, ast.Name) and t.value.id == name:
                                    return False
                                if isinstance(t, ast.Name) and t.id == name:
                                    return st is y and is_copy_of_self(y.value)
                if x is fi.node:
                    return False
                cur = x

        for a in ast.walk(fi.node):
            if not (isinstance(a, ast.Assign) and len(a.targets) == 1):
                continue
            t = a.targets[0]
            if not (isinstance(t, ast.Attribute) and t.attr == "ctrlpoints" and isinstance(t.value, ast.Name) and kept_basis(a, t.value.id)):
                continue
            copies = {t.value.id}
            v = a.value
            for _ in range(3):
                if isinstance(v, ast.Name):
                    ds = [x.value for x in ast.walk(fi.node) if isinstance(x, ast.Assign) and len(x.targets) == 1 and isinstance(x.targets[0], ast.Name) and x.targets[0].id == v.id]
                    if len(ds) != 1:
                        break
                    v = ds[0]
            while isinstance(v, ast.Call) and isinstance(v.func, ast.Name) and v.func.id in ("tuple", "list") and len(v.args) == 1:
                v = v.args[0]
            if not (isinstance(v, (ast.ListComp, ast.GeneratorExp)) and len(v.generators) == 1 and isinstance(v.generators[0].target, ast.Name) and not v.generators[0].ifs):
                continue
            it = v.generators[0].iter
            if isinstance(it, ast.Name):
                ds = [x.value for x in ast.walk(fi.node) if isinstance(x, ast.Assign) and len(x.targets) == 1 and isinstance(x.targets[0], ast.Name) and x.targets[0].id == it.id]
                if len(ds) == 1:
                    it = ds[0]
            if not (isinstance(it, ast.Attribute) and it.attr == "ctrlpoints" and isinstance(it.value, ast.Name) and it.value.id in copies | {"self"}):
                continue
            var = v.generators[0].target.id
            verdict = _affine(v.elt, var)
            n += 1
            ok = verdict != "no"
            chk.ob(rule, f"{q}: `{seg(v.elt, 30)}` maps the control points of the kept basis affinely", ok, loc=r.loc(ctx, a),
                   detail="" if ok else f"{q}: `{seg(a, 70)}` keeps the knot vector and the weights of the operand and replaces each control point `{var}` by `{seg(v.elt, 30)}`, which is not affine in `{var}`: sum_i R_i(u) * ({seg(v.elt, 30)}) is not the pointwise result at any u where more than one basis function is non-zero",
                   func=q, construct=f"control points mapped by non-affine `{seg(v.elt, 30)}`")
            if verdict is None:
                chk.note(f"{rule}: {q}: `{seg(v.elt, 40)}` is not a form this rule knows: not decided")
    chk.floor(rule, "control-point maps on a kept basis in the scalar operators", n, 7)


def run(m, chk):
    r = R(m, chk)
    chk.explanation = (
        "Static discharge of structural clauses of C08: operands of the 11 arithmetic dunders are not modified and results are fresh (PURE / FRESH); the four "
        "curve x curve operators have the limits comparison raising ValueError dominating the curve-curve computation (GATE); derived operators only delegate; "
        "on every return site the returned curve depends on both operands, and on the weights of an operand unless the path established `weights is None` (DEP-MAY). "
        "Pointwise equality of the values and the correctness of the combined knot vector are not decided."
    )
    chk.decides = ["INT-MATRIX (the transformation matrices of A + B — identities of Python ints when the knot vectors coincide — are multiplied as matrices of objects, not as int64 arrays)", "AXIS-FIRST (the control points of the product A * B start with the axis of the basis functions whatever the shape of one control point: followed axis by axis through moveaxis / tensordot / @)", "MATRIX-OPERAND (each matrix of add_spline_curve multiplies the control points of its own operand)", "INPLACE-MIX (no in-place update whose target comes from one operand and whose value from the other: the number type of one operand is not forced on the other)", "UNION-DEGREE (U | V compares multiplicities written in the common degree max(p, q))", "AXIS-ORDER (the table of pairwise point products of A @ B has its axes in the order of the product matrix)", "END-EXACT (the closed sample nodes of the product are mapped onto each span with an expression that is exact at both ends)", "ELEVATED-VECTOR (the knot vector written next to Operations.degree_increase(U, t) is U + t * U.knots)", "SAME-INTERVAL (the interval guard of the four operators is an equality of both ends, not a one-sided containment)", "SWAP-SYMMETRIC (the product knot vector treats both operands alike)", "DEHOMOG-PAIR (points divided by a list of weights are stored with exactly those weights)", "RESULT-HOMOG (every curve an operator returns is of degree 0 in the weights of each operand: no numerator / denominator factor missing or doubled)", "AFFINE-MAP (a result on the operand's own basis maps the control points affinely)", "MEMO-KEY (no function on the path is memoised by the value of numbers / knot vectors)", "PURE", "FRESH", "GATE(limits ⇒ ValueError)", "DELEGATE", "DEP-MAY per return site", 'POLY-ONLY (polynomial helpers only under weights is None)', 'INTERVAL', 'REFLECTED (x - A, M @ A, x / A are not A - x, A @ M, A / x)', 'ZIP-ALIGN (parallel lists are zipped with the same slice)']
    chk.not_decided = ["(A op B)(u) = A(u) op B(u) as values", "correctness of the combined knot vector (fails for different degrees with interior knots — consequence of the | defect, DESIGN §5)"]
    for name in ALL:
        q = B + name
        fi = r.prog.func(q)
        r.pure("PURE", q, fi.params[:2])
        r.fresh_result("FRESH", q)
    chk.floor("PURE", "arithmetic dunders", len(ALL), 11)
    # 2. limits gate
    for name in CURVE_CURVE:
        q = B + name
        ctx = r.root(q)
        fi = ctx.fi
        other = fi.params[1]
        sa = scalar_arm(ctx, other)
        if sa is None:
            raise AnalysisError(f"{q}: the isinstance dispatch on `{other}` was not found")
        kv = CURVE_FIELDS[0]
        guards = limits_guards(r, ctx, {("PF", 0, kv)}, {("PF", 1, kv), ("P", 1)})
        rets = [n for n in r.stmt_nodes(ctx) if isinstance(n.ast, ast.Return)]
        n_cc = 0
        for n in rets:
            if ctx.cfg.edge_dominates(sa[0].id, sa[1], n.id):
                continue  # scalar arm
            n_cc += 1
            ok = any(r.guard_dominates(ctx, g, n.id) for g in guards)
            chk.ob("GATE-LIMITS", f"{q}: curve-curve result `{seg(n.ast, 40)}` only after the limits comparison ⇒ ValueError", ok, loc=r.loc(ctx, n.ast),
                   detail="" if ok else f"{q}: the curve-curve result at {r.loc(ctx, n.ast)} is computed without comparing the two parameter intervals: operands on different intervals do not raise ValueError", func=q, construct="curve-curve result without limits guard")
        chk.floor("GATE-LIMITS", f"curve-curve return sites of {q}", n_cc, 2)
        from .extra import same_interval

        same_interval(r, chk, ctx, guards, q)
    from .extra import int_matrix

    int_matrix(r, chk, ["curves.BaseCurve.__add__", "heavy.Operations.matrix_transformation"], floor=1)
    from .extra import axis_first

    axis_first(r, chk, ["curves.BaseCurve.__mul__"])
    # derived operators only delegate
    for name in DERIVED:
        q = B + name
        fi = r.prog.func(q)
        body = [s for s in fi.node.body if not (isinstance(s, ast.Expr) and isinstance(s.value, ast.Constant))]
        # a single `return <base operators>`, possibly through locals (`opposite = -other; return self + opposite`)
        ok = bool(body) and isinstance(body[-1], ast.Return) and all(isinstance(s_, ast.Assign) and all(isinstance(t_, ast.Name) for t_ in s_.targets) for s_ in body[:-1]) and any(c.callees for c in r.root(q).calls)
        chk.ob("DELEGATE", f"{q}: a single `return` delegating to the base operators", ok, loc=f"curves.py:{fi.node.lineno}", detail="" if ok else f"{q}: no longer a pure delegation", func=q, construct="not a delegation")
    from .extra import end_exact

    nee = end_exact(r, chk, ["heavy.MathOperations.mul_spline_curve"])
    chk.floor("END-EXACT", "maps of reference nodes onto a span examined in mul_spline_curve", nee, 1)
    from .extra import axis_order

    axis_order(r, chk, B + "__matmul__")
    axis_order(r, chk, B + "__mul__", floor=0)  # a product written without a table of pairs is followed by AXIS-FIRST
    from .extra import union_degree

    union_degree(r, chk)
    from .extra import inplace_mix

    inplace_mix(r, chk, [B + n_ for n_ in CURVE_CURVE])
    from .extra import matrix_operand

    matrix_operand(r, chk, B + "__add__")
    from .extra import elevated_vector

    elevated_vector(r, chk, ["heavy.Operations.matrix_transformation", "curves.Curve.degree_increase"], floor=2)
    from .extra import interval_from_operand, poly_only, reflected_ops, zip_align

    reflected_ops(r, chk)
    zip_align(r, chk, [B + n_ for n_ in CURVE_CURVE])
    poly_only(r, chk, [B + n_ for n_ in CURVE_CURVE], floor=8)
    interval_from_operand(r, chk, [B + n_ for n_ in CURVE_CURVE + ["__rtruediv__"]], floor=4)
    # 3. operand dependence per return site
    nsites = 0
    for name in ALL:
        q = B + name
        ctx = r.root(q)
        fi = ctx.fi
        binary = len(fi.params) > 1
        other = fi.params[1] if binary else None
        for nid, v in sorted(ctx.ret_sites.items()):
            node = ctx.cfg.nodes[nid]
            have = r.deep_dep(ctx, v, heap=ctx.ret_states[nid].heap)
            facts = path_facts(ctx, nid)
            need = ["self.ctrlpoints", "self.knotvector"]
            if ("self.weights is None", True) not in facts:
                need.append("self.weights")
            want = set(r.srcs(fi, need))
            missing = [w for w in want if not R.dep_has(have, w)]
            if binary and not R.dep_has(have, ("P", 1)):
                missing.append(("P", 1))
            if binary and name in CURVE_CURVE:
                sa = scalar_arm(ctx, other)
                if sa is not None and not ctx.cfg.edge_dominates(sa[0].id, sa[1], nid):
                    need2 = [f"{other}.ctrlpoints", f"{other}.knotvector"]
                    if (f"{other}.weights is None", True) not in facts:
                        need2.append(f"{other}.weights")
                    missing += [w for w in r.srcs(fi, need2) if not R.dep_has(have, w)]
            nsites += 1
            ok = not missing
            chk.ob("DEP-MAY", f"{q}: `{seg(node.ast, 50)}` depends on both operands", ok, loc=r.loc(ctx, node.ast),
                   detail="" if ok else f"{q}: the value returned at {r.loc(ctx, node.ast)} (`{seg(node.ast, 60)}`) does not depend on {r.fmt_deps(fi, missing)}: that operand is ignored on this path",
                   func=q, construct=f"`{seg(node.ast, 50)}` ignores {r.fmt_deps(fi, missing)}")
    chk.floor("DEP-MAY", "return sites of the arithmetic dunders", nsites, 18)
    from .extra import memo_key

    nm = memo_key(r, chk, entries=['curves.BaseCurve.__add__', 'curves.BaseCurve.__sub__', 'curves.BaseCurve.__mul__', 'curves.BaseCurve.__matmul__', 'curves.BaseCurve.__truediv__', 'curves.BaseCurve.__rtruediv__', 'curves.BaseCurve.__rmatmul__', 'curves.BaseCurve.__rmul__', 'curves.BaseCurve.__radd__', 'curves.BaseCurve.__rsub__', 'curves.BaseCurve.__neg__'])
    chk.floor("MEMO-KEY", "functions reachable from the entry points examined for value-keyed memoisation", nm, 3)
    affine_map(r, chk, [B + name for name in ALL])
    from .homog import result_homog

    result_homog(r, chk, [B + n_ for n_ in ("__add__", "__mul__", "__matmul__", "__truediv__", "__rtruediv__")], per_operand=True, floor=8)
    from .extra import dehomog_pair

    dehomog_pair(r, chk, ["curves.BaseCurve.__truediv__"], floor=1)
    from .extra import swap_symmetric

    swap_symmetric(r, chk, "heavy.MathOperations.knotvector_mul")
