"""C11 — fit_curve is the L2-orthogonal projection (with optional exact interpolation)."""
from __future__ import annotations

from .common import CURVE_FIELDS, R
from .c04 import committed_deps
from .c05 import arg_flow, fit_flow
from .c10 import pairing

NEED = ("generic",)
FQ = "curves.Curve.fit_curve"


def run(m, chk):
    r = R(m, chk)
    chk.explanation = (
        "Static discharge of structural clauses of C11: inside LeastSquare.func2func node and weight families are paired as the accessors define them and requested for the same size (a mismatched pair is a wrongly "
        "weighted inner product that reproduction tests cannot see); the interpolation nodes, both knot vectors and both weight vectors reach the least-squares matrices at both lstsq call sites (ARG-FLOW); the committed "
        "control points depend on them (DEP-MAY); the source curve is not modified. Orthogonality, optimality and the meaning of the returned error are not decided."
    )
    chk.decides = ["ERROR-NONNEG (every error fit_curve returns is an absolute value, or a maximum / a sum of absolute values: non-negative whatever the rounding)", "TRUNC-FLOAT (no integer obtained by truncating a float quotient is used on the path: the quadrature tables are built with exact binomials)", "QUAD-ORDER (the span-by-span rule of func2func has more than 2 max(p, q) nodes: exact for the squares of both bases)", "SPANS-UNION (the Gram matrices behind every refinement / projection are integrated span by span of the union of both knot sets)", "ERROR-QUADRATIC (with interpolation constraints the reported error is the whole quadratic form in T)", "BASIS-HOMOG (the least-squares algebra is consistent under a rescaling of either basis)", "LOOP-ACCUMULATE (the error handed to the gate is not overwritten per component in a loop)", "MEMO-KEY (no function on the path is memoised by the value of numbers / knot vectors)", "PAIR (func2func)", "ARG-FLOW", "DEP-MAY of the committed points", "PURE(other)", 'POLY-ONLY', 'JACOBIAN (span sums of the Gram matrices carry the span length)', 'OPEN-NODES (the Gram quadrature samples no span end)']
    chk.not_decided = ["L2-orthogonality of the residual", "D = C when C lies in S", "sign / scale of the returned error"]
    pairing(r, chk, ["heavy.LeastSquare.func2func"], floor=4)
    fit_flow(r, chk)
    from .extra import error_nonneg

    error_nonneg(r, chk, "curves.Curve.fit_curve")
    from .extra import jacobian, poly_only

    jacobian(r, chk, ["heavy.LeastSquare.func2func"])
    from .c10 import open_nodes

    open_nodes(r, chk, "heavy.LeastSquare.func2func")
    poly_only(r, chk, [FQ], floor=2)
    arg_flow(r, chk, "ARG-FLOW", FQ, "LeastSquare.spline2spline", "oldknotvector", ["other.knotvector"])
    arg_flow(r, chk, "ARG-FLOW", FQ, "LeastSquare.spline2spline", "newknotvector", ["self.knotvector"])
    arg_flow(r, chk, "ARG-FLOW", FQ, "LeastSquare.func2func", "oldknotvector", ["other.knotvector"])
    arg_flow(r, chk, "ARG-FLOW", FQ, "LeastSquare.func2func", "newknotvector", ["self.knotvector"])
    arg_flow(r, chk, "ARG-FLOW", FQ, "LeastSquare.func2func", "oldweights", ["other.weights"], what="rational source curve")
    arg_flow(r, chk, "ARG-FLOW", FQ, "LeastSquare.func2func", "newweights", ["self.weights"], what="rational target space")
    arg_flow(r, chk, "ARG-FLOW", "heavy.LeastSquare.spline2spline", "LeastSquare.func2func", "oldknotvector", ["oldknotvector"])
    arg_flow(r, chk, "ARG-FLOW", "heavy.LeastSquare.spline2spline", "LeastSquare.func2func", "newknotvector", ["newknotvector"])
    committed_deps(r, chk, FQ, CURVE_FIELDS[1], ["other.ctrlpoints", "other.knotvector", "other.weights", "self.knotvector", "self.weights", "nodes"])
    # the returned matrices of func2func depend on all five inputs
    ctx = r.root("heavy.LeastSquare.func2func")
    for nid, v in sorted(ctx.ret_sites.items()):
        have = r.deep_dep(ctx, v, heap=ctx.ret_states[nid].heap)
        need = ["oldknotvector", "oldweights", "newknotvector", "newweights"]
        from .c08 import path_facts
        if ("fit_nodes is None", True) not in path_facts(ctx, nid):
            need.append("fit_nodes")
        miss = [w for w in r.srcs(ctx.fi, need) if not R.dep_has(have, w)]
        chk.ob("DEP-MAY", f"func2func: matrices returned at line {ctx.cfg.nodes[nid].ast.lineno} depend on {', '.join(need)}", not miss, loc=r.loc(ctx, ctx.cfg.nodes[nid].ast), detail="" if not miss else f"func2func: the returned matrices ignore {r.fmt_deps(ctx.fi, miss)}", func="heavy.LeastSquare.func2func", construct=f"matrices ignore {r.fmt_deps(ctx.fi, miss)}")
    r.pure("PURE", FQ, ["other", "nodes"])
    r.pure("PURE", "heavy.LeastSquare.func2func", ["oldknotvector", "oldweights", "newknotvector", "newweights", "fit_nodes"])
    from .extra import memo_key

    nm = memo_key(r, chk, entries=['curves.Curve.fit_curve'])
    chk.floor("MEMO-KEY", "functions reachable from the entry points examined for value-keyed memoisation", nm, 3)
    from .extra import loop_accumulate

    loop_accumulate(r, chk, ["curves.Curve.fit_curve", "heavy.LeastSquare.func2func", "heavy.LeastSquare.spline2spline"])
    from .homog import basis_homog

    basis_homog(r, chk, "heavy.LeastSquare.func2func")
    from .extra import quad_order

    quad_order(r, chk)
    from .extra import trunc_float

    trunc_float(r, chk, ["heavy.LeastSquare.func2func", "heavy.LeastSquare.spline2spline"])
    from .extra import spans_union

    spans_union(r, chk, "heavy.LeastSquare.func2func")
    from .extra import error_quadratic

    error_quadratic(r, chk, "heavy.LeastSquare.func2func")
