"""C04 — knot insertion keeps the curve and yields exactly the requested knots."""
from __future__ import annotations

import ast
from typing import Dict, Optional, Set, Tuple

from ..vals import root_of
from .common import CURVE_FIELDS, R, seg
from . import c03
from .c15 import in_function
from .divisions import rule_d
from ..vals import fmt_obj

NEED = ("generic",)


# ---------------------------------------------------------------------------------------------
def interval_asserted_params(r: R, qual: str) -> Set[int]:
    """parameters (or elements of parameters) that an `assert` of the function compares with the
    ends of the knot vector"""
    ctx = r.root(qual)
    fi = ctx.fi
    loopvars: Dict[str, str] = {}
    for n in ast.walk(fi.node):
        if isinstance(n, ast.For) and isinstance(n.target, ast.Name) and isinstance(n.iter, ast.Name) and n.iter.id in fi.params:
            loopvars[n.target.id] = n.iter.id
    out = set()
    from .common import local_aliases, unalias

    al = local_aliases(fi.node)
    for n in ast.walk(fi.node):
        if isinstance(n, ast.Assert) and isinstance(n.test, ast.Compare):
            sides = [unalias(x, al) for x in [n.test.left] + list(n.test.comparators)]
            if any(isinstance(s, ast.Subscript) and isinstance(s.slice, (ast.Constant, ast.UnaryOp)) for s in sides):
                for s in sides:
                    if isinstance(s, ast.Name):
                        p = s.id if s.id in fi.params else loopvars.get(s.id)
                        if p is not None:
                            out.add(fi.params.index(p))
    return out


class Validates:
    """may-validate: the function (transitively) contains a `<x>.valid(nodes)` ⇒ ValueError guard fed by parameter j"""

    def __init__(self, r: R):
        self.r = r
        self.memo: Dict[Tuple[str, int], bool] = {}

    def __call__(self, qual: str, j: int) -> bool:
        k = (qual, j)
        if k in self.memo:
            return self.memo[k]
        self.memo[k] = False
        r = self.r
        ctx = r.A.roots.get(qual)
        if ctx is None:
            return False
        res = False
        for g in r.raise_guards(ctx, ("ValueError",)):
            for c in ast.walk(g[0].ast):
                if isinstance(c, ast.Call) and isinstance(c.func, ast.Attribute) and c.func.attr == "valid" and c.args:
                    a = ctx.val(c.args[0])
                    if a is not None and ("P", j) in a.all_dep():
                        res = True
        if not res:
            for cr in ctx.calls:
                for fi, bound in zip(cr.callees, cr.args):
                    for l, (pn, av) in enumerate(bound.items()):
                        if av is not None and ("P", j) in av.all_dep() and l < len(fi.params):
                            if self(fi.qual, l):
                                res = True
                                break
                    if res:
                        break
                if res:
                    break
        self.memo[k] = res
        return res


def x_assert(r: R, chk, public: str, heavy_suffixes):
    """interval asserts of the heavy layer are dominated, at the public call site, by a
    ValueError-raising interval test of the same user nodes"""
    ctx = r.root(public)
    val = Validates(r)
    n = 0
    for cr in ctx.calls:
        for fi, bound in zip(cr.callees, cr.args):
            if not any(fi.qual.endswith(s) for s in heavy_suffixes):
                continue
            asserted = interval_asserted_params(r, fi.qual)
            for j in asserted:
                pn = fi.params[j]
                av = bound.get(pn)
                if av is None:
                    continue
                user = [d for d in av.all_dep() if d[0] == "P" and d[1] != 0]
                if not user:
                    continue
                n += 1
                k = user[0][1]
                ok = False
                for other in ctx.calls:
                    if other.cfgnode == cr.cfgnode and other is cr:
                        continue
                    if not ctx.cfg.dominates(other.cfgnode, cr.cfgnode) or other.cfgnode == cr.cfgnode:
                        continue
                    for g, b2 in zip(other.callees, other.args):
                        for l, (qn, bv) in enumerate(b2.items()):
                            if bv is not None and ("P", k) in bv.all_dep() and l < len(g.params) and val(g.qual, l):
                                ok = True
                if not ok:
                    ok = any(r.guard_dominates(ctx, g, cr.cfgnode) for g in c03.v1_guard_in(r, public, ctx.fi.params[k]))
                chk.ob("X-ASSERT", f"{public}: `{seg(cr.node, 50)}` (asserts {pn} inside the interval) preceded by a ValueError interval test of `{ctx.fi.params[k]}`", ok, loc=r.loc(ctx, cr.node),
                       detail="" if ok else f"{public}: `{seg(cr.node, 60)}` reaches `assert knotvector[0] <= node` in {fi.qual} with user nodes that no ValueError-raising interval test has seen: a node outside the interval escapes as AssertionError (or is accepted under -O)",
                       func=public, construct=f"unvalidated nodes reach asserts of {fi.name}")
    return n


def committed_deps(r: R, chk, qual: str, field: str, need, rule="DEP-MAY"):
    ctx = r.root(qual)
    hv = ctx.summary.heap.get((("P", 0), field))
    want = r.srcs(ctx.fi, need)
    have = r.deep_dep(ctx, hv)
    missing = [w for w in want if not R.dep_has(have, w)]
    ok = hv is not None and not missing
    chk.ob(rule, f"{qual}: committed {field.split('__')[-1]} depend on {', '.join(need)}", ok, loc=r.loc(ctx, ctx.fi.node),
           detail="" if ok else f"{qual}: the value committed to {field.split('__')[-1]} does not depend on {r.fmt_deps(ctx.fi, missing)} (depends on: {r.fmt_deps(ctx.fi, have)})",
           func=qual, construct=f"{field.split('__')[-1]} ignores {r.fmt_deps(ctx.fi, missing)}")


def no_inplace_elem(r: R, chk, quals):
    for q in quals:
        ctx = r.root(q)
        hits = [e for e in sorted(ctx.summary.effects, key=repr) if e[0] == "M" and "ctrlpoints" in fmt_obj(e[1]) and e[1][0] == "E" and root_of(e[1]) is not None and in_function(ctx.fi, e[3])]
        ok = not hits
        chk.ob("NO-INPLACE-ELEM", f"{q}: no in-place operator applied to a stored control point object", ok, loc=hits[0][3] if hits else r.loc(ctx, ctx.fi.node),
               detail="" if ok else f"{q}: `{hits[0][4]}` at {hits[0][3]} is applied to {fmt_obj(hits[0][1])} — the point objects are shared with the caller and with shallow copies, and a failing in-place operation leaves the curve half-updated",
               func=q, construct=f"{hits[0][4]} at element of ctrlpoints" if hits else "")


def run(m, chk):
    r = R(m, chk)
    chk.explanation = (
        "Static discharge of structural clauses of C04: interval validation of the inserted nodes (V1) and ValueError-before-assert (X-ASSERT), "
        "commit-last atomicity of Curve.knot_insert / BaseCurve.apply, no in-place operation on shared point objects, division safety (rule D: no divisor "
        "is a bare node parameter), dependence of the committed points / weights on nodes, old knot vector, old points and old weights. "
        "That the matrix is Boehm's (function preservation) and the multiset union of knots are not decided."
    )
    chk.decides = ["EXACT-PATH (knot_insert reaches the refitting knot-vector setter only where self.ctrlpoints is None: a curve with control points always goes through the exact insertion matrix)", "WALK-ONCE (the nodes to insert / remove are walked once, or materialised first: a one-pass iterable cannot slip past the interval test)", "MIN-POINT (refinement uses nothing of a control point but scalar * point and point + point: no sum() from the int 0, no division, no point * scalar)", "DEHOMOG-PAIR (points divided by a list of weights are stored with exactly those weights)", "MEMO-KEY (no function on the path is memoised by the value of numbers / knot vectors)", "V1", "X-ASSERT", "COMMIT-LAST", "NO-INPLACE-ELEM", "D", "DEP-MAY of committed state", 'PRECHECK (zero-test of new weights before the commit)', 'MULT-KEEP (inserted nodes keep their multiplicity)']
    chk.not_decided = ["function preservation (the insertion matrix is Boehm's)", "new knot vector = sorted multiset union"]
    chk.assume("a setter's validation of an already computed value of the right length is not modelled as a failure point")
    c03.v1(r, chk)
    n = x_assert(r, chk, "curves.Curve.knot_insert", ("Operations.knot_insert", "Operations.split_curve", "Operations.one_knot_insert", "Operations.one_knot_insert_once"))
    chk.floor("X-ASSERT", "public call sites of asserting heavy functions in knot_insert", n, 1)
    r.commit_last("COMMIT-LAST", "curves.Curve.knot_insert")
    r.commit_last("COMMIT-LAST", "curves.BaseCurve.apply")
    no_inplace_elem(r, chk, ["curves.BaseCurve.apply", "curves.Curve.knot_insert"])
    from .extra import mult_keep, precheck_len, precheck_weights

    precheck_weights(r, chk, ["curves.BaseCurve.apply", "curves.Curve.knot_insert"])
    from .extra import walk_once

    walk_once(r, chk, ["heavy.ImmutableKnotVector.__add__", "heavy.ImmutableKnotVector.__sub__"], floor=2)
    walk_once(r, chk, ["curves.Curve.knot_insert"], floor=1, only=("nodes",))
    from .extra import exact_path

    exact_path(r, chk, ["curves.Curve.knot_insert"], floor=1)
    from .c16 import min_point

    min_point(r, chk, ["curves.BaseCurve.apply", "curves.Curve.knot_insert"], floor=2)
    precheck_len(r, chk, "curves.BaseCurve.apply")
    from .homog import weight_homog

    weight_homog(r, chk, ["curves.BaseCurve.apply"])
    mult_keep(r, chk, ["curves.Curve.knot_insert", "heavy.Operations.knot_insert", "heavy.Operations.one_knot_insert", "heavy.ImmutableKnotVector.__add__", "knotspace.KnotVector.insert", "knotspace.KnotVector.__iadd__"], floor=4, filtered=True)
    rule_d(r, chk, ["curves.Curve.knot_insert"], floor=4)
    committed_deps(r, chk, "curves.Curve.knot_insert", CURVE_FIELDS[1], ["nodes", "self.knotvector", "self.ctrlpoints", "self.weights"])
    committed_deps(r, chk, "curves.Curve.knot_insert", CURVE_FIELDS[2], ["nodes", "self.knotvector", "self.weights"])
    committed_deps(r, chk, "curves.Curve.knot_insert", CURVE_FIELDS[0], ["nodes", "self.knotvector"])
    committed_deps(r, chk, "curves.BaseCurve.apply", CURVE_FIELDS[1], ["matrix", "self.ctrlpoints", "self.weights"])
    committed_deps(r, chk, "curves.BaseCurve.apply", CURVE_FIELDS[2], ["matrix", "self.weights"])
    committed_deps(r, chk, "curves.BaseCurve.apply", CURVE_FIELDS[0], ["newknotvector"])
    from .extra import memo_key

    nm = memo_key(r, chk, entries=['curves.Curve.knot_insert'])
    chk.floor("MEMO-KEY", "functions reachable from the entry points examined for value-keyed memoisation", nm, 3)
    from .extra import dehomog_pair

    dehomog_pair(r, chk, ["curves.BaseCurve.apply"], floor=1)
