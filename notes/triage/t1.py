from fractions import Fraction as F
import numpy as np, traceback, warnings
from compmec.nurbs import Curve, KnotVector, GeneratorKnotVector, Function, Derivate, Integrate, Projection, Intersection
from compmec.nurbs import heavy

def show(title, fn):
    print("==", title)
    try:
        r = fn()
        print("   ->", r)
    except BaseException as e:
        print("   EXC", type(e).__name__, str(e)[:150])

# C03 tails
show("KV [0,0,1,1,2]", lambda: (KnotVector([0,0,1,1,2]), KnotVector([0,0,1,1,2]).degree, KnotVector([0,0,1,1,2]).npts, KnotVector([0,0,1,1,2]).limits))
show("KV [0,0,1,1]+[2]", lambda: KnotVector([0,0,1,1]) + [2])
show("KV insert outside low [-1,-1]", lambda: KnotVector([0,0,1,1]).insert([-1,-1]))
show("KV [0,1,2,3] degree=1", lambda: (KnotVector([0,1,2,3], 1), KnotVector([0,1,2,3],1).limits))
show("KV constant [1,1,1,1]", lambda: KnotVector([1,1,1,1]))
show("KV [0,0,0,1,1]", lambda: KnotVector([0,0,0,1,1]))
show("KV [0,0,1,1,1]", lambda: KnotVector([0,0,1,1,1]))
show("KV scale(-1)", lambda: KnotVector([0,0,1,1]).scale(-1))
show("KV scale(0)", lambda: KnotVector([0,0,1,1]).scale(0))

# C13 eq asymmetry
A = Curve([0,0,1,1],[F(0),F(1)])
B = Curve([0,0,F(1,2),1,1],[F(0),F(5),F(1)])
show("A==B (A coarse, B different)", lambda: (A==B, B==A))
A2 = Curve([0,0,1,1],[F(0),F(1)]); B2 = Curve([0,0,1,1],[F(0),F(1)]); B2.knot_insert([F(1,2)])
show("A==refined copy", lambda: (A2==B2, B2==A2))
# rational with different weights
R1 = Curve([0,0,0,1,1,1],[F(0),F(1),F(2)],[1,1,1]); R2 = Curve([0,0,0,1,1,1],[F(0),F(1),F(2)],[1,5,1])
show("rational eq differing weights", lambda: (R1==R2, R1(F(1,2)), R2(F(1,2))))
P1 = Curve([0,0,0,1,1,1],[F(0),F(1),F(2)])
show("poly vs rational same fn", lambda: (P1==R1, R1==P1))
