"""E4 — statement-level control-flow graph, dominators, post-dominators, control dependence."""
from __future__ import annotations

import ast
from typing import Dict, List, Optional, Set, Tuple

from .index import exc_is_sub

CATCH_ALL = ("BaseException", "Exception")


class Node:
    __slots__ = ("id", "kind", "ast", "succ", "pred", "handlers", "depth_loops")

    def __init__(self, id: int, kind: str, node: Optional[ast.AST]):
        self.id = id
        self.kind = kind  # entry exit raise stmt test for handler
        self.ast = node
        self.succ: List[Tuple[int, str]] = []  # (target, label) label: n t f exc back
        self.pred: List[Tuple[int, str]] = []
        self.handlers = None
        self.depth_loops: Tuple[int, ...] = ()  # ids of enclosing loop heads

    def __repr__(self):
        t = ""
        if self.ast is not None:
            try:
                t = ast.unparse(self.ast).split("\n")[0][:60]
            except Exception:
                t = "?"
        return f"<{self.id}:{self.kind} {t}>"

    @property
    def lineno(self):
        return getattr(self.ast, "lineno", 0)


def handler_types(h: ast.ExceptHandler) -> List[str]:
    if h.type is None:
        return ["BaseException"]
    t = h.type
    els = t.elts if isinstance(t, ast.Tuple) else [t]
    out = []
    for e in els:
        if isinstance(e, ast.Name):
            out.append(e.id)
        elif isinstance(e, ast.Attribute):
            out.append(e.attr)
        else:
            out.append("BaseException")
    return out


def _contains(node: ast.AST, kinds) -> bool:
    for n in ast.walk(node):
        if isinstance(n, kinds):
            return True
    return False


def may_raise(node: ast.AST) -> bool:
    if isinstance(node, (ast.Pass, ast.Break, ast.Continue, ast.Global, ast.Nonlocal, ast.Import, ast.ImportFrom)):
        return False
    if isinstance(node, (ast.FunctionDef, ast.ClassDef, ast.Lambda)):
        return False
    if isinstance(node, (ast.Assert, ast.Raise, ast.AugAssign, ast.For, ast.Delete, ast.With)):
        return True
    if isinstance(node, ast.Assign) and any(not isinstance(t, ast.Name) for t in node.targets):
        return True
    return _contains(node, (ast.Call, ast.Subscript, ast.BinOp, ast.Compare, ast.Attribute, ast.UnaryOp, ast.Starred))


def raised_type(st: ast.AST) -> Optional[str]:
    """static exception class of `raise X(...)` / `raise X` / assert; None if unknown"""
    if isinstance(st, ast.Assert):
        return "AssertionError"
    if isinstance(st, ast.Raise):
        e = st.exc
        if e is None:
            return None
        if isinstance(e, ast.Call):
            e = e.func
        if isinstance(e, ast.Name):
            return e.id
        if isinstance(e, ast.Attribute):
            return e.attr
    return None


class CFG:
    def __init__(self, fnode: ast.FunctionDef):
        self.fnode = fnode
        self.nodes: List[Node] = []
        self.entry = self._new("entry", None).id
        self.exit = self._new("exit", None).id
        self.raise_exit = self._new("raise", None).id
        self._loop_stack: List[Tuple[int, List[int]]] = []  # (head id, break sources)
        self._try_stack: List[List[Tuple[List[str], int]]] = []  # handlers: (types, handler node id)
        self._finally_stack: List[list] = []
        last = self._body(fnode.body, [(self.entry, "n")])
        for src, lab in last:
            self._edge(src, self.exit, lab)
        for n in self.nodes:
            for t, lab in n.succ:
                self.nodes[t].pred.append((n.id, lab))
        self._dom = None
        self._pdom = None
        self._cdep = None

    # ------------------------------------------------------------------ building
    def _new(self, kind, node) -> Node:
        n = Node(len(self.nodes), kind, node)
        self.nodes.append(n)
        return n

    def _edge(self, a: int, b: int, lab: str):
        if (b, lab) not in self.nodes[a].succ:
            self.nodes[a].succ.append((b, lab))

    def _connect(self, preds, nid):
        for src, lab in preds:
            self._edge(src, nid, lab)

    def _exc_edges(self, n: Node, etype: Optional[str] = None):
        """exception edges from node n to enclosing handlers / raise exit."""
        for handlers in reversed(self._try_stack):
            stop = False
            for types, hid in handlers:
                if etype is None:
                    self._edge(n.id, hid, "exc")
                    if any(t in CATCH_ALL for t in types):
                        stop = True
                        break
                else:
                    if any(exc_is_sub(etype, t) for t in types):
                        self._edge(n.id, hid, "exc")
                        stop = True
                        break
                    if any(exc_is_sub(t, etype) for t in types):
                        self._edge(n.id, hid, "exc")
            if stop:
                return
        self._edge(n.id, self.raise_exit, "exc")

    def _stmt_node(self, st, preds, kind="stmt") -> Node:
        n = self._new(kind, st)
        n.depth_loops = tuple(h for h, _ in self._loop_stack)
        n.handlers = [[t for t, _ in hs] for hs in reversed(self._try_stack)]
        self._connect(preds, n.id)
        return n

    def _body(self, stmts, preds):
        for st in stmts:
            preds = self._stmt(st, preds)
        return preds

    def _stmt(self, st, preds):
        if isinstance(st, ast.If):
            t = self._stmt_node(st.test, preds, "test")
            t.ast = st.test
            if may_raise(st.test):
                self._exc_edges(t)
            a = self._body(st.body, [(t.id, "t")])
            b = self._body(st.orelse, [(t.id, "f")]) if st.orelse else [(t.id, "f")]
            return a + b
        if isinstance(st, ast.While):
            t = self._stmt_node(st.test, preds, "test")
            if may_raise(st.test):
                self._exc_edges(t)
            self._loop_stack.append((t.id, []))
            body_end = self._body(st.body, [(t.id, "t")])
            _, breaks = self._loop_stack.pop()
            for src, lab in body_end:
                self._edge(src, t.id, "back" if lab == "n" else lab)
            const_true = isinstance(st.test, ast.Constant) and bool(st.test.value)
            out = [] if const_true else [(t.id, "f")]
            if st.orelse:
                out = self._body(st.orelse, out)
            return out + [(b, "n") for b in breaks]
        if isinstance(st, ast.For):
            h = self._stmt_node(st, preds, "for")
            self._exc_edges(h)
            self._loop_stack.append((h.id, []))
            body_end = self._body(st.body, [(h.id, "t")])
            _, breaks = self._loop_stack.pop()
            for src, lab in body_end:
                self._edge(src, h.id, "back" if lab == "n" else lab)
            out = [(h.id, "f")]
            if st.orelse:
                out = self._body(st.orelse, out)
            return out + [(b, "n") for b in breaks]
        if isinstance(st, ast.Try):
            hnodes = []
            for h in st.handlers:
                hn = self._new("handler", h)
                hn.depth_loops = tuple(x for x, _ in self._loop_stack)
                hnodes.append((handler_types(h), hn.id))
            self._try_stack.append(hnodes)
            end = self._body(st.body, preds)
            self._try_stack.pop()
            if st.orelse:
                end = self._body(st.orelse, end)
            outs = list(end)
            for (types, hid), h in zip(hnodes, st.handlers):
                outs += self._body(h.body, [(hid, "n")])
            if st.finalbody:
                outs = self._body(st.finalbody, outs)
            return outs
        if isinstance(st, ast.With):
            n = self._stmt_node(st, preds, "stmt")
            self._exc_edges(n)
            return self._body(st.body, [(n.id, "n")])
        if isinstance(st, ast.Return):
            n = self._stmt_node(st, preds)
            if st.value is not None and may_raise(st.value):
                self._exc_edges(n)
            self._edge(n.id, self.exit, "n")
            return []
        if isinstance(st, ast.Raise):
            n = self._stmt_node(st, preds)
            self._exc_edges(n, raised_type(st))
            return []
        if isinstance(st, ast.Assert):
            n = self._stmt_node(st, preds)
            self._exc_edges(n, "AssertionError")
            if may_raise(st.test):
                self._exc_edges(n)
            return [(n.id, "n")]
        if isinstance(st, ast.Break):
            n = self._stmt_node(st, preds)
            if self._loop_stack:
                self._loop_stack[-1][1].append(n.id)
            return []
        if isinstance(st, ast.Continue):
            n = self._stmt_node(st, preds)
            if self._loop_stack:
                self._edge(n.id, self._loop_stack[-1][0], "back")
            return []
        n = self._stmt_node(st, preds)
        if may_raise(st):
            self._exc_edges(n)
        return [(n.id, "n")]

    # ------------------------------------------------------------------ graph algorithms
    def succs(self, i: int, exc: bool = True) -> List[int]:
        return [t for t, lab in self.nodes[i].succ if exc or lab != "exc"]

    def preds(self, i: int, exc: bool = True) -> List[int]:
        return [t for t, lab in self.nodes[i].pred if exc or lab != "exc"]

    def reachable(self, start: int, exc: bool = True, avoid: Set[int] = frozenset()) -> Set[int]:
        seen, todo = set(), [start]
        while todo:
            x = todo.pop()
            if x in seen or x in avoid:
                continue
            seen.add(x)
            todo.extend(self.succs(x, exc))
        return seen

    def reachable_from_succ(self, start: int, exc: bool = True, avoid: Set[int] = frozenset()) -> Set[int]:
        out = set()
        for s in self.succs(start, exc):
            out |= self.reachable(s, exc, avoid)
        return out

    def live_nodes(self) -> Set[int]:
        return self.reachable(self.entry)

    def _dominators(self, root: int, succf, predf) -> Dict[int, Set[int]]:
        nodes = set()
        todo = [root]
        while todo:
            x = todo.pop()
            if x in nodes:
                continue
            nodes.add(x)
            todo.extend(succf(x))
        dom = {n: set(nodes) for n in nodes}
        dom[root] = {root}
        changed = True
        order = sorted(nodes)
        while changed:
            changed = False
            for n in order:
                if n == root:
                    continue
                ps = [p for p in predf(n) if p in nodes]
                if not ps:
                    continue
                new = set.intersection(*(dom[p] for p in ps)) | {n}
                if new != dom[n]:
                    dom[n] = new
                    changed = True
        return dom

    def dominators(self) -> Dict[int, Set[int]]:
        """dom[n] = set of nodes dominating n (all edges, incl. exceptional)."""
        if self._dom is None:
            self._dom = self._dominators(self.entry, lambda x: self.succs(x), lambda x: self.preds(x))
        return self._dom

    def dominates(self, a: int, b: int) -> bool:
        d = self.dominators()
        return b in d and a in d[b]

    def edge_dominates(self, src: int, label: str, b: int) -> bool:
        """every path from entry to b traverses the edge (src -label-> t)."""
        tgts = [t for t, lab in self.nodes[src].succ if lab == label]
        if not tgts:
            return False
        t = tgts[0]
        if b not in self.live_nodes():
            return True
        # remove the edge and test reachability of b
        seen, todo = set(), [self.entry]
        while todo:
            x = todo.pop()
            if x in seen:
                continue
            seen.add(x)
            for s, lab in self.nodes[x].succ:
                if x == src and lab == label:
                    continue
                todo.append(s)
        return b not in seen

    def normal_live(self) -> Set[int]:
        """nodes from which the normal exit is reachable without exceptional edges"""
        seen, todo = set(), [self.exit]
        while todo:
            x = todo.pop()
            if x in seen:
                continue
            seen.add(x)
            todo.extend(self.preds(x, exc=False))
        return seen

    def postdominators(self) -> Dict[int, Set[int]]:
        """post-dominators over normal (non-exceptional) edges, restricted to nodes that can
        reach the normal exit: an `if c: raise` has a single live successor and is no branch."""
        if self._pdom is None:
            live = self.normal_live()
            self._pdom = self._dominators(
                self.exit,
                lambda x: [p for p in self.preds(x, exc=False) if p in live],
                lambda x: [s for s in self.succs(x, exc=False) if s in live],
            )
        return self._pdom

    def control_deps(self) -> Dict[int, Set[int]]:
        """cdep[n] = set of branch nodes (test / for) n is *directly* control dependent on."""
        if self._cdep is not None:
            return self._cdep
        pdom = self.postdominators()
        live = self.normal_live()
        cdep: Dict[int, Set[int]] = {n.id: set() for n in self.nodes}
        for b in self.nodes:
            if b.id not in live:
                continue
            ss = [s for s in self.succs(b.id, exc=False) if s in live]
            if len(set(ss)) < 2:
                continue
            for s in set(ss):
                # nodes that post-dominate s but do not strictly post-dominate b
                for n in pdom.get(s, ()):
                    if n == b.id or n not in pdom.get(b.id, ()):
                        cdep[n].add(b.id)
        self._cdep = cdep
        return cdep

    def control_deps_trans(self, n: int) -> Set[int]:
        cd = self.control_deps()
        out, todo = set(), [n]
        while todo:
            x = todo.pop()
            for b in cd.get(x, ()):
                if b not in out:
                    out.add(b)
                    todo.append(b)
        return out

    def stmt_nodes(self):
        return [n for n in self.nodes if n.kind in ("stmt", "test", "for", "handler")]

    def find(self, pred) -> List[Node]:
        return [n for n in self.nodes if n.ast is not None and pred(n)]
