"""TOL-HOMOG — homogeneity degree ("dimension") of a quantity that is compared with a numeric tolerance.

A tolerance stated on a distance between control points is a bound on a quantity that is homogeneous of degree 1 in the
point difference.  If the compared quantity has degree d (a squared distance has d = 2) the literal c bounds the distance by
c ** (1/d): the rule computes d by a small abstract evaluation over the syntax (local definitions, the repository's own
`norm` helper followed interprocedurally) and requires c ** (1/d) to be the stated tolerance.  Unknown degree ⇒ nothing is
decided (no report)."""
from __future__ import annotations

import ast
import math
from fractions import Fraction
from typing import Dict, Optional

from .common import R, seg

ANY = "any"  # the zero constant is homogeneous of every degree
SAME = {"np.transpose", "abs", "float", "max", "min", "sum", "np.sum", "np.max", "np.min", "np.abs", "np.absolute", "np.amax", "np.linalg.norm", "np.array", "tuple", "list", "np.mean", "np.ravel", "np.asarray", "np.fabs", "math.fabs", "np.hypot", "math.hypot", "math.fsum"}
HALF = {"np.sqrt", "math.sqrt"}
DOUBLE = {"np.square"}
PRODUCT = {"np.dot", "np.inner", "np.vdot", "np.multiply", "np.tensordot", "np.outer", "np.matmul", "np.kron"}


class Homog:
    def __init__(self, r: R, ctx, seeds: Dict[str, Fraction], attr=None, use_defs: bool = True):
        self.r, self.ctx, self.fi = r, ctx, ctx.fi
        self.seeds = dict(seeds)
        self.attr = attr  # optional: degree of an attribute access (expression -> degree or "skip")
        self.use_defs = use_defs
        self.defs: Dict[str, list] = {}
        for a in ast.walk(self.fi.node):
            if isinstance(a, ast.Assign) and len(a.targets) == 1 and isinstance(a.targets[0], ast.Name):
                self.defs.setdefault(a.targets[0].id, []).append(a.value)
            elif isinstance(a, ast.AugAssign) and isinstance(a.target, ast.Name):
                self.defs.setdefault(a.target.id, []).append(ast.BinOp(left=ast.Name(id=a.target.id, ctx=ast.Load()), op=a.op, right=a.value))
        self._busy = set()

    # -- degree algebra ------------------------------------------------------
    @staticmethod
    def _add(a, b):
        if a is None or b is None:
            return None
        if a == ANY:
            return b
        if b == ANY:
            return a
        return a if a == b else None

    @staticmethod
    def _mul(a, b):
        if a is None or b is None:
            return None
        if a == ANY or b == ANY:
            return ANY
        return a + b

    def const(self, e) -> Optional[float]:
        if isinstance(e, ast.Constant) and isinstance(e.value, (int, float)) and not isinstance(e.value, bool):
            return e.value
        if isinstance(e, ast.UnaryOp) and isinstance(e.op, ast.USub):
            c = self.const(e.operand)
            return None if c is None else -c
        if isinstance(e, ast.BinOp):
            a, b = self.const(e.left), self.const(e.right)
            if a is None or b is None:
                return None
            try:
                if isinstance(e.op, ast.Div):
                    return a / b
                if isinstance(e.op, ast.Mult):
                    return a * b
                if isinstance(e.op, ast.Add):
                    return a + b
                if isinstance(e.op, ast.Sub):
                    return a - b
                if isinstance(e.op, ast.Pow):
                    return a**b
            except (ZeroDivisionError, OverflowError, ValueError):
                return None
        if isinstance(e, ast.Name) and e.id in self.seeds and isinstance(self.seeds[e.id], tuple):
            return self.seeds[e.id][1]
        return None

    def deg(self, e):
        c = self.const(e)
        if c is not None:
            return ANY if c == 0 else Fraction(0)
        if isinstance(e, ast.Name):
            if e.id in self.seeds:
                s = self.seeds[e.id]
                return Fraction(0) if isinstance(s, tuple) else s
            if e.id in self._busy:
                return ANY  # accumulator on its own right-hand side: neutral
            ds = self.defs.get(e.id) if self.use_defs else None
            if not ds:
                return None
            self._busy.add(e.id)
            try:
                out = ANY
                for d in ds:
                    out = Homog._add(out, self.deg(d))  # alternative definitions, not a sum
                    if out is None:
                        return None
                return out
            finally:
                self._busy.discard(e.id)
        if isinstance(e, ast.UnaryOp) and isinstance(e.op, (ast.USub, ast.UAdd)):
            return self.deg(e.operand)
        if isinstance(e, ast.Attribute) and self.attr is not None:
            a = self.attr(e, self) if getattr(self.attr, "wants_h", False) else self.attr(e)
            if a != "skip":
                return a
        if isinstance(e, ast.BinOp) and isinstance(e.op, ast.Mult) and any(isinstance(x, (ast.List, ast.Tuple)) and x.elts and all(self.const(y) is not None for y in x.elts) for x in (e.left, e.right)):
            return ANY  # [1] * n: a list of literal numbers stands for "no dimension of its own"
        if isinstance(e, ast.BinOp):
            if isinstance(e.op, (ast.Add, ast.Sub)):
                return self._add(self.deg(e.left), self.deg(e.right))
            if isinstance(e.op, (ast.Mult, ast.MatMult)):
                return self._mul(self.deg(e.left), self.deg(e.right))
            if isinstance(e.op, ast.Div):
                a, b = self.deg(e.left), self.deg(e.right)
                if a is None or b is None or b == ANY:
                    return None
                return ANY if a == ANY else a - b
            if isinstance(e.op, ast.Pow):
                k = self.const(e.right)
                a = self.deg(e.left)
                if k is None or a is None:
                    return None
                return ANY if a == ANY else a * Fraction(k).limit_denominator(64)
            return None
        if isinstance(e, ast.IfExp):
            t = self.truth(e.test)
            if t is True:
                return self.deg(e.body)
            if t is False:
                return self.deg(e.orelse)
            return self._add(self.deg(e.body), self.deg(e.orelse))
        if isinstance(e, (ast.Tuple, ast.List)):
            out = ANY
            for x in e.elts:
                out = Homog._add(out, self.deg(x))  # a container, not a sum: elements of different degree are no inconsistency
            return out
        if isinstance(e, (ast.GeneratorExp, ast.ListComp)):
            sub = type(self)(self.r, self.ctx, self.seeds, self.attr, self.use_defs)
            sub.defs = self.defs
            sub.call_hook = getattr(self, "call_hook", None)
            for g in e.generators:
                it = g.iter
                if isinstance(it, ast.Call) and seg(it.func) == "enumerate" and it.args and isinstance(g.target, ast.Tuple) and len(g.target.elts) == 2:
                    pairs = [(g.target.elts[1], it.args[0])]
                elif isinstance(it, ast.Call) and seg(it.func) == "zip" and isinstance(g.target, ast.Tuple) and len(g.target.elts) == len(it.args):
                    pairs = list(zip(g.target.elts, it.args))
                else:
                    pairs = [(g.target, it)]
                for tgt, src in pairs:
                    d = self.deg(src)
                    for x in ast.walk(tgt):
                        if isinstance(x, ast.Name):
                            if d is not None and d != ANY:
                                sub.seeds[x.id] = d
                            elif not self.use_defs:
                                sub.seeds.pop(x.id, None)
            return sub.deg(e.elt)
        if isinstance(e, ast.Subscript):
            return self.deg(e.value)
        if isinstance(e, ast.Call):
            hook = getattr(self, "call_hook", None)
            if hook is not None:
                res = hook(e)
                if res:
                    return res[0]
            fn = seg(e.func)
            if fn in SAME and e.args:
                out = ANY
                for a in e.args:
                    out = self._add(out, self.deg(a))
                return out
            if fn in ("np.zeros", "np.zeros_like", "np.empty"):
                return ANY
            if fn == "Fraction" and len(e.args) == 2:
                a, b = self.deg(e.args[0]), self.deg(e.args[1])
                if a is None or b is None or b == ANY:
                    return None
                return ANY if a == ANY else a - b
            if fn == "int" and e.args:
                return self.deg(e.args[0])
            if fn in HALF and e.args:
                a = self.deg(e.args[0])
                return a if a in (None, ANY) else a / 2
            if fn in DOUBLE and e.args:
                a = self.deg(e.args[0])
                return a if a in (None, ANY) else a * 2
            if fn in PRODUCT and len(e.args) == 2:
                return self._mul(self.deg(e.args[0]), self.deg(e.args[1]))
            if fn == "zip":
                out = ANY
                for a in e.args:
                    out = self._add(out, self.deg(a))
                return out
            # a function of the repository: follow it
            crs = [c for c in self.ctx.calls if c.node is e and c.callees]
            if crs and len(crs[0].callees) == 1:
                return self.follow(crs[0].callees[0], e)
            return None
        return None

    def truth(self, t) -> Optional[bool]:
        if isinstance(t, ast.Compare) and len(t.ops) == 1:
            a, b = self.const(t.left), self.const(t.comparators[0])
            if a is not None and b is not None:
                op = t.ops[0]
                if isinstance(op, ast.Eq):
                    return a == b
                if isinstance(op, ast.NotEq):
                    return a != b
        return None

    def follow(self, callee, call: ast.Call):
        """degree of the callee's result: parameters take the degrees / constants of the arguments (defaults when omitted);
        a directly recursive call is assumed to return the degree of its first argument, which every return then has to confirm"""
        key = callee.qual
        if key in _FOLLOWING:
            a = self.deg(call.args[0]) if call.args else None
            return a
        params = [p for p in callee.params if p not in ("self", "cls")]
        seeds = {}
        for i, p in enumerate(params):
            arg = call.args[i] if i < len(call.args) else next((k.value for k in call.keywords if k.arg == p), None)
            if arg is None:
                d = callee.defaults.get(p)
                if d is None:
                    return None
                c = Homog(self.r, self.ctx, {}).const(d)
                if c is None:
                    return None
                seeds[p] = ("const", c)
            else:
                c = self.const(arg)
                if c is not None:
                    seeds[p] = ("const", c)
                else:
                    a = self.deg(arg)
                    if a is None:
                        return None
                    seeds[p] = a if a != ANY else Fraction(0)
        if callee.qual not in self.r.A.roots:
            return None
        _FOLLOWING.add(key)
        try:
            sub = type(self)(self.r, self.r.root(callee.qual), seeds)
            # loop variables over a seeded parameter inherit its degree
            for f in ast.walk(callee.node):
                if isinstance(f, ast.For):
                    d = sub.deg(f.iter)
                    if d is not None and d != ANY:
                        for x in ast.walk(f.target):
                            if isinstance(x, ast.Name):
                                sub.seeds[x.id] = d
            out = ANY
            for ret in [x for x in ast.walk(callee.node) if isinstance(x, ast.Return) and x.value is not None]:
                out = self._add(out, sub.deg(ret.value))
                if out is None:
                    return None
            return out
        finally:
            _FOLLOWING.discard(key)


_FOLLOWING = set()


def tol_homog(r: R, chk, qual: str, point_fields, stated: float, rule="TOL-HOMOG"):
    """every comparison of a point-derived quantity with a small literal in `qual` bounds the point distance by `stated`"""
    ctx = r.root(qual)
    fi = ctx.fi
    seeds: Dict[str, Fraction] = {}
    # loop variables over control points have degree 1
    for f in ast.walk(fi.node):
        if isinstance(f, (ast.For, ast.comprehension)):
            it = f.iter
            v = ctx.val(it)
            if v is None:
                continue
            deps = v.all_dep()
            if any(d[0] == "PF" and d[2] in point_fields for d in deps) and ("ctrlpoints" in seg(it)):
                for x in ast.walk(f.target):
                    if isinstance(x, ast.Name):
                        seeds[x.id] = Fraction(1)
    h = Homog(r, ctx, seeds)
    n = und = 0
    for c in ast.walk(fi.node):
        if not (isinstance(c, ast.Compare) and len(c.ops) == 1 and isinstance(c.ops[0], (ast.Gt, ast.GtE, ast.Lt, ast.LtE))):
            continue
        l, rt = c.left, c.comparators[0]
        for q, lit in ((l, rt), (rt, l)):
            cv = h.const(lit)
            if cv is None or not (0 < cv < 1e-3) or h.const(q) is not None:
                continue
            d = h.deg(q)
            if d is None or d == ANY or d == 0:
                und += 1
                continue
            n += 1
            eff = cv ** (1 / float(d))
            ok = abs(math.log10(eff) - math.log10(stated)) < 0.05
            chk.ob(rule, f"{qual}: `{seg(c, 50)}` bounds the point distance by {stated:g}", ok, loc=r.loc(ctx, c),
                   detail="" if ok else f"{qual}: `{seg(q, 40)}` is homogeneous of degree {d} in the control-point difference (a {'squared ' if d == 2 else ''}distance{'' if d == 2 else ' to the power ' + str(d)}) but is compared with {cv:g}: control points up to {eff:.2g} apart are treated as equal instead of {stated:g}",
                   func=qual, construct=f"degree-{d} quantity compared with {cv:g}")
    chk.note(f"{rule}: {n} tolerance comparison(s) of a point-derived quantity decided in {qual}, {und} of unknown degree left undecided")
    return n


# ------------------------------------------------------------------------------------------------
# WEIGHT-HOMOG: flow-sensitive degree of homogeneity in the weights of a rational curve
class Flow:
    """Statements of one function are walked in order; every local holds the SET of degrees it may have (one per path, at most
    MAXSET, else undecided).  A rational curve does not change when all its weights are multiplied by the same factor, so the
    control points it is given must be of degree 0 in the weights (numerators w*P have degree 1, weights have degree 1)."""

    MAXSET = 4

    def __init__(self, r: R, ctx, attr, call_result, homog_cls=None):
        self.r, self.ctx, self.fi = r, ctx, ctx.fi
        self.attr, self.call_result = attr, call_result
        self.homog_cls = homog_cls or Homog
        self.cur_target = None
        self.stores = []  # (receiver text, field, degree set, node)
        self.returns = []  # (degree set, node)
        self.exit_envs = []  # environments at the returns
        self.tuples = {}  # name -> degree sets of the items of a tuple literal bound to it
        self.cur_env = {}

    def degs(self, e, env):
        names = sorted({x.id for x in ast.walk(e) if isinstance(x, ast.Name) and x.id in env})
        combos = [{}]
        for nm in names:
            vals = env[nm]
            combos = [dict(c, **{nm: v}) for c in combos for v in vals]
            if len(combos) > 16:
                return frozenset({None})
        out = set()
        for c in combos:
            if any(v is None for v in c.values()):
                # an undecided operand: evaluate without it
                seeds = {k: v for k, v in c.items() if v is not None}
            else:
                seeds = c
            h = self.homog_cls(self.r, self.ctx, {k: (v if v != ANY else ("const", 0)) for k, v in seeds.items()}, self.attr, use_defs=False)
            h.call_hook = lambda call_: self.call_result(call_, 1)
            out.add(h.deg(e))
        return frozenset(out) if len(out) <= self.MAXSET else frozenset({None})

    @staticmethod
    def join(a, b):
        if a is None:
            return b
        if b is None:
            return a
        out = {}
        for k in set(a) | set(b):
            va, vb = a.get(k), b.get(k)
            if va is None or vb is None:
                out[k] = frozenset({None}) | (va or vb)
            else:
                out[k] = va | vb
            if len(out[k]) > Flow.MAXSET:
                out[k] = frozenset({None})
        return out

    def bind(self, tgt, src, env):
        self.cur_env = env
        self.cur_target = seg(tgt, 60)
        if isinstance(tgt, ast.Name) and isinstance(src, (ast.Tuple, ast.List)):
            # a tuple of matrices handed on as one value: remember the degrees of its items
            self.tuples[tgt.id] = [self.degs(x, env) for x in src.elts]
        if isinstance(tgt, (ast.Tuple, ast.List)) and isinstance(src, ast.Name) and len(self.tuples.get(src.id, ())) == len(tgt.elts):
            for t, v in zip(tgt.elts, self.tuples[src.id]):
                if isinstance(t, ast.Name):
                    env[t.id] = v
            return
        if isinstance(tgt, ast.Name):
            if isinstance(src, ast.Call):
                res = self.call_result(src, 1)
                if res is not None:
                    env[tgt.id] = frozenset({res[0]})
                    return
            env[tgt.id] = self.degs(src, env) if src is not None else frozenset({None})
        elif isinstance(tgt, (ast.Tuple, ast.List)):
            if isinstance(src, (ast.Tuple, ast.List)) and len(src.elts) == len(tgt.elts):
                vals = [self.degs(x, env) for x in src.elts]
                for t, v in zip(tgt.elts, vals):
                    if isinstance(t, ast.Name):
                        env[t.id] = v
                return
            if isinstance(src, ast.Call):
                res = self.call_result(src, len(tgt.elts))
                if res is not None:
                    for t, v in zip(tgt.elts, res):
                        if isinstance(t, ast.Name):
                            env[t.id] = frozenset({v})
                    return
            for t in tgt.elts:
                self.bind(t, None, env)
        elif isinstance(tgt, ast.Attribute) and src is not None:
            self.stores.append((seg(tgt.value), tgt.attr, self.degs(src, env), tgt))
        elif isinstance(tgt, ast.Subscript) and isinstance(tgt.value, ast.Name) and src is not None:
            # an element store: the container takes the degree of what is put into it (a zero-filled container has none of its own)
            new = self.degs(src, env)
            old = env.get(tgt.value.id, frozenset())
            keep = frozenset(d for d in old if d not in (ANY, None))
            env[tgt.value.id] = (keep | new) if len(keep | new) <= self.MAXSET else frozenset({None})

    def bind_loop(self, tgt, it, env):
        if isinstance(it, ast.Call) and seg(it.func) == "zip" and isinstance(tgt, ast.Tuple) and len(tgt.elts) == len(it.args):
            for t, s_ in zip(tgt.elts, it.args):
                self.bind(t, s_, env)
        elif isinstance(it, ast.Call) and seg(it.func) == "enumerate" and it.args and isinstance(tgt, ast.Tuple) and len(tgt.elts) == 2:
            self.bind(tgt.elts[0], ast.Constant(value=1), env)
            self.bind(tgt.elts[1], it.args[0], env)
        else:
            self.bind(tgt, it, env)

    def block(self, stmts, env):
        for st in stmts:
            if env is None:
                return None
            env = self.stmt(st, env)
        return env

    def stmt(self, st, env):
        if isinstance(st, ast.Assign):
            for t in st.targets:
                self.bind(t, st.value, env)
            return env
        if isinstance(st, ast.AugAssign):
            if isinstance(st.target, ast.Name):
                self.bind(st.target, ast.BinOp(left=ast.Name(id=st.target.id, ctx=ast.Load()), op=st.op, right=st.value), env)
            return env
        if isinstance(st, ast.Return):
            self.exit_envs.append(dict(env))
        if isinstance(st, ast.Return) and st.value is not None:
            self.cur_env = env
            self.cur_target = seg(st, 60)
            ds = self.degs(st.value, env)
            if isinstance(st.value, ast.Name) and ds <= {None}:
                # an object built here: the degree of the control points it was given
                got = [d for recv, field, d, _ in self.stores if recv == st.value.id and field == "ctrlpoints"]
                if got:
                    ds = frozenset().union(*got)
            self.returns.append((ds, st))
            return None
        if isinstance(st, (ast.Return, ast.Raise)):
            return None
        if isinstance(st, ast.If):
            a = self.block(st.body, dict(env))
            b = self.block(st.orelse, dict(env))
            return self.join(a, b)
        if isinstance(st, (ast.For, ast.While)):
            cur = env
            for _ in range(2):
                e2 = dict(cur)
                if isinstance(st, ast.For):
                    self.bind_loop(st.target, st.iter, e2)
                e2 = self.block(st.body, e2)
                cur = self.join(cur, e2)
            return self.block(st.orelse, cur) if st.orelse else cur
        if isinstance(st, ast.Try):
            a = self.block(st.body, dict(env))
            out = self.join(a, None)
            for h in st.handlers:
                out = self.join(out, self.block(h.body, dict(env)))
            if st.orelse and a is not None:
                out = self.join(out, self.block(st.orelse, a))
            if st.finalbody and out is not None:
                out = self.block(st.finalbody, out)
            return out
        if isinstance(st, ast.With):
            return self.block(st.body, env)
        return env

    def run(self, seeds):
        env = {k: frozenset({v}) for k, v in seeds.items()}
        last = self.block(self.fi.node.body, env)
        out = last
        for e_ in self.exit_envs:
            out = self.join(out, e_)
        self.final_env = out or env
        return self.stores


def weight_homog(r: R, chk, quals, rule="WEIGHT-HOMOG"):
    """an object that is given weights and control points in `q` gets control points of degree 0 in the weights"""
    def attr(e):
        if e.attr == "weights":
            return Fraction(1)
        if e.attr in ("ctrlpoints", "knotvector", "npts", "degree", "knots", "limits"):
            return Fraction(0)
        return "skip"

    total = 0
    for q in quals:
        ctx = r.root(q)
        fi = ctx.fi

        def call_result(call, n, ctx=ctx):
            crs = [c for c in ctx.calls if c.node is call and c.callees]
            names = {f.qual for c in crs for f in c.callees}
            v = ctx.val(call.func)
            names |= {t.split(":", 1)[1] for t in (v.ty if v is not None else ()) if t.startswith("func:")}
            if names and all(nm.startswith("heavy.LeastSquare.") or nm.startswith("heavy.Operations.") for nm in names):
                return [Fraction(0)] * n  # transformation / error matrices: invariant under a scaling of the weights
            return None

        seeds = {}
        for p_ in fi.params:
            if "weight" in p_:
                seeds[p_] = Fraction(1)
            elif p_ in ("matrix",) or "vector" in p_ or p_ == "nodes":
                seeds[p_] = Fraction(0)
        fl = Flow(r, ctx, attr, call_result)
        stores = fl.run(seeds)
        byrecv = {}
        seen_nodes = {}
        for recv, field, ds, node in stores:
            seen_nodes[id(node)] = (recv, field, seen_nodes.get(id(node), (None, None, frozenset()))[2] | ds, node)
        for recv, field, ds, node in seen_nodes.values():
            byrecv.setdefault(recv, {}).setdefault(field, []).append((ds, node))
        for recv, fields in sorted(byrecv.items()):
            if "weights" not in fields or "ctrlpoints" not in fields:
                continue
            if not any(d not in (None, ANY) for ds, _ in fields["weights"] for d in ds):
                continue  # weights only ever set to None / literals here
            for ds, node in fields["ctrlpoints"]:
                decided = [d for d in ds if d is not None]
                if not decided:
                    continue
                total += 1
                bad = sorted(d for d in decided if d != ANY and d != 0)
                chk.ob(rule, f"{q}: `{seg(node, 30)} = …` is of degree 0 in the weights", not bad, loc=r.loc(ctx, node),
                       detail="" if not bad else f"{q}: the control points stored by `{seg(node, 30)} = …` are homogeneous of degree {', '.join(str(b) for b in bad)} in the weights on some path (a matrix applied to the unweighted points and then divided by the new weights) while `{recv}` is given weights in the same function: multiplying all weights by a constant — the same curve — changes the result, so this cannot be the same rational curve; the weighted numerators w_i*P_i have to be transformed and divided by the transformed weights",
                       func=q, construct="control points not invariant under a scaling of the weights")
    chk.note(f"{rule}: {total} control-point store(s) of objects that also receive weights decided in {', '.join(quals)}")
    return total


# ------------------------------------------------------------------------------------------------
# RESULT-HOMOG: the curve a function returns is invariant under a scaling of the weights of its (rational) argument
def result_homog(r: R, chk, quals, rule="RESULT-HOMOG", floor: int = 1, per_operand: bool = False):
    """`curve` is rational: the function u -> C(u) does not change when every weight is multiplied by the same constant, and neither
    does anything derived from it (its derivative).  `curve.fraction()` yields numerator and denominator, both of degree 1 in the
    weights; the derivative helpers of the library are linear (degree of the argument); sums need equal degrees, products add,
    quotients subtract.  Every returned curve has to come out with degree 0."""
    total = 0
    for q, scaled in [(q, s_) for q in quals for s_ in ((0, 1) if per_operand else (None,))]:
        ctx = r.root(q)
        fi = ctx.fi
        holder = {}
        params = list(fi.params)
        if scaled is not None and len(params) < 2:
            continue
        # `scaled`: the operand whose weights are multiplied by a constant in this pass (None: the only curve argument)
        scaled_names = set()
        if scaled is not None:
            scaled_names = {params[scaled]}
            for a in ast.walk(fi.node):
                if isinstance(a, ast.Assign) and len(a.targets) == 1 and isinstance(a.targets[0], ast.Name) and isinstance(a.value, ast.Call) and isinstance(a.value.func, ast.Name) and a.value.func.id in ("copy", "deepcopy") and len(a.value.args) == 1 and isinstance(a.value.args[0], ast.Name) and a.value.args[0].id in scaled_names:
                    scaled_names.add(a.targets[0].id)

        def is_scaled(e, scaled=scaled, scaled_names=scaled_names):
            return scaled is None or (isinstance(e, ast.Name) and e.id in scaled_names)

        def attr(e, h, is_scaled=is_scaled):
            if isinstance(e.value, ast.Name) and e.attr in ("ctrlpoints", "weights") and e.value.id in h.seeds and not isinstance(h.seeds[e.value.id], tuple) and h.seeds[e.value.id] != 0:
                return h.seeds[e.value.id] if e.attr == "ctrlpoints" else "skip"
            if e.attr == "weights":
                return Fraction(1) if is_scaled(e.value) else Fraction(0)
            if e.attr in ("ctrlpoints", "knotvector", "npts", "degree", "knots", "limits"):
                return Fraction(0)
            return "skip"

        attr.wants_h = True

        def call_result(call, n, ctx=ctx, is_scaled=is_scaled):
            fl = holder["fl"]
            f = call.func
            if isinstance(f, ast.Attribute) and f.attr == "fraction" and not call.args:
                d = Fraction(1) if is_scaled(f.value) else Fraction(0)
                return [d] * n if n == 2 else None
            crs = [c for c in ctx.calls if c.node is call and c.callees]
            names = {fn.qual for c in crs for fn in c.callees}
            if names and all(nm.startswith("heavy.Calculus.") for nm in names):
                return [Fraction(0)] * n  # derivative matrices of a knot vector
            if names and all(nm.startswith("calculus.Derivate.") for nm in names) and len(call.args) == 1 and n == 1:
                ds = fl.degs(call.args[0], fl.cur_env)
                return [next(iter(ds))] if len(ds) == 1 and None not in ds else None
            return None

        fl = Flow(r, ctx, attr, call_result, homog_cls=_HomogMix)
        holder["fl"] = fl
        seeds = {p_: Fraction(0) for p_ in fi.params if p_ not in ("self", "cls")}
        _HomogMix.MISMATCH, _HomogMix.FLOW = [], fl
        try:
            fl.run(seeds)
        finally:
            mism = list(_HomogMix.MISMATCH)
            _HomogMix.MISMATCH, _HomogMix.FLOW = [], None
        who = "the argument" if scaled is None else f"`{params[scaled]}`"
        seen_m = set()
        for tgt, a, b in mism:
            if (tgt, a, b) in seen_m or (tgt, b, a) in seen_m:
                continue
            seen_m.add((tgt, a, b))
            total += 1
            chk.ob(rule, f"{q}: the terms of a sum have the same degree in the weights of {who}", False, loc=r.loc(ctx, fi.node),
                   detail=f"{q}: in `{tgt}` a term of degree {a} and a term of degree {b} in the weights of {who} are added: multiplying all those weights by a constant — the same rational curve — changes the two terms differently, so the sum is not the pointwise value (a denominator factor is missing in one of the cross products)",
                   func=q, construct=f"sum of terms of different degree in the weights of {who}")
        for ds, node in fl.returns:
            decided = [d for d in ds if d is not None]
            if not decided:
                chk.note(f"{rule}: {q}: the degree of `{seg(node, 40)}` could not be computed: not decided")
                continue
            total += 1
            bad = sorted(d for d in decided if d != ANY and d != 0)
            chk.ob(rule, f"{q}: `{seg(node, 40)}` is of degree 0 in the weights of {who}", not bad, loc=r.loc(ctx, node),
                   detail="" if not bad else f"{q}: the curve returned by `{seg(node, 40)}` is homogeneous of degree {', '.join(str(b) for b in bad)} in the weights of {who}: multiplying all those weights by a constant — the same rational curve — changes the result, so it is not the pointwise value (a numerator / denominator factor of the fraction arithmetic is missing or doubled: W, W^2 or the other operand's denominator)",
                   func=q, construct=f"returned curve not invariant under a scaling of the weights of {who}")
    chk.floor(rule, f"returned curves decided in {', '.join(quals)}", total, floor)
    return total


# ------------------------------------------------------------------------------------------------
# JOIN-HOMOG: the weights of a joined curve scale the same way on both sides of the junction
class _HomogMix(Homog):
    """records every sum / concatenation whose two sides have different decided degrees"""

    MISMATCH = []
    FLOW = None

    def _add(self, a, b):  # noqa: D102 - same contract as Homog._add
        out = Homog._add(a, b)
        if out is None and a is not None and b is not None and a != ANY and b != ANY and a != b:
            _HomogMix.MISMATCH.append((_HomogMix.FLOW.cur_target if _HomogMix.FLOW is not None else None, a, b))
        return out


    def follow(self, callee, call):
        # an argument without a dimension of its own (literal weights of a polynomial operand): nothing to decide on this path
        if any(self.deg(a) == ANY for a in call.args):
            return None
        return super().follow(callee, call)


def join_homog(r: R, chk, qual: str, rule="JOIN-HOMOG"):
    """A | B: multiplying every weight of A by a constant does not change A, so it may not change what the joined curve needs at the
    junction.  The stored weights are a concatenation of A's part and B's part; if the two parts scale differently (degree d_A != d_B in
    A's weights) the weight function cannot be continuous at the junction for every input, the junction knot cannot be reduced, and
    the joined curve keeps more multiplicity there than the curve needs.  Two passes: degree in the weights of the left operand, degree
    in the weights of the right operand; in each the list that reaches `.weights = ...` has to have one degree."""
    ctx = r.root(qual)
    fi = ctx.fi
    params = [p for p in fi.params]
    if len(params) < 2:
        raise ValueError(f"{qual} is not a binary operator")
    roots = {params[0]: params[0], params[1]: params[1]}
    for a in ast.walk(fi.node):
        if isinstance(a, ast.Assign) and len(a.targets) == 1 and isinstance(a.targets[0], ast.Name):
            v = a.value
            if isinstance(v, ast.Call) and isinstance(v.func, ast.Name) and v.func.id in ("copy", "deepcopy") and len(v.args) == 1 and isinstance(v.args[0], ast.Name) and v.args[0].id in roots:
                roots[a.targets[0].id] = roots[v.args[0].id]
    weight_stores = [a for a in ast.walk(fi.node) if isinstance(a, ast.Assign) and any(isinstance(t, ast.Attribute) and t.attr == "weights" for t in a.targets) and not (isinstance(a.value, ast.Constant) and a.value.value is None)]
    chk.floor(rule, f"stores of the joined weights in {qual}", len(weight_stores), 1)
    from .extra import _reaching_params  # noqa: F401  (closure over local definitions)

    defs = {}
    for a in ast.walk(fi.node):
        if isinstance(a, ast.Assign):
            for t in a.targets:
                for nm in ast.walk(t):
                    if isinstance(nm, ast.Name):
                        defs.setdefault(nm.id, []).append(a.value)
        elif isinstance(a, ast.AugAssign) and isinstance(a.target, ast.Name):
            defs.setdefault(a.target.id, []).append(a.value)
    feeding = set()
    work = [a.value for a in weight_stores]
    while work:
        x = work.pop()
        for nm in ast.walk(x):
            if isinstance(nm, ast.Name) and nm.id not in feeding:
                feeding.add(nm.id)
                work.extend(defs.get(nm.id, []))
    for side, (da, db) in (("left", (Fraction(1), Fraction(0))), ("right", (Fraction(0), Fraction(1)))):
        def attr(e, h, da=da, db=db):
            if e.attr == "weights" and isinstance(e.value, ast.Name) and e.value.id in roots:
                return da if roots[e.value.id] == params[0] else db
            if e.attr in ("ctrlpoints", "knotvector", "npts", "degree", "knots", "limits"):
                return Fraction(0)
            return "skip"

        attr.wants_h = True
        fl = Flow(r, ctx, attr, lambda call, n: None, homog_cls=_HomogMix)
        _HomogMix.MISMATCH, _HomogMix.FLOW = [], fl
        try:
            fl.run({})
        finally:
            found = [m for m in _HomogMix.MISMATCH if m[0] is not None and (m[0] in feeding or m[0].endswith(".weights"))]
            _HomogMix.MISMATCH, _HomogMix.FLOW = [], None
        ok = not found
        st = weight_stores[0]
        chk.ob(rule, f"{qual}: both sides of the junction scale alike in the weights of the {side} operand", ok, loc=r.loc(ctx, st),
               detail="" if ok else f"{qual}: in `{found[0][0]}` a part of degree {found[0][1]} and a part of degree {found[0][2]} in the weights of the {side} operand are put together and stored by `{seg(st, 50)}`: multiplying all weights of the {side} operand by a constant (the same curve) moves the two sides of the junction apart, so the weight function is continuous there only by accident and the junction knot keeps more multiplicity than the curve needs (each side has to be scaled BY the other side's junction weight, not by its inverse)",
               func=qual, construct="junction weights scale differently on the two sides")


# ------------------------------------------------------------------------------------------------
# BASIS-HOMOG: the least-squares algebra is dimensionally consistent in each of the two bases
def basis_homog(r: R, chk, qual: str, rule="BASIS-HOMOG"):
    """Multiplying every basis function of the target space by a constant c changes nothing about the fitted curve: the Gram
    matrix GG scales with c^2, the mixed matrix GF and the collocation matrix G with c, the transformation T with 1/c, the error E
    not at all; the same for the source basis (FF with c^2, GF, F with c, T with c, E with c^2).  Every sum / difference in the
    function therefore has to add terms of equal degree in each of the two scalings, `Linalg.invert` negates the degree, products
    add.  `G GG G^T` in the place of `G GG^-1 G^T` has degree 4 instead of 0 and makes the next difference inconsistent."""
    ctx = r.root(qual)
    fi = ctx.fi
    ndec = 0
    for side in ("new", "old"):
        holder = {}

        def attr(e, h):
            if e.attr == "T":
                return h.deg(e.value)
            return "skip"

        attr.wants_h = True

        def call_result(call, n, side=side):
            fl = holder["fl"]
            fn = seg(call.func)
            if fn.endswith("eval_rational_nodes") or fn.endswith("eval_spline_nodes"):
                first = call.args[0] if call.args else None
                which = "new" if isinstance(first, ast.Name) and first.id.startswith("new") else ("old" if isinstance(first, ast.Name) and first.id.startswith("old") else None)
                if which is None:
                    return None
                return [Fraction(1) if which == side else Fraction(0)] * n
            if fn.endswith("Linalg.invert") and call.args and n == 1:
                ds = fl.degs(call.args[0], fl.cur_env)
                if None in ds:
                    return None
                real = {d for d in ds if d != ANY}
                if len(real) == 1:
                    return [-next(iter(real))]
                return [ANY] if not real else None
            if fn.startswith("NodeSample.") or fn.startswith("IntegratorArray.") or fn == "number_type":
                return [Fraction(0)] * n
            return None

        fl = Flow(r, ctx, attr, call_result, homog_cls=_HomogMix)
        holder["fl"] = fl
        seeds = {p_: Fraction(0) for p_ in fi.params if p_ not in ("self", "cls")}
        _HomogMix.MISMATCH, _HomogMix.FLOW = [], fl
        try:
            fl.run(seeds)
        finally:
            mism = [m_ for m_ in _HomogMix.MISMATCH if not str(m_[0]).startswith("return")]
            _HomogMix.MISMATCH, _HomogMix.FLOW = [], None
        # how many matrix names got a decided, non-trivial degree (the analysis did see the algebra)
        decided = sum(1 for ds, _ in fl.returns for d in ds if d is not None)
        ndec += 1
        seen = set()
        for tgt, a, b in mism:
            if (tgt, a, b) in seen or (tgt, b, a) in seen:
                continue
            seen.add((tgt, a, b))
            chk.ob(rule, f"{qual}: the terms of `{tgt}` have the same degree in the {side} basis", False, loc=r.loc(ctx, fi.node),
                   detail=f"{qual}: in `{tgt}` a term of degree {a} and a term of degree {b} in a rescaling of the {side} basis functions are added: rescaling the basis — the same spline space — would change the result, so the expression is not the constrained least-squares formula (a Gram matrix stands where its inverse belongs, or a factor is missing)",
                   func=qual, construct=f"sum of terms of different degree in the {side} basis")
        if not seen:
            chk.ob(rule, f"{qual}: every sum is consistent under a rescaling of the {side} basis", True, loc=r.loc(ctx, fi.node))
    return ndec


# ------------------------------------------------------------------------------------------------
# RESIDUAL-DEGREE: the quantity compared with the stated distance tolerance is a distance, not its square
def residual_degree(r: R, chk, qual: str, stated: float, rule="RESIDUAL-DEGREE"):
    """points come out of `X.eval(...)` with degree 1; norm keeps the degree, inner products add, sqrt halves.  A comparison with
    a small literal c bounds the distance by c ** (1 / degree): for the stated tolerance the degree has to be 1."""
    ctx = r.root(qual)
    fi = ctx.fi

    def call_result(call, n):
        if isinstance(call.func, ast.Attribute) and call.func.attr in ("eval", "__call__") and n == 1:
            return [Fraction(1)]
        return None

    fl = Flow(r, ctx, None, call_result)
    fl.run({})
    env = fl.final_env
    # the loop body is what fills the containers: walk the whole function once more with the final environment for the comparisons
    h0 = Homog(r, ctx, {})
    n = 0
    for c in ast.walk(fi.node):
        if not (isinstance(c, ast.Compare) and len(c.ops) == 1 and isinstance(c.ops[0], (ast.Lt, ast.LtE, ast.Gt, ast.GtE))):
            continue
        for q_, lit in ((c.left, c.comparators[0]), (c.comparators[0], c.left)):
            cv = h0.const(lit)
            if cv is None or not (0 < cv < 1e-3) or h0.const(q_) is not None:
                continue
            ds = {d for d in fl.degs(q_, env) if d not in (None, ANY)}
            if len(ds) != 1:
                chk.note(f"{rule}: {qual}: the degree of `{seg(q_, 40)}` could not be computed: not decided")
                continue
            d = next(iter(ds))
            if d == 0:
                continue
            n += 1
            eff = cv ** (1 / float(d))
            ok = abs(math.log10(eff) - math.log10(stated)) < 0.05
            chk.ob(rule, f"{qual}: `{seg(c, 50)}` bounds the distance |A(t) - B(u)| by {stated:g}", ok, loc=r.loc(ctx, c),
                   detail="" if ok else f"{qual}: `{seg(q_, 40)}` is of degree {d} in the point difference (a squared distance) but is compared with {cv:g}: pairs whose points are up to {eff:.2g} apart are accepted as intersections instead of {stated:g} — two curves that pass within a thousandth of each other without meeting are reported to meet",
                   func=qual, construct=f"degree-{d} residual compared with {cv:g}")
    chk.floor(rule, f"comparisons of the residual with a literal tolerance in {qual}", n, 1)
    return n


# ------------------------------------------------------------------------------------------------
# WEIGHT-SCALE: on the evaluation path nothing that scales with the weights is compared with a fixed number
def weight_scale(r: R, chk, quals, rule="WEIGHT-SCALE", floor: int = 1):
    """R_i = w_i N_i / sum_k w_k N_k does not change when every weight is multiplied by the same positive constant, so a test of a
    quantity of non-zero degree in the weights (the denominator sum_k w_k N_k, a single weight) against a fixed non-zero number — an
    absolute tolerance — makes the answer depend on the scale of the weights: weights of order 1e-15 are as good as weights of order 1."""
    def attr(e):
        if e.attr in ("weights", "_FunctionEvaluator__weights", "_BaseCurve__weights", "_BaseFunction__weights"):
            return Fraction(1)
        if e.attr in ("ctrlpoints", "knotvector", "npts", "degree", "knots", "limits"):
            return Fraction(0)
        return "skip"

    n = 0
    for q in quals:
        ctx = r.root(q)
        fi = ctx.fi

        def call_result(call, k, ctx=ctx):
            fn = seg(call.func)
            if fn.endswith("eval_spline_nodes") or fn.endswith("speval_matrix") or fn.endswith("horner_method") or fn.endswith(".span"):
                return [Fraction(0)] * k
            return None

        seeds = {}
        for p_ in fi.params:
            if "weight" in p_:
                seeds[p_] = Fraction(1)
            elif p_ in ("self", "cls"):
                continue
            else:
                seeds[p_] = Fraction(0)
        fl = Flow(r, ctx, attr, call_result)
        fl.run(seeds)
        env = fl.final_env
        h0 = Homog(r, ctx, {})
        n += 1
        bad = []
        for c in ast.walk(fi.node):
            if not (isinstance(c, ast.Compare) and len(c.ops) == 1 and isinstance(c.ops[0], (ast.Lt, ast.LtE, ast.Gt, ast.GtE, ast.Eq, ast.NotEq))):
                continue
            for q_, lit in ((c.left, c.comparators[0]), (c.comparators[0], c.left)):
                cv = h0.const(lit)
                if cv is None or cv == 0 or h0.const(q_) is not None:
                    continue
                ds = fl.degs(q_, env)
                if None in ds:
                    # a local that is only assigned inside a loop is "undefined" on the zero-iteration path of the final
                    # environment: take the degrees of its definitions instead
                    core = q_
                    while isinstance(core, ast.Call) and seg(core.func) in ("abs", "np.abs", "float") and core.args:
                        core = core.args[0]
                    if isinstance(core, ast.Name):
                        defs = [a.value for a in ast.walk(fi.node) if isinstance(a, ast.Assign) and len(a.targets) == 1 and isinstance(a.targets[0], ast.Name) and a.targets[0].id == core.id]
                        if defs and not any(isinstance(a, ast.AugAssign) and isinstance(a.target, ast.Name) and a.target.id == core.id for a in ast.walk(fi.node)):
                            ds = frozenset().union(*[fl.degs(v, env) for v in defs])
                real = {d for d in ds if d not in (None, ANY)}
                if real and 0 not in real and None not in ds:
                    bad.append((c, q_, cv, sorted(real)))
        ok = not bad
        chk.ob(rule, f"{q}: no quantity that scales with the weights is compared with a fixed number", ok, loc=r.loc(ctx, bad[0][0] if bad else fi.node),
               detail="" if ok else f"{q}: `{seg(bad[0][0], 50)}` compares `{seg(bad[0][1], 30)}`, homogeneous of degree {bad[0][3][0]} in the weights, with the fixed number {bad[0][2]:g}: multiplying every weight by the same positive constant leaves the rational basis unchanged but moves this test — a curve whose weights are all small (1e-15) and whose weight function has no zero is refused / treated differently",
               func=q, construct=f"weight-scaled quantity compared with {bad[0][2]:g}" if bad else "")
    chk.floor(rule, "functions of the rational evaluation path examined", n, floor)
    return n
