"""C20 — intersection returns exactly the parameter pairs where the curves meet."""
from __future__ import annotations

import ast
from typing import Dict, Set

from .. import AnalysisError
from .common import expand_locals, R, seg
from .c19 import term

NEED = ("generic",)
I = "advanced.Intersection."
PMD = I + "pairs_min_distance"
NEWTON = I + "__newton_bcurve_and_bcurve"


def name_deps(fi) -> Dict[str, Set[str]]:
    """name -> names its definitions mention (flow-insensitive, closed transitively)"""
    g: Dict[str, Set[str]] = {}
    for n in ast.walk(fi.node):
        tg, val = [], None
        if isinstance(n, ast.Assign):
            tg, val = n.targets, n.value
        elif isinstance(n, ast.AugAssign):
            tg, val = [n.target], n.value
        elif isinstance(n, ast.For):
            tg, val = [n.target], n.iter
        for t in tg:
            for x in ast.walk(t):
                if isinstance(x, ast.Name):
                    g.setdefault(x.id, set()).update(y.id for y in ast.walk(val) if isinstance(y, ast.Name))
                    if isinstance(t, ast.Subscript):
                        g[x.id].update(y.id for y in ast.walk(t.slice) if isinstance(y, ast.Name))
    changed = True
    while changed:
        changed = False
        for k in list(g):
            new = set(g[k])
            for d in list(g[k]):
                new |= g.get(d, set())
            if new != g[k]:
                g[k] = new
                changed = True
    return g


def needs_nonempty(r: R, qual: str):
    """parameters over whose (derived) array the function takes an unguarded min / max"""
    fi = r.prog.func(qual)
    g = name_deps(fi)
    out = set()
    for n in ast.walk(fi.node):
        if isinstance(n, ast.Call) and ((isinstance(n.func, ast.Attribute) and n.func.attr in ("min", "max", "amin", "amax", "argmin", "argmax")) or (isinstance(n.func, ast.Name) and n.func.id in ("min", "max"))) and n.args:
            names = {y.id for y in ast.walk(n.args[0]) if isinstance(y, ast.Name)}
            clo = set(names)
            for x in names:
                clo |= g.get(x, set())
            for p in fi.params:
                if p in clo:
                    out.add(p)
    lens = {y.id for n in ast.walk(fi.node) if isinstance(n, ast.Call) and isinstance(n.func, ast.Name) and n.func.id == "len" and n.args for y in ast.walk(n.args[0]) if isinstance(y, ast.Name)}
    out &= lens
    # guarded inside the function itself?
    for n in ast.walk(fi.node):
        if isinstance(n, ast.If) and "len(" in seg(n.test) and any(isinstance(s, ast.Return) for s in n.body):
            for p in list(out):
                if p in seg(n.test):
                    out.discard(p)
    return out


def _same_emptiness(fi, name: str, at=None):
    """the names a sequence is derived from by steps that keep it non-empty: a copy into another container type, the duplicate
    filter (it keeps the first of every group) — through local names with one definition"""
    keep = {"tuple", "list", "sorted", "set", "frozenset", "Intersection.filter_pairs", "heavy.totuple", "totuple"}
    from .extra import reaching_assign

    out, work = {name}, [(name, at)]
    seen = set()
    while work:
        nm, where = work.pop()
        ds = [a for a in ast.walk(fi.node) if isinstance(a, ast.Assign) and len(a.targets) == 1 and isinstance(a.targets[0], ast.Name) and a.targets[0].id == nm]
        if len(ds) != 1:
            # a name that is rebound step by step (`c = filter(c0); c = min_distance(c)`): the definition that reaches `where`
            d = reaching_assign(fi.node, where, nm) if where is not None else None
            if d is None or len(d.targets) != 1 or not isinstance(d.targets[0], ast.Name):
                continue
            ds = [d]
        where = ds[0]
        v = ds[0].value
        while isinstance(v, ast.Call) and seg(v.func) in keep and v.args:
            v = v.args[0]
        if isinstance(v, ast.Name) and v.id not in out:
            out.add(v.id)
            work.append((v.id, where))
        elif isinstance(v, ast.Name) and v.id == nm and (nm, id(where)) not in seen:
            # `p = tuple(p); p = filter(p)`: the same name, one definition further back
            seen.add((nm, id(where)))
            work.append((nm, where))
    return out


def nonempty_guard(ctx, name: str, node_id: int) -> bool:
    for t in ctx.cfg.nodes:
        if t.kind != "test":
            continue
        s = seg(t.ast).replace(" ", "")
        for pat, lab in ((f"len({name})==0", "f"), (f"len({name})!=0", "t"), (f"len({name})>0", "t"), (f"not{name}", "f"), (f"{name}", "t"), (f"len({name})<1", "f"), (f"0==len({name})", "f")):
            if s == pat and ctx.cfg.edge_dominates(t.id, lab, node_id):
                return True
    return False


def all_components(r: R, chk, q: str, rule="ALL-COMPONENTS"):
    """two parameter pairs are the same crossing only when BOTH parameters agree: the quantity a duplicate test compares with the
    tolerance may not be a minimum over the components of the difference (`min`, `.min()`, `any(... < tol)`) nor one component alone"""
    ctx = r.root(q)
    fi = ctx.fi
    from .extra import _reaching_params

    n = 0
    for c in ast.walk(fi.node):
        if not (isinstance(c, ast.Compare) and len(c.ops) == 1 and isinstance(c.ops[0], (ast.Lt, ast.LtE, ast.Gt, ast.GtE))):
            continue
        sides = [expand_locals(fi, c.left), expand_locals(fi, c.comparators[0])]
        dist = [s_ for s_ in sides if any(isinstance(x, ast.BinOp) and isinstance(x.op, ast.Sub) for x in ast.walk(s_))]
        if len(dist) != 1 or "pairs" not in _reaching_params(fi, dist[0]):
            continue
        n += 1
        d = dist[0]
        bad = None
        for x in ast.walk(d):
            if isinstance(x, ast.Call):
                nm = x.func.attr if isinstance(x.func, ast.Attribute) else x.func.id if isinstance(x.func, ast.Name) else ""
                if nm in ("min", "amin", "nanmin", "minimum"):
                    bad = f"`{seg(x, 40)}` takes the smallest component of the difference"
            if isinstance(x, ast.Subscript) and isinstance(x.slice, ast.Constant) and any(isinstance(y, ast.BinOp) and isinstance(y.op, ast.Sub) for y in ast.walk(x.value)):
                bad = f"`{seg(x, 40)}` looks at one component of the difference only"
        # any(abs(a - b) < tol for ...) is the same mistake
        par = next((a for a in ast.walk(fi.node) if isinstance(a, ast.Call) and isinstance(a.func, ast.Name) and a.func.id == "any" and any(y is c for y in ast.walk(a))), None)
        if par is not None:
            bad = f"`{seg(par, 50)}` accepts agreement in any one component"
        chk.ob(rule, f"{q}: `{seg(c, 50)}` measures the difference in every component", bad is None, loc=r.loc(ctx, c),
               detail="" if bad is None else f"{q}: in the duplicate test `{seg(c, 60)}` {bad}: two different crossings that share one parameter (the same t with different u, or the reverse) are merged into one, so not every crossing is returned",
               func=q, construct="duplicate test on one component")
    chk.floor(rule, f"duplicate tests in {q}", n, 1)


def run(m, chk):
    r = R(m, chk)
    chk.explanation = (
        "Static discharge of structural clauses of C20: every call site of a helper that reduces with min() over an array sized by its argument is dominated by a non-emptiness guard "
        "(callee precondition, sibling agreement); a pair reaches the result only through a comparison of the distance |A(t)-B(u)| itself with a tolerance (absolute residual filter, not a filter "
        "relative to the minimum); both components of the Newton iterate are clamped on both sides after every update; loops are counter-bounded; the duplicate filter is passed; curves are not modified. "
        "Completeness (every crossing is found) and accuracy are not decided."
    )
    chk.decides = ["TOL-AGREE (the selection of the best pairs uses one tolerance on every level: the union of the pieces is not selected more tolerantly than the pieces)", "RESIDUAL-FINAL (every non-empty answer of curve_and_curve passed the distance filter measured on the two curves themselves)", "STEP-APPLIED (the Newton iterate is returned only after the step computed for it has been applied)", "END-EXACT (the closed sample 0 .. 1 is mapped onto each parameter interval with an expression that is exact at both ends)", "RESIDUAL-DEGREE (the residual compared with 1e-6 is a distance, not a squared distance)", "ALL-COMPONENTS (the duplicate filter compares both parameters of a pair)", "PRECOND(non-empty)", "ABS-RESIDUAL", "CLAMP", "TERM", "must-pass-through(filter_pairs)", "PURE", "DEP-MAY (both curves, weights included)"]
    chk.not_decided = ["every crossing is found", "accuracy of the parameters"]
    # 0. the result depends on every field of both curves (weights included: a rational curve is not its control polygon)
    CC = "advanced.Intersection.curve_and_curve"
    cctx = r.root(CC)
    for nid, v in sorted(cctx.ret_sites.items()):
        a = cctx.cfg.nodes[nid].ast
        if a.value is None or (isinstance(a.value, ast.Call) and seg(a.value.func) == "tuple" and not a.value.args):
            continue  # the empty answer
        have = r.deep_dep(cctx, v, heap=cctx.ret_states[nid].heap)
        needs = [f"{p}.{f}" for p in cctx.fi.params[:2] for f in ("ctrlpoints", "knotvector", "weights")]
        miss = [w for w in r.srcs(cctx.fi, needs) if not R.dep_has(have, w)]
        chk.ob("DEP-MAY", f"{CC}: `{seg(a, 40)}` depends on points, knot vector and weights of both curves", not miss, loc=r.loc(cctx, a), detail="" if not miss else f"{CC}: the pairs returned at {r.loc(cctx, a)} do not depend on {r.fmt_deps(cctx.fi, miss)}", func=CC, construct=f"result ignores {r.fmt_deps(cctx.fi, miss)}")
    # 0b. the sample parameters the Newton iteration starts from lie inside the interval, both ends included
    from .extra import tol_agree

    tol_agree(r, chk)
    from .extra import end_exact

    nee = end_exact(r, chk, ["advanced.Intersection.bcurve_and_bcurve"])
    chk.floor("END-EXACT", "maps of closed reference samples onto the parameter interval in bcurve_and_bcurve", nee, 2)
    from .extra import step_applied

    nq = next((q_ for q_ in r.A.roots if q_.endswith("newton_bcurve_and_bcurve")), None)
    if nq is None:
        raise AnalysisError("anchor vanished: the Newton iteration of bcurve_and_bcurve")
    step_applied(r, chk, nq)
    # 1. callee precondition
    need = needs_nonempty(r, PMD)
    chk.floor("PRECOND", "parameters of pairs_min_distance reduced with min()", len(need), 1)
    sites = 0
    for q, ctx in sorted(r.A.roots.items()):
        for cr in ctx.calls:
            for fi, bound in zip(cr.callees, cr.args):
                if fi.qual != PMD or cr.kind != "call":
                    continue
                call = cr.node
                for p in need:
                    idx = fi.params.index(p)
                    arg = call.args[idx] if idx < len(call.args) else None
                    if arg is None:
                        continue
                    sites += 1
                    ok = isinstance(arg, ast.Name) and any(nonempty_guard(ctx, nm, cr.cfgnode) for nm in _same_emptiness(ctx.fi, arg.id, at=ctx.cfg.nodes[cr.cfgnode].ast))
                    chk.ob("PRECOND", f"{q}: `{seg(call, 50)}` dominated by a non-emptiness guard of `{seg(arg, 20)}`", ok, loc=r.loc(ctx, call),
                           detail="" if ok else f"{q}: `{seg(call, 60)}` can be reached with an empty `{seg(arg, 20)}` ({PMD} takes np.min over it ⇒ ValueError): two curves that do not meet must give the empty tuple (the sibling call site has the guard `if len(pairs) == 0: return tuple()`)",
                           func=q, construct="pairs_min_distance without non-emptiness guard")
    chk.floor("PRECOND", "call sites of pairs_min_distance", sites, 1)
    # 1b. what curve_and_curve hands back has been measured against the ORIGINAL operands: the pieces are cleaned copies
    # (clean() may replace a nearly polynomial rational piece by an approximation), so their own filter is not enough
    CCq = "advanced.Intersection.curve_and_curve"
    cc = r.root(CCq)
    pmd_calls = [c_ for c_ in cc.calls if any(f_.qual == PMD for f_ in c_.callees)]
    rets_cc = [n_ for n_ in r.stmt_nodes(cc) if isinstance(n_.ast, ast.Return) and n_.ast.value is not None and not (isinstance(n_.ast.value, ast.Call) and seg(n_.ast.value.func) == "tuple" and not n_.ast.value.args) and not (isinstance(n_.ast.value, ast.Tuple) and not n_.ast.value.elts)]
    chk.floor("RESIDUAL-FINAL", "non-empty returns of curve_and_curve", len(rets_cc), 1)
    for n_ in rets_cc:
        on_originals = [c_ for c_ in pmd_calls if cc.cfg.dominates(c_.cfgnode, n_.id) and isinstance(c_.node, ast.Call) and len(c_.node.args) >= 3 and all(isinstance(a_, ast.Name) and a_.id in cc.fi.params[:2] for a_ in c_.node.args[1:3])]
        okf = bool(on_originals)
        chk.ob("RESIDUAL-FINAL", f"{CCq}: `{seg(n_.ast, 40)}` only after the distance filter on the two curves themselves", okf, loc=r.loc(cc, n_.ast),
               detail="" if okf else f"{CCq}: `{seg(n_.ast, 50)}` is reached without `pairs_min_distance(pairs, {cc.fi.params[0]}, {cc.fi.params[1]})`: the pairs were only measured on the cleaned Bezier pieces — clean() replaces a rational piece with nearly equal weights by a polynomial approximation (squared L2 error below 1e-9, pointwise about 1e-5) — so pairs with |A(t) - B(u)| well above 1e-6 on the curves themselves are returned",
               func=CCq, construct="final distance filter on the original curves skipped")
    # 2. absolute residual filter
    fi = r.prog.func(PMD)
    g = name_deps(fi)
    dist_names = {k for k, v in g.items() if any(isinstance(n, ast.Call) and any(w in seg(n.func) for w in ("norm", "inner", "dot", "sqrt", "hypot")) for a in ast.walk(fi.node) if isinstance(a, (ast.Assign, ast.AugAssign)) and k in {x.id for t in (a.targets if isinstance(a, ast.Assign) else [a.target]) for x in ast.walk(t) if isinstance(x, ast.Name)} for n in ast.walk(a.value))}
    for k in list(dist_names):
        dist_names |= {x for x, v in g.items() if k in v and not any(isinstance(n, ast.Compare) for a in ast.walk(fi.node) if isinstance(a, ast.Assign) and any(isinstance(t, ast.Name) and t.id == x for t in a.targets) for n in ast.walk(a.value))}
    absolute = []
    relative = []
    for c in ast.walk(fi.node):
        if isinstance(c, ast.Compare) and len(c.ops) == 1 and isinstance(c.ops[0], (ast.Lt, ast.LtE, ast.Gt, ast.GtE)):
            for side in (c.left, c.comparators[0]):
                e = side
                while isinstance(e, ast.Call) and seg(e.func) in ("abs", "np.abs", "np.absolute") and e.args:
                    e = e.args[0]
                names = {y.id for y in ast.walk(e) if isinstance(y, ast.Name)}
                if not (names & dist_names):
                    continue
                has_min = any(isinstance(n, ast.Call) and (seg(n.func).endswith("min") or seg(n.func).endswith("max")) for n in ast.walk(e))
                (relative if (isinstance(e, ast.BinOp) and isinstance(e.op, ast.Sub) and has_min) else absolute).append(c)
    rets = [n for n in ast.walk(fi.node) if isinstance(n, ast.Return) and n.value is not None]
    flows = False
    for c in absolute:
        for a in ast.walk(fi.node):
            if isinstance(a, (ast.Assign, ast.AugAssign)) and any(n is c for n in ast.walk(a.value)):
                for t in (a.targets if isinstance(a, ast.Assign) else [a.target]):
                    if isinstance(t, ast.Name):
                        mask = t.id
                        for R_ in rets:
                            names = {y.id for y in ast.walk(R_.value) if isinstance(y, ast.Name)}
                            if mask in names or any(mask in g.get(x, set()) for x in names):
                                flows = True
    chk.floor("ABS-RESIDUAL", "distance comparisons in pairs_min_distance", len(absolute) + len(relative), 1)
    chk.ob("ABS-RESIDUAL", f"{PMD}: the kept pairs pass a comparison of the distance itself with a tolerance", flows, loc=f"advanced.py:{(relative or absolute or [fi.node])[0].lineno}",
           detail="" if flows else f"{PMD}: the only filter is relative to the minimum (`{seg(relative[0], 70) if relative else '?'}`): for curves that never meet the closest approach is returned as an intersection", func=PMD, construct="no absolute residual filter")
    # 3. clamps in the Newton helper
    ctx = r.root(NEWTON)
    upd = [n for n in r.stmt_nodes(ctx) if isinstance(n.ast, ast.AugAssign) and isinstance(n.ast.target, ast.Name) and n.ast.target.id == "pair"]
    chk.floor("CLAMP", "updates of the Newton iterate", len(upd), 1)
    rets = [n for n in r.stmt_nodes(ctx) if isinstance(n.ast, ast.Return) and n.ast.value is not None and "pair" in seg(n.ast.value)]
    tests = {}
    for t in ctx.cfg.nodes:
        if t.kind == "test" and isinstance(t.ast, ast.Compare) and len(t.ast.ops) == 1:
            l, rr = t.ast.left, t.ast.comparators[0]
            for a, b, lt in ((l, rr, isinstance(t.ast.ops[0], (ast.Lt, ast.LtE))), (rr, l, isinstance(t.ast.ops[0], (ast.Gt, ast.GtE)))):
                if isinstance(a, ast.Subscript) and isinstance(a.value, ast.Name) and a.value.id == "pair" and isinstance(a.slice, ast.Constant) and isinstance(b, ast.Name):
                    arm = [x for x, lab in t.succ if lab == "t"]
                    assigns = arm and isinstance(ctx.cfg.nodes[arm[0]].ast, ast.Assign) and seg(ctx.cfg.nodes[arm[0]].ast).replace(" ", "") == f"pair[{a.slice.value}]={b.id}"
                    if assigns:
                        tests.setdefault((a.slice.value, "lo" if lt else "hi"), []).append((t, arm[0]))
    for R_ in rets:
        for u in upd:
            if R_.id not in ctx.cfg.reachable(u.id, exc=False):
                continue
            for k in (0, 1):
                for side in ("lo", "hi"):
                    ts = tests.get((k, side), [])
                    # a path may skip the test of one side only by having clamped at the other side (if / elif)
                    opp = {a for _, a in tests.get((k, "hi" if side == "lo" else "lo"), [])}
                    ok = bool(ts) and R_.id not in ctx.cfg.reachable_from_succ(u.id, exc=False, avoid={t.id for t, _ in ts} | opp)
                    chk.ob("CLAMP", f"{NEWTON}: pair[{k}] clamped at its {'lower' if side == 'lo' else 'upper'} limit between the update and `{seg(R_.ast, 30)}`", ok, loc=r.loc(ctx, R_.ast),
                           detail="" if ok else f"{NEWTON}: after `{seg(u.ast, 30)}` a path reaches `{seg(R_.ast, 30)}` without clamping pair[{k}] at its {'lower' if side == 'lo' else 'upper'} limit: a parameter outside the interval is returned", func=NEWTON, construct=f"pair[{k}] {side} clamp missing")
    # 4. termination, duplicate filter, purity
    term(r, chk, I + "curve_and_curve")
    for q in (I + "curve_and_curve", I + "bcurve_and_bcurve"):
        ctx = r.root(q)
        fnodes = {c.cfgnode for c in ctx.calls if any(f.qual == I + "filter_pairs" for f in c.callees)}
        for R_ in [n for n in r.stmt_nodes(ctx) if isinstance(n.ast, ast.Return)]:
            v = R_.ast.value
            if isinstance(v, ast.Call) and seg(v) in ("tuple()", "()") or isinstance(v, ast.Tuple) and not v.elts:
                continue
            ok = any(ctx.cfg.dominates(f, R_.id) for f in fnodes)
            if not ok:
                # every definition that can flow into the returned expression (through plain local copies) is the empty
                # answer or is computed after the filter
                def empty(e):
                    return (isinstance(e, ast.Call) and seg(e) in ("tuple()", "()")) or (isinstance(e, ast.Tuple) and not e.elts)

                def flows_ok(name, before, depth=0):
                    dfs = [n for n in r.stmt_nodes(ctx) if isinstance(n.ast, ast.Assign) and any(isinstance(t, ast.Name) and t.id == name for t in n.ast.targets) and before in ctx.cfg.reachable_from_succ(n.id, exc=False)]
                    if not dfs or depth > 4:
                        return False
                    # only the definitions not overwritten on the way: keep those from which `before` is reachable avoiding the others
                    live = [n for n in dfs if before in ctx.cfg.reachable_from_succ(n.id, exc=False, avoid={m_.id for m_ in dfs if m_ is not n})]
                    for n in live or dfs:
                        val = n.ast.value
                        if empty(val) or any(ctx.cfg.dominates(f, n.id) for f in fnodes):
                            continue
                        if isinstance(val, ast.Name) and flows_ok(val.id, n.id, depth + 1):
                            continue
                        return False
                    return True

                names = [x.id for x in ast.walk(v) if isinstance(x, ast.Name) and isinstance(x.ctx, ast.Load) and x.id not in ("heavy", "tuple", "np")] if v is not None else []
                cand = [nm for nm in names if any(isinstance(n.ast, ast.Assign) and any(isinstance(t, ast.Name) and t.id == nm for t in n.ast.targets) for n in r.stmt_nodes(ctx))]
                ok = bool(cand) and all(flows_ok(nm, R_.id) for nm in cand)
            chk.ob("FILTER", f"{q}: `{seg(R_.ast, 40)}` only after filter_pairs", ok, loc=r.loc(ctx, R_.ast), detail="" if ok else f"{q}: pairs are returned at {r.loc(ctx, R_.ast)} without passing the duplicate filter: the same crossing found from several starts is reported several times", func=q, construct="duplicate filter skipped")
    r.pure("PURE", I + "curve_and_curve", ["curvea", "curveb"])
    r.pure("PURE", I + "bcurve_and_bcurve", ["beziera", "bezierb"])
    r.pure("PURE", PMD, ["pairs", "curvea", "curveb"])
    r.pure("PURE", I + "filter_pairs", ["pairs"])
    all_components(r, chk, I + "filter_pairs")
    from .homog import residual_degree

    residual_degree(r, chk, PMD, 1e-6)
