"""C14 — clean() reaches the minimal representation without changing the curve."""
from __future__ import annotations

import ast

from .common import CURVE_FIELDS, R, seg
from .c05 import arg_flow, rule_n, tolerance_gate, no_swallow
from .loops import classify_while

NEED = ("generic",)
C = "curves.Curve."


def until_refused(r: R, chk, qual: str, callee: str):
    ctx = r.root(qual)
    fi = ctx.fi
    calls = [c for c in r.calls_in(ctx, "." + callee) if c.kind == "call"]
    chk.floor("UNTIL-REFUSED", f"calls of {callee} in {qual}", len(calls), 1)
    for cr in calls:
        node = ctx.cfg.nodes[cr.cfgnode]
        # enclosing `while True`
        loops = [w for w in ast.walk(fi.node) if isinstance(w, ast.While) and any(x is cr.node for x in ast.walk(w))]
        cls = [classify_while(fi, w) for w in loops]
        ok_loop = any(li.cls == "shrink-until-refused" for li in cls)
        chk.ob("UNTIL-REFUSED", f"{qual}: `{seg(cr.node, 40)}` is repeated until it is refused", ok_loop, loc=r.loc(ctx, cr.node),
               detail="" if ok_loop else f"{qual}: `{seg(cr.node, 50)}` is attempted once (or a bounded number of times) instead of until it raises: a knot of multiplicity > 1 / a degree that can be lowered several times is only partly removed, so equal curves do not clean to the same representation",
               func=qual, construct=f"{callee} not repeated until refused")
        hs = node.handlers or []
        inner = hs[0] if hs else []
        ok_h = inner == [["ValueError"]]
        chk.ob("ONLY-VALUEERROR", f"{qual}: the refusal of `{callee}` is caught as exactly ValueError", ok_h, loc=r.loc(ctx, cr.node),
               detail="" if ok_h else f"{qual}: the handler around `{seg(cr.node, 40)}` catches {inner or 'nothing'}: " + ("other errors than the refusal are swallowed" if inner else "the refusal escapes and clean() fails on an already minimal curve"), func=qual, construct=f"handler {inner} around {callee}")


def run(m, chk):
    r = R(m, chk)
    chk.explanation = (
        "Static discharge of structural clauses of C14: knot_clean / degree_clean repeat the tolerance-guarded removal until it is refused (shrink-until-refused loop, only ValueError swallowed), for every "
        "interior knot; clean calls both on every path; the tolerance reaches every gate through every call site (ARG-FLOW); the gate itself (C05) holds. Minimality, idempotence and uniqueness are not decided."
    )
    chk.decides = ["ERROR-COVERS (the error fit_curve returns contains the quadratic form of the error matrix for every quantity the fit replaces — weighted points and weights)", "ABS-INSIDE (the error matrix of a vector-valued fit is reduced over absolute values: coordinates cannot cancel)", "ARG-FLOW(clean: the rational curve is the source, the unit-weight space the target of the final fit)", "ERROR-QUADRATIC (the error handed to the gate is the whole quadratic form when the fit is constrained)", "NODES-OF-NEW (the interpolation nodes handed to update() are the knots of the new knot vector, taken after its last change)", "NONE-DEFAULT", "DEHOMOG-PAIR (points divided by a list of weights are stored with exactly those weights)", "ARG-RANGE (degree_decrease refuses no times in 1..degree before trying)", "LOOP-ACCUMULATE (the error handed to the gate is not overwritten per component in a loop)", "MEMO-KEY (no function on the path is memoised by the value of numbers / knot vectors)", "UNTIL-REFUSED", "ONLY-VALUEERROR", "ALL-KNOTS", "clean calls both", "ARG-FLOW(tolerance)", "GATE-TOL", "N", "WEIGHT-HOMOG (the fit behind every removal keeps rational control points of degree 0 in the weights)"]
    chk.not_decided = ["minimality / uniqueness of the cleaned representation", "idempotence as values"]
    until_refused(r, chk, C + "knot_clean", "knot_remove")
    until_refused(r, chk, C + "degree_clean", "degree_decrease")
    from .homog import weight_homog

    weight_homog(r, chk, ["curves.Curve.fit_curve", "curves.BaseCurve.update"])
    # every interior knot
    ctx = r.root(C + "knot_clean")
    fors = [n for n in r.stmt_nodes(ctx) if n.kind == "for" and any(c.cfgnode in ctx.cfg.reachable(n.id, exc=False) for c in r.calls_in(ctx, ".knot_remove"))]
    chk.floor("ALL-KNOTS", "loop over the knots in knot_clean", len(fors), 1)
    for n in fors:
        v = ctx.val(n.ast.iter)
        have = v.all_dep() if v is not None else set()
        need = r.srcs(ctx.fi, ["self.knotvector", "nodes"])
        miss = [w for w in need if not R.dep_has(have, w)]
        chk.ob("ALL-KNOTS", f"{C}knot_clean: the loop runs over the requested nodes / all knots of the curve", not miss, loc=r.loc(ctx, n.ast), detail="" if not miss else f"{C}knot_clean: the set of knots tried does not depend on {r.fmt_deps(ctx.fi, miss)}", func=C + "knot_clean", construct="knots tried ignore an input")
    # clean calls both on every path
    ctx = r.root(C + "clean")
    for callee in ("degree_clean", "knot_clean"):
        cs = [c for c in r.calls_in(ctx, "." + callee) if c.kind == "call"]
        rets = [n for n in r.stmt_nodes(ctx) if isinstance(n.ast, ast.Return)] + [ctx.cfg.nodes[ctx.cfg.exit]]
        ok = bool(cs) and all(any(ctx.cfg.dominates(c.cfgnode, R_.id) for c in cs) for R_ in rets if R_.id in ctx.cfg.live_nodes())
        chk.ob("CLEAN-BOTH", f"{C}clean: {callee} runs on every path", ok, loc=r.loc(ctx, ctx.fi.node), detail="" if ok else f"{C}clean: a path returns without calling {callee}", func=C + "clean", construct=f"{callee} skipped")
    arg_flow(r, chk, "ARG-FLOW", C + "clean", ".degree_clean", "tolerance", ["tolerance"], what="a non-default tolerance must reach the gate")
    arg_flow(r, chk, "ARG-FLOW", C + "clean", ".knot_clean", "tolerance", ["tolerance"], what="a non-default tolerance must reach the gate")
    arg_flow(r, chk, "ARG-FLOW", C + "knot_clean", ".knot_remove", "tolerance", ["tolerance"])
    arg_flow(r, chk, "ARG-FLOW", C + "knot_clean", ".knot_remove", "nodes", ["self.knotvector"])
    arg_flow(r, chk, "ARG-FLOW", C + "degree_clean", ".degree_decrease", "tolerance", ["tolerance"])
    arg_flow(r, chk, "ARG-FLOW", C + "knot_remove", ".update", "tolerance", ["tolerance"])
    arg_flow(r, chk, "ARG-FLOW", C + "degree_decrease", ".update", "tolerance", ["tolerance"])
    # clean(): the rational curve is the SOURCE of the final fit, the polynomial space (unit weights) the target
    CL = C + "clean"
    arg_flow(r, chk, "ARG-FLOW", CL, "LeastSquare.func2func", "oldweights", ["self.weights"], what="the curve to be reproduced is the rational one")
    arg_flow(r, chk, "ARG-FLOW", CL, "LeastSquare.func2func", "oldknotvector", ["self.knotvector"])
    arg_flow(r, chk, "ARG-FLOW", CL, "LeastSquare.func2func", "newknotvector", ["self.knotvector"])
    cctx = r.root(CL)
    for cr in r.calls_in(cctx, "LeastSquare.func2func"):
        for fi_, bound in zip(cr.callees, cr.args):
            av = bound.get("newweights")
            if av is None:
                continue
            from .c05 import _heap_at

            have = r.deep_dep(cctx, av, heap=_heap_at(cctx, cr.cfgnode))
            bad = [w for w in r.srcs(cctx.fi, ["self.weights"]) if R.dep_has(have, w)]
            chk.ob("ARG-FLOW", f"{CL}: the target space of `{seg(cr.node, 40)}` is polynomial (its weights do not come from the curve's weights)", not bad, loc=r.loc(cctx, cr.node),
                   detail="" if not bad else f"{CL}: at `{seg(cr.node, 70)}` the weights of the TARGET space depend on the curve's own weights: the polynomial control polygon is fitted with the rational basis instead of the rational curve with the polynomial basis, and a genuinely rational curve whose control polygon happens to be representable loses its weights",
                   func=CL, construct="target weights of the final fit come from the curve")
    from .extra import error_covers

    error_covers(r, chk)
    from .extra import abs_inside

    abs_inside(r, chk, ["curves.Curve.fit_curve", "curves.Curve.clean"], floor=0)  # expected count zero; reductions written through a helper are not named `error`
    from .extra import error_quadratic

    error_quadratic(r, chk, "heavy.LeastSquare.func2func")
    from .extra import nodes_of_new

    nodes_of_new(r, chk, [C + "knot_remove", C + "degree_decrease"])
    tolerance_gate(r, chk)
    rule_n(r, chk)
    from .extra import memo_key

    nm = memo_key(r, chk, entries=['curves.Curve.knot_clean', 'curves.Curve.degree_clean', 'curves.Curve.clean'])
    chk.floor("MEMO-KEY", "functions reachable from the entry points examined for value-keyed memoisation", nm, 3)
    from .extra import loop_accumulate

    loop_accumulate(r, chk, ["curves.Curve.fit_curve", "curves.BaseCurve.update", "heavy.LeastSquare.func2func", "heavy.LeastSquare.spline2spline"])
    from .extra import arg_range

    arg_range(r, chk, C + "degree_decrease", "times", lambda p: range(1, p + 1))
    from .extra import dehomog_pair

    dehomog_pair(r, chk, ["curves.Curve.fit_curve"], floor=1)
    from .extra import none_default

    none_default(r, chk, [C + "knot_clean"])
