"""nv — repository-specific static analysis of compmec/nurbs (stdlib ast only).

Nothing under /repo is imported or executed by this package: sources are parsed
fresh on every run and all verdicts are computed over the resolved program model.
"""

REPO_SRC = "/repo/src/compmec/nurbs"
MODULES = ("heavy", "knotspace", "curves", "functions", "calculus", "advanced", "__classes__", "__init__")


class AnalysisError(Exception):
    """The checker could not do its job (vanished anchor, floor not met, ...)."""
