"""C18 — generators and affine maps produce exactly the advertised knot vectors."""
from __future__ import annotations

import ast

from .common import R, seg

NEED = ("generic", "exact")
KV = "knotspace.KnotVector."
G = "knotspace.GeneratorKnotVector."


def reciprocal_of_own_element(fi, e: ast.expr, depth=0) -> bool:
    """e is `1 / x` (or a name bound to it) where x is an element of the vector that is then multiplied"""
    if isinstance(e, ast.BinOp) and isinstance(e.op, ast.Div) and isinstance(e.left, ast.Constant) and e.left.value in (1, 1.0):
        return any(isinstance(x, ast.Subscript) and isinstance(x.value, ast.Name) and x.value.id == "self" for x in ast.walk(e.right)) or any(isinstance(x, ast.Name) and _bound_to_element(fi, x.id) for x in ast.walk(e.right))
    if isinstance(e, ast.Name) and depth < 3:
        for a in ast.walk(fi.node):
            if isinstance(a, ast.Assign) and any(isinstance(t, ast.Name) and t.id == e.id for t in a.targets):
                if reciprocal_of_own_element(fi, a.value, depth + 1):
                    return True
    return False


def _bound_to_element(fi, name: str) -> bool:
    for a in ast.walk(fi.node):
        if isinstance(a, ast.Assign) and any(isinstance(t, ast.Name) and t.id == name for t in a.targets):
            if any(isinstance(x, ast.Subscript) and isinstance(x.value, ast.Name) and x.value.id == "self" for x in ast.walk(a.value)):
                return True
    return False


def sibling_cast(r: R, chk, q: str, data_param: str, rule="SIBLING-CAST"):
    """no element of the user's data is converted to the class of ANOTHER element (`type(data[0])(x)`, `map(type(data[0]), data)`):
    when that class is int the conversion truncates every non-integral element"""
    ctx = r.root(q)
    fi = ctx.fi
    if data_param not in fi.params:
        return
    pi = fi.params.index(data_param)
    dyn = set()
    for a in ast.walk(fi.node):
        if isinstance(a, ast.Assign) and len(a.targets) == 1 and isinstance(a.targets[0], ast.Name) and isinstance(a.value, ast.Call) and isinstance(a.value.func, ast.Name) and a.value.func.id == "type" and a.value.args:
            v = ctx.val(a.value.args[0])
            if v is not None and R.dep_has(v.all_dep(), ("P", pi)):
                dyn.add(a.targets[0].id)

    def is_dyn(e):
        if isinstance(e, ast.Name):
            return e.id in dyn
        if isinstance(e, ast.Call) and isinstance(e.func, ast.Name) and e.func.id == "type" and e.args:
            v = ctx.val(e.args[0])
            return v is not None and R.dep_has(v.all_dep(), ("P", pi))
        return False

    n = 0
    for c in ast.walk(fi.node):
        if not isinstance(c, ast.Call):
            continue
        victims = []
        if is_dyn(c.func):
            victims = list(c.args)
        elif isinstance(c.func, ast.Name) and c.func.id == "map" and len(c.args) >= 2 and is_dyn(c.args[0]):
            victims = list(c.args[1:])
        else:
            continue
        n += 1
        bad = []
        for a in victims:
            if isinstance(a, ast.Constant):
                continue
            v = ctx.val(a)
            if v is not None and R.dep_has(v.all_dep(), ("P", pi)):
                bad.append(a)
        chk.ob(rule, f"{q}: `{seg(c, 40)}` converts no element of `{data_param}`", not bad, loc=r.loc(ctx, c),
               detail="" if not bad else f"{q}: `{seg(c, 50)}` converts `{seg(bad[0], 30)}` (the caller's {data_param}) to the class of another element of {data_param}: if that one is an int every non-integral value is truncated (int(0.5) == 0), so the knot spacing is not the requested one and interior knots can coincide",
               func=q, construct=f"{data_param} converted to the class of one of its elements")
    chk.note(f"{rule}: {n} conversion(s) by a class taken from `{data_param}` examined in {q} (expected count of violations: zero; the thorough tier keeps a variant that must match)")


def run(m, chk):
    r = R(m, chk)
    chk.explanation = (
        "Static discharge of structural clauses of C18: normalize does not obtain the upper limit as x * (1/x) (rule R: IEEE arithmetic does not round that to 1 for every x, x / x does); shift / scale / normalize commit once, "
        "last (through the validated setter); generator results depend on degree, npts and cls / weights. Spacing, simplicity of interior knots and invariance of evaluation under reparametrisation are not decided."
    )
    chk.decides = ["SAMPLE-COUNT (the random weights of random(p, n) are drawn by a call that is given npts - degree, never cut out of an array of fixed length)", "CLAMP-SAME (the trailing clamped copies of weight() are the last cumulative knot itself)", "NP-SCALAR (elements of numpy arrays are converted with int() / float() before cls(...) sees them)", "TOL-ABSOLUTE (knot identity is decided on differences, never with a tolerance relative to the knots)", "E8 (exact knots stay exact under shift / scale / normalize and in the generators with cls = Fraction)", "R (no multiplication by a reciprocal of an own element)", "COMMIT-LAST(shift, scale, normalize)", "DEP-MAY of the generators", 'NORMALIZE-PATHS', 'SIBLING-CAST (weight() converts no weight to the class of another weight)']
    chk.not_decided = ["equal spacing / simple interior knots", "N_i over s*U+a at s*u+a equals N_i over U at u"]
    q = KV + "normalize"
    ctx = r.root(q)
    fi = ctx.fi
    steps = [c for c in ctx.calls if c.kind in ("call", "augop", "setter") and any(f.name in ("scale", "__imul__", "__itruediv__", "internal", "shift") for f in c.callees)]
    chk.floor("R", "scaling / shifting / rebuilding steps of normalize", len(steps), 1)
    n = 0
    for cr in steps:
        if not any(f.name in ("scale", "__imul__") for f in cr.callees):
            continue
        n += 1
        node = cr.node
        arg = node.args[0] if isinstance(node, ast.Call) and node.args else (node.value if isinstance(node, ast.AugAssign) else None)
        bad = arg is not None and reciprocal_of_own_element(fi, arg)
        chk.ob("R", f"{q}: `{seg(node, 40)}` does not multiply by the reciprocal of an element of the same vector", not bad, loc=r.loc(ctx, node),
               detail="" if not bad else f"{q}: `{seg(node, 50)}` multiplies every knot by `{seg(arg, 30)}`: the last knot becomes x * (1/x), which IEEE arithmetic does not round to exactly 1 for every x (e.g. 49.0) — the interval is not exactly [0, 1]; divide instead",
               func=q, construct="scale by reciprocal of own element")
    from .extra import sample_count

    sample_count(r, chk)
    from .extra import normalize_paths

    normalize_paths(r, chk)
    for name in ("shift", "scale", "convert"):
        r.commit_last("COMMIT-LAST", KV + name)
    # normalize commits once, last: a failure of its arithmetic (int / int collapsing two knots, an infinite knot) must not leave
    # the vector shifted but not scaled
    r.commit_last("COMMIT-LAST", q)
    for name, need in (("bezier", ["degree", "cls"]), ("integer", ["degree", "npts", "cls"]), ("uniform", ["degree", "npts", "cls"]), ("random", ["degree", "npts", "cls"]), ("weight", ["degree", "weights"])):
        gq = G + name
        c2 = r.root(gq)
        for nid, v in sorted(c2.ret_sites.items()):
            have = r.deep_dep(c2, v, heap=c2.ret_states[nid].heap)
            miss = [w for w in r.srcs(c2.fi, need) if not R.dep_has(have, w)]
            chk.ob("DEP-MAY", f"{gq}: the vector depends on {', '.join(need)}", not miss, loc=r.loc(c2, c2.cfg.nodes[nid].ast), detail="" if not miss else f"{gq}: the generated vector does not depend on {r.fmt_deps(c2.fi, miss)}", func=gq, construct=f"ignores {r.fmt_deps(c2.fi, miss)}")
        okt = c2.summary.ret is not None and "inst:KnotVector" in c2.summary.ret.ty
        chk.ob("DEP-MAY", f"{gq}: returns a KnotVector built by the validating constructor", okt, loc=r.loc(c2, c2.fi.node), detail="" if okt else f"{gq}: may return {sorted(c2.summary.ret.ty) if c2.summary.ret else '?'}", func=gq, construct="generator result type")
    sibling_cast(r, chk, G + "weight", "weights")
    for name in ("uniform", "random"):
        c2 = r.root(G + name)
        ok = any(f.qual == KV + "normalize" for c in c2.calls for f in c.callees)
        rets = [x for x in r.stmt_nodes(c2) if isinstance(x.ast, ast.Return)]
        nn = [c.cfgnode for c in c2.calls if any(f.qual == KV + "normalize" for f in c.callees)]
        ok = ok and all(any(c2.cfg.dominates(x, R_.id) for x in nn) for R_ in rets)
        chk.ob("NORMALIZED", f"{G + name}: the result is normalised on every path", ok, loc=r.loc(c2, c2.fi.node), detail="" if ok else f"{G + name}: a vector is returned without normalize(): the interval is not [0, 1]", func=G + name, construct="generator skips normalize")
    # exact knots stay exact: no float introduced by the library reaches the vector a generator returns (cls = Fraction) or the
    # state shift / scale / normalize write (number-kind analysis of the exact context, as in C16)
    # weight(): the trailing clamped copies are the last cumulative knot itself (`L[-1]`), not a second computation of the total:
    # a float sum taken another way (sum() is compensated since Python 3.12) differs by an ulp and the vector is not clamped
    wq = G + "weight"
    wfi = r.prog.func(wq)
    from .common import expand_locals

    # the cumulative list: `L[i + 1] = L[i] + w` / `L[i] = L[i - 1] + w`
    cumul = {t_.value.id for a_ in ast.walk(wfi.node) if isinstance(a_, ast.Assign) and len(a_.targets) == 1 for t_ in [a_.targets[0]] if isinstance(t_, ast.Subscript) and isinstance(t_.value, ast.Name) and isinstance(a_.value, ast.BinOp) and isinstance(a_.value.op, ast.Add) and any(isinstance(x_, ast.Subscript) and isinstance(x_.value, ast.Name) and x_.value.id == t_.value.id for x_ in ast.walk(a_.value))}
    pads = []
    for b_ in ast.walk(wfi.node):
        if isinstance(b_, ast.BinOp) and isinstance(b_.op, ast.Mult):
            lst = b_.right if isinstance(b_.right, ast.List) else b_.left if isinstance(b_.left, ast.List) else None
            if lst is None or len(lst.elts) != 1:
                continue
            el = lst.elts[0]
            if isinstance(el, ast.Name):
                el = expand_locals(wfi, el, depth=1)  # `umax` -> what it was computed from; a subscript of the list stays as it is
            if isinstance(el, ast.Call) and len(el.args) == 1 and isinstance(el.args[0], ast.Constant) and el.args[0].value == 0:
                continue  # the leading copies: cls(0)
            if isinstance(el, ast.Constant) and el.value == 0:
                continue
            pads.append((b_, el, next(iter(sorted(cumul)), "?")))
    chk.floor("CLAMP-SAME", f"trailing clamped copies in {wq}", len(pads), 1)
    for b_, el, mid in pads:
        okp = isinstance(el, ast.Subscript) and isinstance(el.value, ast.Name) and el.value.id in cumul and seg(el.slice) in ("-1", "len(%s) - 1" % el.value.id)
        chk.ob("CLAMP-SAME", f"{wq}: the trailing copies are `{mid}[-1]` itself", okp, loc=f"{wfi.module}.py:{b_.lineno}",
               detail="" if okp else f"{wq}: the trailing clamped copies are `{seg(el, 30)}`, not the last element of `{mid}`: computed separately, the total of float weights can differ by an ulp from the running sum (0.1 + 0.2 + 0.3), the last knot then occurs once instead of degree + 1 times and the vector is refused (ValueError) for weights that are perfectly valid",
               func=wq, construct="trailing copies not the last knot itself")
    from .extra import np_scalar

    np_scalar(r, chk, [G + f_ for f_ in ("bezier", "integer", "uniform", "random", "weight")], floor=3)
    from .c16 import e8_sinks

    ne8 = e8_sinks(chk, m.exact(), [KV + "shift", KV + "scale", KV + "normalize", G + "bezier", G + "integer", G + "uniform", G + "random", G + "weight"])
    chk.floor("E8", "sinks of the affine maps and the generators in the exact context", ne8, 8)
    from .extra import tol_absolute

    tol_absolute(r, chk, ["heavy.ImmutableKnotVector.__get_unique", "heavy.ImmutableKnotVector.__mult_single", "heavy.ImmutableKnotVector.__span_single", "heavy.ImmutableKnotVector.__valid_single", "heavy.ImmutableKnotVector.__is_valid"])
