"""Models of builtins / numpy / operators / conditions used by the interpreter (mixin of FuncInterp).

The table of external functions is part of the trusted base and is printed in the evidence:
numpy is treated as pure (no effect on its arguments except the listed in-place methods),
views are `asarray / transpose / moveaxis / reshape / .T / ndarray slices`.
"""
from __future__ import annotations

import ast
from typing import Dict, List, Optional

from .interp_keys import nk
from .vals import EMPTY, NONE, UNKNOWN, Val, join, joinall, mk_bool, mk_int, mk_str

KRANK = {"N": 0, "I": 1, "Z": 2, "Q": 3, "L": 3.5, "U": 4, "F": 5}  # L: an integer obtained by truncating a library float
IMMUTABLE_BUILTIN_TAGS = {"cls:int": "int", "cls:float": "float", "cls:bool": "int", "cls:str": "str", "cls:Fraction": "number", "cls:complex": "number", "cls:tuple": "tuple"}
NUMERIC_TAGS = {
    "cls:int": {"I", "Z", "L"},
    "cls:np.integer": {"I", "Z", "L"},
    "cls:np.int64": {"I", "Z", "L"},
    "cls:Fraction": {"Q"},
    "cls:float": {"F"},
    "cls:np.floating": {"F"},
    "cls:np.float64": {"F"},
}
MUT_NAMES = {"append", "extend", "insert", "remove", "pop", "sort", "reverse", "clear", "add", "discard", "update", "fill", "resize", "put", "popitem", "setdefault", "difference_update", "intersection_update", "itemset"}
NP_VIEW = {"asarray", "transpose", "moveaxis", "swapaxes", "reshape", "ravel", "squeeze", "atleast_1d", "atleast_2d", "asanyarray"}
NP_FLOAT = {"sqrt", "ceil", "floor", "log", "log2", "log10", "exp", "sin", "cos", "tan", "arccos", "arcsin", "arctan", "arctan2", "linspace", "hypot", "float64", "deg2rad", "rad2deg", "mean", "average", "std", "var", "arange_f"}
NP_COMBINE = {"dot", "matmul", "tensordot", "inner", "outer", "cross", "kron", "einsum", "multiply", "add", "subtract", "divide"}
NP_REDUCE = {"sum", "prod", "max", "min", "amax", "amin", "abs", "absolute", "cumsum", "cumprod", "negative", "square", "sign", "maximum", "minimum", "trace", "copy", "array_split", "flip", "roll", "sort", "unique", "take"}
NP_STACK = {"column_stack", "concatenate", "hstack", "vstack", "stack", "diag", "append", "block", "tile", "repeat"}
NP_BOOL = {"all", "any", "isfinite", "isnan", "isclose", "allclose", "array_equal", "isinf", "logical_and", "logical_or", "logical_not"}
NP_INT = {"where", "argmin", "argmax", "argsort", "nonzero", "searchsorted", "count_nonzero", "arange", "shape", "size", "ndim", "floor_divide"}


def scal_kind(v: Val) -> frozenset:
    k = v.all_kinds() - {"N"}
    return frozenset(k)


class ModelsMixin:
    # ------------------------------------------------------------------ kinds
    def new_float(self, node, what: str):
        return frozenset({f"{self.loc(node)}: {what}"})

    def kind_combine(self, kinds: List[frozenset], node, op=None, what="arithmetic"):
        """kind of an arithmetic result; returns (kind set, new float sources)"""
        ks = [k for k in kinds if k]
        if not ks:
            return EMPTY, EMPTY
        out = set()
        fs = set()

        definite = len(ks) == 2 and all(k <= {"I"} for k in ks)

        def comb(a, b):
            if isinstance(op, ast.Div) and a in ("I",) and b in ("I",):
                # a float only if both operands are library integers on every path; "may be an
                # integer" (a user number that happens to be I on some path) is not reported
                if definite:
                    fs.add(f"{self.loc(node)}: true division of two library integers `{ast.unparse(node)[:60]}`")
                    return "F"
                return "Q"
            if "L" in (a, b) and "F" not in (a, b) and "U" not in (a, b):
                return "L"
            if isinstance(op, ast.FloorDiv) and KRANK[a] <= 2 and KRANK[b] <= 2:
                return a if KRANK[a] >= KRANK[b] else b
            if isinstance(op, ast.Div) and KRANK[a] <= 3 and KRANK[b] <= 3:
                return "Q" if (a != "I" or b != "I") else "F"
            return a if KRANK[a] >= KRANK[b] else b

        cur = set(ks[0])
        for k in ks[1:]:
            cur = {comb(a, b) for a in cur for b in k}
        out = cur
        return frozenset(out), frozenset(fs)

    def arith_result(self, ops: List[Val], node, op=None) -> Val:
        num_ok = {"int", "float", "number", "bool", "ndarray"}
        if any((not o.ty) or (o.ty - num_ok) for o in ops):
            self.may_raise("TypeError", node=node)
        if isinstance(op, (ast.Div, ast.FloorDiv, ast.Mod)) and len(ops) == 2:
            d = ops[1]
            if not (d.const is not None and d.const and all(isinstance(c, (int, float)) and not isinstance(c, bool) and c != 0 for c in d.const)):
                self.may_raise("ZeroDivisionError", node=node)
        kinds = [scal_kind(o) for o in ops]
        k, fs = self.kind_combine(kinds, node, op)
        dep = frozenset().union(*[o.all_dep() for o in ops])
        mdep = frozenset().union(*[o.mdep for o in ops])
        fsrc = frozenset().union(*[o.all_fsrc() for o in ops]) | fs
        if "F" not in k and "L" not in k:
            fsrc = EMPTY
        tys = frozenset().union(*[o.ty for o in ops])
        num = {"int", "float", "number", "bool"}
        if any("ndarray" in o.ty for o in ops):
            cell = Val(ty={"number"}, kind=k, fsrc=fsrc, dep=dep)
            objel = joinall([o.iter_join() for o in ops if o.iter_join() is not None and ("?" in o.iter_join().ty)])
            if objel is not None:
                cell = join(cell, Val(ty={"?"}, pts={("N", self.site(node, "cell"))}, kind=k, dep=dep))
            row = Val(ty={"number", "ndarray"} | cell.ty, kind=k, fsrc=fsrc, dep=dep, elem=cell, pts=cell.pts)
            return self.fresh(node, {"ndarray"}, dep=dep, mdep=mdep, elem=row, kind={"N"})
        if tys and tys <= num:
            ty = {"int"} if all(o.ty <= {"int", "bool"} for o in ops) and not isinstance(op, ast.Div) else {"number"}
            if k and k <= {"F"}:
                ty = {"float"}
            const = None
            if len(ops) == 2 and all(o.const is not None and len(o.const) == 1 for o in ops) and isinstance(op, (ast.Add, ast.Sub, ast.Mult)):
                a, b = (next(iter(o.const)) for o in ops)
                if isinstance(a, int) and isinstance(b, int) and not isinstance(a, bool) and not isinstance(b, bool):
                    const = {a + b if isinstance(op, ast.Add) else a - b if isinstance(op, ast.Sub) else a * b}
            return Val(ty=ty, kind=k, fsrc=fsrc, dep=dep, mdep=mdep, const=const)
        # unknown operand types (user points, mixed): a new object
        e = joinall([o.iter_join() for o in ops if o.iter_join() is not None])
        ty = {"?"} | ({"number"} if tys & num else set())
        return Val(ty=ty, pts={("N", self.site(node, "arith"))}, kind=k, fsrc=fsrc, dep=dep, mdep=mdep, elem=None if e is None else e.with_(pts=EMPTY, kind=k, fsrc=fsrc))

    # ------------------------------------------------------------------ operators
    def binop(self, op, l: Val, r: Val, st, node, aug=False) -> Val:
        from .interp import BINOP

        if self.dead and ((not l.ty and not l.pts) or (not r.ty and not r.pts)):
            return Val()  # an operand is bottom (its callee has not returned yet): so is the result

        res = None
        dn, rdn = BINOP[type(op)]
        callees, argl = [], []
        l_handled = False
        self._grp_push()
        if not aug:
            for c in l.insts():
                ms = self.prog.lookup(c, dn)
                for m in ms:
                    rr, bound = self.call_func(m, [self.recv_for(l, c), r], {}, st, node, "binop", record=False)
                    callees.append(m)
                    argl.append(bound)
                    res = join(res, rr)
                    l_handled = True
        else:
            for c in l.insts():
                ms = self.prog.lookup(c, dn)
                for m in ms:
                    rr, bound = self.call_func(m, [self.recv_for(l, c), r], {}, st, node, "binop", record=False)
                    callees.append(m)
                    argl.append(bound)
                    res = join(res, rr)
                    l_handled = True
        l_other = l.ty - {t for t in l.ty if t.startswith("inst:")}
        l_inst_nomethod = any(not self.prog.lookup(c, dn) for c in l.insts())
        if l_other or l_inst_nomethod or not l.ty:
            for c in r.insts():
                for m in self.prog.lookup(c, rdn):
                    rr, bound = self.call_func(m, [self.recv_for(r, c), l], {}, st, node, "binop", record=False)
                    callees.append(m)
                    argl.append(bound)
                    res = join(res, rr)
        if callees:
            self.rec_call(node, callees, argl, "binop", recv=l, ret=res)
        r_other = r.ty - {t for t in r.ty if t.startswith("inst:")}
        builtin_too = bool((l_other or not l.ty) and (r_other or not r.ty) or not callees)
        self._grp_pop(res, other=builtin_too)
        if builtin_too:
            # the builtin semantics concerns only the non-instance part of the operands
            l2 = l.with_(ty=l_other, pts=frozenset(o for o in l.pts if not (o[0] == "N" and "obj:" in str(o[1][3])))) if (l_other and l.insts()) else l
            r2 = r.with_(ty=r_other, pts=frozenset(o for o in r.pts if not (o[0] == "N" and "obj:" in str(o[1][3])))) if (r_other and r.insts()) else r
            res = join(res, self.builtin_binop(op, l2, r2, st, node))
        return res if res is not None else Val()

    def builtin_binop(self, op, l: Val, r: Val, st, node) -> Val:
        seq = {"list", "tuple"}
        dep = l.dep | r.dep
        mdep = l.mdep | r.mdep
        lt = l.ty - {"?"}
        rt = r.ty - {"?"}
        if isinstance(op, ast.Add) and lt and rt and lt <= seq and rt <= seq:
            return self.fresh(node, lt | rt, elem=join(l.iter_join(), r.iter_join()), dep=dep, mdep=mdep, kind={"N"})
        if isinstance(op, ast.Mult) and ((lt and lt <= seq and rt <= {"int", "bool", "number"}) or (rt and rt <= seq and lt <= {"int", "bool", "number"})):
            s = l if lt <= seq and lt else r
            return self.fresh(node, s.ty - {"?"}, elem=s.iter_join(), dep=dep, mdep=mdep, kind={"N"})
        if lt and lt <= {"set", "frozenset"} and isinstance(op, (ast.Sub, ast.BitOr, ast.BitAnd, ast.BitXor)):
            e = l.iter_join() if isinstance(op, (ast.Sub,)) else join(l.iter_join(), r.iter_join())
            return self.fresh(node, {"set"}, elem=e, dep=dep, mdep=mdep, kind={"N"})
        if lt and lt <= {"str"}:
            return mk_str().with_(dep=dep, mdep=mdep)
        if isinstance(op, ast.Mult) and (lt & seq or rt & seq) and not ((lt | rt) & {"ndarray"}):
            # sequence repetition possible (times * nodes) as well as arithmetic
            s = l if lt & seq else r
            a = self.arith_result([l, r], node, op)
            return join(a, self.fresh(node, (s.ty & seq), elem=s.iter_join(), dep=dep, mdep=mdep, kind={"N"}))
        if isinstance(op, ast.Add) and (lt & seq and rt & seq) and not ((lt | rt) & {"ndarray"}):
            a = self.arith_result([l, r], node, op)
            return join(a, self.fresh(node, (lt | rt) & seq, elem=join(l.iter_join(), r.iter_join()), dep=dep, mdep=mdep, kind={"N"}))
        return self.arith_result([l, r], node, op)

    def ev_compare(self, e: ast.Compare, st) -> Val:
        from .interp import CMPOP

        left = self.ev(e.left, st)
        dep, mdep = set(left.all_dep()), set(left.mdep)
        cur = left
        callees, argl = [], []
        self._grp_push()
        for op, c in zip(e.ops, e.comparators):
            rv = self.ev(c, st)
            dep |= rv.all_dep()
            mdep |= rv.mdep
            dn = CMPOP.get(type(op))
            if isinstance(op, (ast.Lt, ast.LtE, ast.Gt, ast.GtE)) and any((not x.ty) or (x.ty - {"int", "float", "number", "bool", "ndarray"}) for x in (cur, rv)):
                self.may_raise("TypeError", node=e)
            if dn:
                done = set()
                for cl in cur.insts():
                    for m in self.prog.lookup(cl, dn):
                        if m in done:
                            continue
                        done.add(m)
                        rr, bound = self.call_func(m, [self.recv_for(cur, cl), rv], {}, st, e, "cmp", record=False)
                        callees.append(m)
                        argl.append(bound)
                        dep |= rr.dep
                        mdep |= rr.mdep
                if not cur.insts():
                    for cl in rv.insts():
                        for m in self.prog.lookup(cl, dn):
                            rr, bound = self.call_func(m, [self.recv_for(rv, cl), cur], {}, st, e, "cmp", record=False)
                            callees.append(m)
                            argl.append(bound)
                            dep |= rr.dep
                            mdep |= rr.mdep
            cur = rv
        self._grp_pop(None, other=True)
        if callees:
            self.rec_call(e, callees, argl, "cmp", recv=left)
        self.ctx.vals[nk(e)] = mk_bool().with_(dep=dep, mdep=mdep)
        tr = self.truth(e, st)
        const = {next(iter(tr))} if len(tr) == 1 else None
        ty = {"bool"}
        if "ndarray" in left.ty or "ndarray" in cur.ty:
            ty = {"bool", "ndarray"}
        return Val(ty=ty, dep=dep, mdep=mdep, const=const, kind={"N"})

    # ------------------------------------------------------------------ iteration / subscripts
    def iter_elem_simple(self, v: Val) -> Val:
        self.check_iterable(v, None)
        e = v.iter_join()
        if e is not None:
            return e.add_dep(v.dep, EMPTY)
        return Val(ty={"?"}, pts={("E", o) for o in v.pts}, dep=v.dep, mdep=v.mdep)

    NONITER = frozenset({"number", "int", "float", "bool", "None", "?", "callable", "exc", "const", "slice"})

    def check_iterable(self, v: Val, node):
        if not v.ty or (v.ty & self.NONITER) or any(t.startswith(("cls:", "func:", "bfunc:", "lam:", "ext:", "builtin:", "mod:")) for t in v.ty):
            self.may_raise("TypeError", node=node)
            if v.ty and v.ty <= {"number", "int", "float", "bool", "None"}:
                self.dead = True  # iterating a number always raises: the normal edge is infeasible
        for c in v.insts():
            if not self.prog.lookup(c, "__iter__") and not self.prog.is_subclass(c, "ImmutableKnotVector") and not self.prog.lookup(c, "__getitem__"):
                self.may_raise("TypeError", node=node)

    def iter_elem(self, v: Val, st, node) -> Val:
        self.check_iterable(v, node)
        res = None
        self._grp_push()
        for c in v.insts():
            ms = self.prog.lookup(c, "__iter__")
            if ms:
                for m in ms:
                    r, _ = self.call_func(m, [self.recv_for(v, c)], {}, st, node, "iter")
                    if r.elem is not None:
                        res = join(res, r.elem.add_dep(r.dep, r.mdep))
                    else:
                        res = join(res, Val(ty={"?"}, dep=r.dep))
            else:
                if v.elem is not None:
                    res = join(res, v.elem.add_dep(v.dep, v.mdep))
        self._grp_pop(res, other=bool(v.ty - {t for t in v.ty if t.startswith("inst:")}) or not v.insts())
        if res is not None and not (v.ty - {t for t in v.ty if t.startswith("inst:")}):
            return res
        if "range" in v.ty:
            res = join(res, mk_int().with_(dep=v.dep))
        if "str" in v.ty:
            res = join(res, mk_str().with_(dep=v.dep))
        e = v.iter_join()
        if e is not None:
            res = join(res, e.add_dep(v.dep, v.mdep))
        elif res is None or "?" in v.ty:
            res = join(res, Val(ty={"?"}, pts={("E", o) for o in v.pts}, dep=v.dep, mdep=v.mdep, kind=self.A.user_number().kind if "?" in v.ty else EMPTY))
        return res

    def subscript(self, base: Val, idx: Val, st, node) -> Val:
        if "slice" not in idx.ty or len(idx.ty) > 1:
            self.may_raise("KeyError" if base.ty and base.ty <= {"dict"} else "IndexError", node=node)
            if "dict" in base.ty and not base.ty <= {"dict"}:
                self.may_raise("KeyError", node=node)
        if not base.ty or base.ty & {"?", "None", "number", "int", "float"}:
            self.may_raise("TypeError", node=node)
        res = None
        callees, argl = [], []
        self._grp_push()
        for c in base.insts():
            ms = self.prog.lookup(c, "__getitem__")
            if ms:
                for m in ms:
                    r, bound = self.call_func(m, [self.recv_for(base, c), idx], {}, st, node, "subscript", record=False)
                    callees.append(m)
                    argl.append(bound)
                    res = join(res, r)
            else:
                # tuple subclass (ImmutableKnotVector)
                if "slice" in idx.ty:
                    res = join(res, self.fresh(node, {"tuple"}, elem=base.elem, dep=base.dep | idx.dep, mdep=base.mdep, kind={"N"}))
                if idx.ty - {"slice"} or not idx.ty:
                    e = base.elem if base.elem is not None else Val(ty={"number"}, kind=self.A.user_number().kind)
                    res = join(res, e.add_dep(base.dep | idx.dep, base.mdep))
        other = base.ty - {t for t in base.ty if t.startswith("inst:")}
        self._grp_pop(res, other=bool(other) or not callees)
        if callees:
            self.rec_call(node, callees, argl, "subscript", recv=base, ret=res)
        if not other and res is not None:
            return res
        d, m = base.dep | idx.dep, base.mdep | idx.mdep
        if base.dmap is not None and idx.const is not None:
            hits = [v for k, v in base.dmap if k in idx.const]
            if any(isinstance(c, tuple) and c and c[0] == "sym" for c in idx.const):
                hits = [v for _, v in base.dmap]  # "the parameter itself" is an unknown key: every entry is possible
            if hits:
                res = join(res, joinall(hits).add_dep(d, EMPTY))
                return res
        is_slice = "slice" in idx.ty or (idx.items is not None and any("slice" in i.ty for i in idx.items))
        if base.items is not None and idx.const is not None and all(isinstance(c, int) and not isinstance(c, bool) and -len(base.items) <= c < len(base.items) for c in idx.const) and not is_slice:
            return join(res, joinall(base.items[c] for c in idx.const).add_dep(d, base.mdep))
        if is_slice or "ndarray" in idx.ty or "list" in idx.ty:
            # sub-container: ndarray slices are views, list/tuple slices are fresh containers with aliased elements
            e = base.iter_join()
            if "ndarray" in base.ty:
                v = base.with_(dep=d, mdep=m)
                if idx.items is not None and e is not None and e.elem is not None:
                    v = join(v, e.add_dep(d, EMPTY))
                res = join(res, v)
            ot = (base.ty & {"list", "tuple", "str"}) or ({"tuple"} if not base.ty & {"ndarray"} else set())
            if ot:
                res = join(res, self.fresh(node, ot, elem=e, dep=d, mdep=m, kind={"N"}))
            if "?" in base.ty:
                res = join(res, Val(ty={"?"}, pts=base.pts, dep=d, mdep=m, elem=e))
            return res
        e = base.iter_join()
        if e is not None:
            v = e.add_dep(d, base.mdep)
            if "ndarray" in base.ty and e.elem is not None and (idx.items is not None or "tuple" in idx.ty):
                v = join(v, e.elem.add_dep(d, base.mdep))
            return join(res, v)
        if "str" in base.ty:
            return join(res, mk_str().with_(dep=d))
        return join(res, Val(ty={"?"}, pts={("E", o) for o in base.pts}, dep=d, mdep=m, kind=self.A.user_number().kind if base.is_unknown() else EMPTY))

    # ------------------------------------------------------------------ conditions
    def match_class(self, v: Val, tags: List[str]):
        """per type member of v: 'y' / 'n' / 'm' whether it is an instance of one of the class tags"""
        out = {}
        numtags = [t for t in tags if t in NUMERIC_TAGS]
        union = set().union(*[NUMERIC_TAGS[t] for t in numtags]) if numtags else set()
        for t in v.ty:
            best = "n"
            if self.A.exact and len(numtags) > 1 and (v.kind - {"N"}) and "U" not in v.kind and (t in ("number", "int", "float") or (t in ("?", "ndarray", "tuple", "list") and (t == "?" or v.ty & {"number", "int", "float"}))):
                # isinstance(x, (int, Fraction)): the classes together cover the union of their kinds
                k = set(v.kind) - {"N"}
                if k <= union:
                    out[t] = "y"
                    continue
            for tag in tags:
                r = self._match1(v, t, tag)
                if r == "y":
                    best = "y"
                    break
                if r == "m":
                    best = "m"
            out[t] = best
        if not v.ty:
            out["?"] = "m"
        return out

    def _match1(self, v: Val, t: str, tag: str) -> str:
        if t == "?" and tag in NUMERIC_TAGS and (v.kind - {"N"}) and "U" not in v.kind and ("N" not in v.kind or self.A.exact):
            t = "number"  # an untyped value known to be a number of these kinds (exact context: user data are exact numbers)
        if self.A.exact and tag in NUMERIC_TAGS and t in ("ndarray", "tuple", "list") and (v.ty & {"number", "int", "float"}) and (v.kind - {"N"}) and "U" not in v.kind:
            t = "number"  # cell-or-row ambiguity of array elements: in the exact context a knot / node / weight is a number
        if t == "?" or tag in ("cls:?", "cls:object"):
            return "m" if tag != "cls:object" else "y"
        c = tag[4:] if tag.startswith("cls:") else tag
        if t.startswith("inst:"):
            x = t[5:]
            if c in self.prog.classes:
                if self.prog.is_subclass(x, c):
                    return "y"
                if self.prog.is_subclass(c, x):
                    # the static type is a base class: if all its concrete subclasses are below c it is one of them
                    leaves = [y for y in self.prog.all_subclasses(x) if not self.prog.all_subclasses(y)]
                    return "y" if leaves and all(self.prog.is_subclass(y, c) for y in leaves) else "m"
                return "n"
            if c == "tuple" and self.prog.is_subclass(x, "ImmutableKnotVector"):
                return "y"
            return "n"
        if c in self.prog.classes:
            return "n"
        if t in ("number", "int", "float", "bool"):
            if tag in NUMERIC_TAGS and not self.A.exact:
                # number kinds steer branches only in the exact context; here a number may be of any class
                if t == "bool":
                    return "y" if c == "int" else "n"
                if t == "int" and c in ("float", "np.floating", "np.float64", "Fraction"):
                    return "n"
                if t == "float" and c in ("int", "np.integer", "np.int64", "Fraction"):
                    return "n"
                return "m"
            if tag in NUMERIC_TAGS:
                want = NUMERIC_TAGS[tag]
                k = set(v.kind) - {"N"}
                if t == "int":
                    k = k or {"I"}
                if t == "float":
                    k = k or {"F"}
                if t == "bool":
                    return "y" if c == "int" else "n"
                if not k:
                    return "m"
                if k <= want:
                    return "y" if "np." not in tag or True else "m"
                if not (k & (want | {"U"})):
                    return "n"
                return "m"
            return "n"
        same = {"tuple": "tuple", "list": "list", "set": "set", "dict": "dict", "str": "str", "slice": "slice", "None": "NoneType"}
        if t in same:
            return "y" if same[t] == c else "n"
        if t == "ndarray":
            return "y" if c in ("np.ndarray", "ndarray") else "n"
        if t.startswith("cls:"):
            return "y" if c == "type" else "n"
        return "n"

    def class_tags(self, e: ast.expr, st) -> Optional[List[str]]:
        if isinstance(e, ast.Tuple):
            out = []
            for x in e.elts:
                r = self.class_tags(x, st)
                if r is None:
                    return None
                out += r
            return out
        v = self.ctx.vals.get(nk(e))
        if v is None:
            v = self.ev(e, st)
        tags = [t for t in v.ty if t.startswith("cls:")]
        if len(tags) != len(v.ty) or not tags:
            return None
        # a class object designated by self.__class__ may be a subclass: keep as is
        return tags

    def truth(self, c: ast.expr, st) -> set:
        both = {True, False}
        if isinstance(c, ast.Constant):
            return {bool(c.value)}
        if isinstance(c, ast.UnaryOp) and isinstance(c.op, ast.Not):
            return {not x for x in self.truth(c.operand, st)}
        if isinstance(c, ast.BoolOp):
            rs = [self.truth(x, st) for x in c.values]
            if isinstance(c.op, ast.And):
                out = set()
                if all(True in r for r in rs):
                    out.add(True)
                if any(False in r for r in rs):
                    out.add(False)
                return out or both
            out = set()
            if any(True in r for r in rs):
                out.add(True)
            if all(False in r for r in rs):
                out.add(False)
            return out or both
        if isinstance(c, ast.Call) and isinstance(c.func, ast.Name) and c.func.id == "isinstance" and len(c.args) == 2:
            v = self.ctx.vals.get(nk(c.args[0]))
            if v is None:
                v = self.ev(c.args[0], st)
            tags = self.class_tags(c.args[1], st)
            if tags is None:
                return both
            m = self.match_class(v, tags)
            # self.__class__ as class argument: exact class unknown (may be a subclass)
            if any(isinstance(n, ast.Attribute) and n.attr == "__class__" for n in ast.walk(c.args[1])):
                m = {k: ("m" if x == "n" and k.startswith("inst:") and any(self.prog.is_subclass(t[4:], k[5:]) or self.prog.is_subclass(k[5:], t[4:]) for t in tags if t[4:] in self.prog.classes) else x) for k, x in m.items()}
            out = set()
            if any(x in ("y", "m") for x in m.values()):
                out.add(True)
            if any(x in ("n", "m") for x in m.values()):
                out.add(False)
            return out or both
        if isinstance(c, ast.Compare) and len(c.ops) == 1:
            op, l, r = c.ops[0], c.left, c.comparators[0]
            lv = self.ctx.vals.get(nk(l))
            rv = self.ctx.vals.get(nk(r))
            if lv is None:
                lv = self.ev(l, st)
            if rv is None:
                rv = self.ev(r, st)
            if isinstance(op, (ast.Is, ast.IsNot)):
                res = both
                if rv.ty == {"None"}:
                    if lv.ty == {"None"}:
                        res = {True}
                    elif lv.ty and "None" not in lv.ty and "?" not in lv.ty:
                        res = {False}
                elif rv.const is not None and len(rv.const) == 1 and lv.const is not None and all(isinstance(x, str) and x.startswith("cls:") for x in lv.const | rv.const):
                    rc = next(iter(rv.const))
                    if lv.const == {rc}:
                        res = {True}
                    elif rc not in lv.const:
                        res = {False}
                return res if isinstance(op, ast.Is) else {not x for x in res}
            if isinstance(op, (ast.In, ast.NotIn)):
                res = both
                if isinstance(r, (ast.Tuple, ast.List, ast.Set)) and lv.const is not None:
                    rc = set()
                    ok = True
                    for x in r.elts:
                        xv = self.ctx.vals.get(nk(x))
                        if xv is None or xv.const is None or len(xv.const) != 1:
                            ok = False
                            break
                        rc |= xv.const
                    if ok and lv.const:
                        if lv.const <= rc:
                            res = {True}
                        elif not (lv.const & rc):
                            res = {False}
                return res if isinstance(op, ast.In) else {not x for x in res}
            if isinstance(op, (ast.Eq, ast.NotEq, ast.Lt, ast.LtE, ast.Gt, ast.GtE)):
                if lv.const is not None and rv.const is not None and len(lv.const) == 1 and len(rv.const) == 1:
                    a, b = next(iter(lv.const)), next(iter(rv.const))
                    if type(a) in (int, str, float) and type(a) is type(b) or (isinstance(a, (int, float)) and isinstance(b, (int, float)) and not isinstance(a, bool) and not isinstance(b, bool)):
                        try:
                            val = {ast.Eq: a == b, ast.NotEq: a != b, ast.Lt: a < b, ast.LtE: a <= b, ast.Gt: a > b, ast.GtE: a >= b}[type(op)]
                            return {bool(val)}
                        except TypeError:
                            return both
                return both
            return both
        v = self.ctx.vals.get(nk(c))
        if v is None:
            v = self.ev(c, st)
        if v.ty == {"None"}:
            return {False}
        if v.const is not None and v.const and all(isinstance(x, (bool, int, str)) or x is None for x in v.const):
            return {bool(x) if not (isinstance(x, str) and x.startswith("cls:")) else True for x in v.const}
        if v.ty and all(t.startswith(("inst:", "func:", "bfunc:", "cls:", "lam:")) for t in v.ty) and not any(self.prog.lookup(c2, "__len__") or self.prog.lookup(c2, "__bool__") for c2 in v.insts()):
            return {True}
        return both

    def narrow(self, c: ast.expr, st, pol: bool):
        """refine the state under `c is pol`; returns None when infeasible"""
        if isinstance(c, ast.UnaryOp) and isinstance(c.op, ast.Not):
            return self.narrow(c.operand, st, not pol)
        if isinstance(c, ast.BoolOp):
            if (isinstance(c.op, ast.And) and pol) or (isinstance(c.op, ast.Or) and not pol):
                for x in c.values:
                    st = self.narrow(x, st, pol)
                    if st is None:
                        return None
                return st
            return st
        if isinstance(c, ast.Call) and isinstance(c.func, ast.Name) and c.func.id == "isinstance" and len(c.args) == 2:
            tgt = c.args[0]
            v = self.ctx.vals.get(nk(tgt))
            tags = self.class_tags(c.args[1], st)
            if v is None or tags is None:
                return st
            m = self.match_class(v, tags)
            dynamic = any(isinstance(n, ast.Attribute) and n.attr == "__class__" for n in ast.walk(c.args[1]))
            if pol:
                keep = {t for t, x in m.items() if x in ("y", "m")}
            else:
                keep = {t for t, x in m.items() if x in ("n", "m")}
            keep &= set(v.ty) | {"?"}
            nkind = v.kind
            numtags = [t for t in tags if t in NUMERIC_TAGS]
            if numtags and (v.kind - {"N"}) and self.A.exact:
                want = set().union(*[NUMERIC_TAGS[t] for t in numtags])
                k = set(v.kind)
                nkind = frozenset((k & (want | {"U", "N"})) if pol else (k - want))
                if not (nkind - {"N"}) and not (keep - {"number", "int", "float"}):
                    return None
            if pol and "?" in v.ty:
                ins = {"inst:" + t[4:] for t in tags if t[4:] in self.prog.classes}
                if ins:
                    keep = (keep - {"?"}) | ins
                elif tags and all(t in IMMUTABLE_BUILTIN_TAGS for t in tags):
                    # isinstance(x, int) holds: x is an immutable number / string / tuple, whatever it was declared as
                    keep = (keep - {"?"}) | {IMMUTABLE_BUILTIN_TAGS[t] for t in tags}
            if not keep and v.ty:
                return None
            nv = v.with_(ty=keep if keep else v.ty, kind=nkind)
            if isinstance(tgt, ast.Name) and tgt.id in st.env:
                st.env[tgt.id] = nv
            return st
        if isinstance(c, ast.Compare) and len(c.ops) == 1:
            op, l, r = c.ops[0], c.left, c.comparators[0]
            lv = self.ctx.vals.get(nk(l))
            rv = self.ctx.vals.get(nk(r))
            if lv is None or rv is None:
                return st
            if isinstance(op, (ast.In, ast.NotIn, ast.Is, ast.IsNot)) and not isinstance(l, ast.Name):
                # the left operand is not a name that could be narrowed (`number_type(m) in (int, Fraction)`): a test whose
                # outcome is known makes the other branch infeasible all the same
                tv = self.truth(c, st)
                if tv == {True} and not pol or tv == {False} and pol:
                    return None
            if lv.const is not None and any(isinstance(c_, tuple) for c_ in lv.const):
                # symbolic constant (a parameter's own value): nothing is known about the value
                if isinstance(op, ast.Eq) and pol and isinstance(l, ast.Name) and l.id in st.env and rv.const is not None and len(rv.const) == 1 and not any(isinstance(c_, tuple) for c_ in rv.const):
                    st.env[l.id] = lv.with_(const=rv.const)
                return st
            if rv.const is not None and any(isinstance(c_, tuple) for c_ in rv.const):
                return st
            if isinstance(op, (ast.Is, ast.IsNot)):
                same = pol if isinstance(op, ast.Is) else not pol
                # type(a) is type(b)
                if isinstance(l, ast.Call) and isinstance(r, ast.Call) and all(isinstance(x.func, ast.Name) and x.func.id == "type" and len(x.args) == 1 for x in (l, r)):
                    if same:
                        a, b = l.args[0], r.args[0]
                        av, bv = self.ctx.vals.get(nk(a)), self.ctx.vals.get(nk(b))
                        if av is not None and bv is not None:
                            if isinstance(b, ast.Name) and b.id in st.env and ("?" in bv.ty or not bv.ty) and av.insts():
                                st.env[b.id] = bv.with_(ty={t for t in av.ty if t.startswith("inst:")})
                            elif isinstance(a, ast.Name) and a.id in st.env and ("?" in av.ty or not av.ty) and bv.insts():
                                st.env[a.id] = av.with_(ty={t for t in bv.ty if t.startswith("inst:")})
                    return st
                if rv.ty == {"None"} and isinstance(l, ast.Name) and l.id in st.env:
                    if same:
                        if lv.ty and "None" not in lv.ty and "?" not in lv.ty:
                            return None
                        st.env[l.id] = NONE.with_(dep=lv.dep, mdep=lv.mdep)
                    else:
                        if lv.ty == {"None"}:
                            return None
                        st.env[l.id] = lv.with_(ty=lv.ty - {"None"}, const=None if lv.const is None else (lv.const - {None}) or None)
                    return st
                if isinstance(l, ast.Name) and l.id in st.env and lv.const is not None and rv.const is not None and len(rv.const) == 1:
                    if same:
                        nc = lv.const & rv.const
                        if not nc:
                            return None
                        st.env[l.id] = lv.with_(const=nc, ty={t for t in lv.ty if t in nc} or lv.ty)
                    else:
                        nc = lv.const - rv.const
                        if not nc:
                            return None
                        st.env[l.id] = lv.with_(const=nc, ty={t for t in lv.ty if t in nc or not t.startswith("cls:")} or lv.ty)
                return st
            if isinstance(op, (ast.In, ast.NotIn)) and isinstance(r, (ast.Tuple, ast.List, ast.Set)) and isinstance(l, ast.Name) and l.id in st.env and lv.const is not None:
                rc = set()
                for x in r.elts:
                    xv = self.ctx.vals.get(nk(x))
                    if xv is None or xv.const is None:
                        return st
                    rc |= xv.const
                inside = pol if isinstance(op, ast.In) else not pol
                nc = (lv.const & rc) if inside else (lv.const - rc)
                if not nc:
                    return None
                st.env[l.id] = lv.with_(const=nc, ty={t for t in lv.ty if t in nc or not t.startswith("cls:")} or lv.ty)
                return st
            if isinstance(op, (ast.Eq, ast.NotEq)) and isinstance(l, ast.Name) and l.id in st.env and lv.const is not None and rv.const is not None and len(rv.const) == 1:
                eq = pol if isinstance(op, ast.Eq) else not pol
                nc = (lv.const & rv.const) if eq else (lv.const - rv.const)
                if not nc:
                    return None
                st.env[l.id] = lv.with_(const=nc)
                return st
            return st
        if isinstance(c, ast.Name) and c.id in st.env:
            v = st.env[c.id]
            if pol:
                if v.ty == {"None"}:
                    return None
                if "None" in v.ty:
                    st.env[c.id] = v.with_(ty=v.ty - {"None"}, const=None if v.const is None else (v.const - {None}) or None)
            return st
        return st
