"""Models of builtin functions, numpy/math functions and methods of builtin types (mixin of FuncInterp)."""
from __future__ import annotations

import ast
from typing import Dict, List, Optional

from .models import MUT_NAMES, NP_BOOL, NP_COMBINE, NP_FLOAT, NP_INT, NP_REDUCE, NP_STACK, NP_VIEW, scal_kind
from .interp_keys import nk
from .vals import EMPTY, NONE, UNKNOWN, Val, join, joinall, mk_bool, mk_int, mk_str


def _deps(vals):
    d = set()
    m = set()
    for v in vals:
        if v is not None:
            d |= v.all_dep()
            m |= v.mdep
    return frozenset(d), frozenset(m)


class CallModelsMixin:
    def _conv_raises(self, pos, node):
        """float(x) / int(x): TypeError for non-numbers, ValueError for strings"""
        for p in pos:
            if (not p.ty) or (p.ty - {"int", "float", "number", "bool"}):
                self.may_raise("TypeError", node=node)
            if "str" in p.ty or "?" in p.ty or not p.ty:
                self.may_raise("ValueError", node=node)

    def _int_of(self, pos, node, d, m) -> Val:
        """int(x): a library integer — unless x is a float the library itself introduced (kind L: the
        truncation hides a rounding error, e.g. a binomial coefficient computed in floats)"""
        if pos and self.A.exact:
            fs = frozenset(f for f in pos[0].all_fsrc() if not isinstance(f, tuple))
            if "F" in pos[0].all_kinds() and fs:
                return Val(ty={"int"}, kind={"L"}, fsrc=frozenset({f"{self.loc(node)}: int(...) of a float from [{sorted(map(str, fs))[0]}]"}), dep=d, mdep=m)
        if pos and "L" in pos[0].all_kinds():
            return Val(ty={"int"}, kind={"L"}, fsrc=frozenset(f for f in pos[0].all_fsrc() if not isinstance(f, tuple)), dep=d, mdep=m)
        return Val(ty={"int"}, kind={"I"}, dep=d, mdep=m)

    def unknown_result(self, node, vals, tag="ucall") -> Val:
        d, m = _deps(vals)
        return Val(ty={"?"}, pts={("N", self.site(node, tag))}, dep=d, mdep=m)

    def nd(self, node, kind, dep=EMPTY, mdep=EMPTY, fsrc=EMPTY, objelem: Optional[Val] = None, tag="") -> Val:
        """a fresh ndarray whose numeric cells have the given kind"""
        kind = frozenset(kind)
        if "F" not in kind and "L" not in kind:
            fsrc = EMPTY
        cell = Val(ty={"number"}, kind=kind, fsrc=fsrc, dep=dep)
        if objelem is not None:
            cell = join(cell, objelem.with_(dep=objelem.dep | dep))
        row = Val(ty={"number", "ndarray"} | cell.ty, kind=kind, fsrc=fsrc, dep=dep, elem=cell, pts=cell.pts)
        return self.fresh(node, {"ndarray"}, tag, dep=dep, mdep=mdep, elem=row, kind={"N"})

    def obj_elem(self, v: Val, depth=0) -> Optional[Val]:
        """non-numeric element objects possibly contained (user points)"""
        e = v.iter_join()
        if e is None:
            return None
        inner = self.obj_elem(e, depth + 1) if depth < 2 else None
        if "?" in e.ty or any(t.startswith("inst:") for t in e.ty):
            r = e.with_(elem=None, items=None)
            return join(r, inner)
        return inner

    # ------------------------------------------------------------------ constructors of builtin classes
    def builtin_construct(self, cname: str, pos, kw, st, node) -> Val:
        d, m = _deps(pos + list(kw.values()))
        if cname in ("int", "np.int64", "np.integer"):
            self._conv_raises(pos, node)
            return self._int_of(pos, node, d, m)
        if cname in ("float", "np.float64", "np.floating"):
            self._conv_raises(pos, node)
            return Val(ty={"float"}, kind={"F"}, fsrc=self.new_float(node, f"{cname}(...) used as a value"), dep=d, mdep=m)
        if cname == "Fraction":
            if any((not p.ty) or (p.ty - {"int", "number", "bool"}) for p in pos):
                self.may_raise("TypeError", "ValueError", node=node)
            if len(pos) > 1:
                self.may_raise("ZeroDivisionError", node=node)
            if any("L" in p.all_kinds() for p in pos):
                return Val(ty={"number"}, kind={"L"}, fsrc=frozenset(f for p in pos for f in p.all_fsrc() if not isinstance(f, tuple)), dep=d, mdep=m)
            return Val(ty={"number"}, kind={"Q"}, dep=d, mdep=m)
        if cname == "str":
            return mk_str().with_(dep=d)
        if cname == "bool":
            return mk_bool().with_(dep=d)
        if cname in ("tuple", "list", "set", "frozenset"):
            ty = "set" if cname == "frozenset" else cname
            if not pos:
                return self.fresh(node, {ty}, kind={"N"}, items=() if ty == "tuple" else None)
            x = pos[0]
            el = self.iter_elem(x, st, node)
            items = x.items if (ty == "tuple" and x.items is not None and not x.insts()) else None
            return self.fresh(node, {ty}, elem=el, items=items, dep=x.dep, mdep=x.mdep, kind={"N"})
        if cname == "dict":
            return self.fresh(node, {"dict"}, elem=joinall([p.iter_join() for p in pos if p.iter_join() is not None] + list(kw.values())), dep=d, kind={"N"})
        if cname == "slice":
            return Val(ty={"slice"}, dep=d, kind={"N"})
        if cname in ("exc",) or cname.endswith("Error") or cname in ("Exception", "BaseException"):
            return Val(ty={"exc"}, dep=d, kind={"N"})
        if cname == "type":
            return self.builtin_call("type", pos, kw, st, node)
        if cname == "object":
            return self.fresh(node, {"?"})
        if cname == "?":
            # unknown number class (cls parameter, type(weights[0])): a user number
            return Val(ty={"number"}, kind=self.A.user_number().kind, dep=d, mdep=m)
        return self.unknown_result(node, pos)

    # ------------------------------------------------------------------ builtin functions
    def builtin_call(self, name: str, pos, kw, st, node) -> Val:
        d, m = _deps(pos + list(kw.values()))
        a0 = pos[0] if pos else None
        if name == "len":
            return mk_int().with_(dep=d, mdep=m)
        if name == "range":
            return Val(ty={"range"}, elem=mk_int().with_(dep=d), dep=d, mdep=m, kind={"N"})
        if name == "enumerate":
            el = self.iter_elem(a0, st, node) if a0 is not None else UNKNOWN
            return Val(ty={"iter"}, elem=Val(ty={"tuple"}, items=(mk_int().with_(dep=a0.dep if a0 else EMPTY), el), elem=el, kind={"N"}), dep=d, mdep=m, kind={"N"})
        if name == "zip":
            els = [self.iter_elem(p, st, node) for p in pos]
            return Val(ty={"iter"}, elem=Val(ty={"tuple"}, items=tuple(els), elem=joinall(els), kind={"N"}), dep=d, mdep=m, kind={"N"})
        if name in ("sorted", "reversed"):
            if a0 is None:
                return UNKNOWN
            el = self.iter_elem(a0, st, node)
            return self.fresh(node, {"list"} if name == "sorted" else {"iter"}, elem=el, dep=d, mdep=m, kind={"N"})
        if name == "map":
            if len(pos) >= 2:
                els = [self.iter_elem(p, st, node) for p in pos[1:]]
                r = self.call_value(pos[0], els, {}, st, node)
                return Val(ty={"iter"}, elem=r, dep=d | r.dep, mdep=m, kind={"N"})
            return UNKNOWN
        if name == "filter":
            return Val(ty={"iter"}, elem=self.iter_elem(pos[1], st, node) if len(pos) > 1 else None, dep=d, kind={"N"})
        if name in ("iter",):
            if a0 is None:
                return UNKNOWN
            return Val(ty={"iter"}, elem=self.iter_elem(a0, st, node), dep=d, mdep=m, kind={"N"})
        if name == "next":
            return self.iter_elem(a0, st, node) if a0 is not None else UNKNOWN
        if name in ("isinstance", "issubclass", "callable", "hasattr", "any", "all"):
            return mk_bool().with_(dep=d, mdep=m)
        if name == "type":
            if a0 is None:
                return UNKNOWN
            tys = {"cls:" + c for c in a0.insts()}
            if a0.ty - {t for t in a0.ty if t.startswith("inst:")} or not a0.ty:
                tys.add("cls:?")
            return Val(ty=tys, dep=d, mdep=m, kind={"N"})
        if name == "float":
            self._conv_raises(pos, node)
            return Val(ty={"float"}, kind={"F"}, fsrc=self.new_float(node, "float(...) used as a value"), dep=d, mdep=m)
        if name == "int":
            self._conv_raises(pos, node)
            return self._int_of(pos, node, d, m)
        if name in ("str", "repr", "format", "chr"):
            return mk_str().with_(dep=d)
        if name in ("abs", "round"):
            if a0 is None:
                return UNKNOWN
            if (not a0.ty) or (a0.ty - {"int", "float", "number", "bool", "ndarray"}):
                self.may_raise("TypeError", node=node)
            if "ndarray" in a0.ty or a0.is_unknown():
                r = self.arith_result([a0], node)
                return r
            return a0.with_(pts=EMPTY, const=None, dep=d, mdep=m)
        if name in ("max", "min", "sum"):
            self.may_raise("TypeError", node=node)
            if name != "sum":
                self.may_raise("ValueError", node=node)
            ops = []
            for p in pos:
                e = p.iter_join()
                if e is not None and not (p.ty <= {"int", "float", "number"}) and p.ty:
                    ops.append(e.add_dep(p.dep, p.mdep))
                else:
                    ops.append(p)
            if not ops:
                return UNKNOWN
            if name == "sum":
                ks = [scal_kind(o) for o in ops]
                # sum of booleans / generator of comparisons is a count
                if all(o.ty <= {"bool"} and o.ty for o in ops):
                    return mk_int().with_(dep=d, mdep=m)
            r = self.arith_result(ops, node)
            if all(o.ty and o.ty <= {"int", "bool"} for o in ops):
                r = r.with_(ty={"int"})
            return r.add_dep(d, m)
        if name == "super":
            cn = self.fi.clsname
            if pos and pos[0].ty:
                for t in pos[0].ty:
                    if t.startswith("cls:"):
                        cn = t[4:]
            return Val(ty={"super:" + (cn or "?")}, kind={"N"})
        if name in ("copy", "deepcopy"):
            return self.copy_model(a0, st, node, deep=(name == "deepcopy"))
        if name in ("print",):
            return NONE
        if name in ("divmod",):
            return Val(ty={"tuple"}, elem=self.arith_result(pos, node), dep=d, kind={"N"})
        if name in ("pow",):
            return self.arith_result(pos, node)
        if name in ("id", "hash", "ord"):
            return mk_int().with_(dep=d)
        if name in ("getattr",):
            self.may_raise("AttributeError", node=node)
            return self.unknown_result(node, pos)
        if name.startswith("super.") or name.startswith("object."):
            attr = name.split(".", 1)[1]
            if attr == "__new__":
                # object.__new__(cls) / tuple.__new__(cls, iterable): a fresh instance of cls
                tys = set()
                for t in (a0.ty if a0 is not None else ()):
                    if t.startswith("cls:") and t[4:] in self.prog.classes:
                        tys.add("inst:" + t[4:])
                    else:
                        tys.add("?")
                el = None
                if len(pos) > 1:
                    el = self.iter_elem(pos[1], st, node)
                dd = pos[1].dep if len(pos) > 1 else EMPTY
                mm = pos[1].mdep if len(pos) > 1 else EMPTY
                tag = "new"
                insts = sorted(t for t in tys if t.startswith("inst:"))
                if len(insts) == 1:
                    tag = "obj:" + insts[0][5:]
                return self.fresh(node, tys or {"?"}, tag, elem=el, dep=dd, mdep=mm, kind={"N"})
            if attr == "__init__":
                return NONE
            return self.unknown_result(node, pos)
        return self.unknown_result(node, pos)

    def copy_model(self, x: Optional[Val], st, node, deep: bool) -> Val:
        if x is None:
            return UNKNOWN
        res = None
        callees, argl = [], []
        dn = "__deepcopy__" if deep else "__copy__"
        self._grp_push()
        for c in x.insts():
            ms = self.prog.lookup(c, dn)
            for mth in ms:
                args = [self.recv_for(x, c)] + ([NONE] if deep else [])
                r, bound = self.call_func(mth, args, {}, st, node, "copy", record=False)
                callees.append(mth)
                argl.append(bound)
                res = join(res, r)
            if not ms:
                res = join(res, self.fresh(node, {"inst:" + c}, "copy", dep=x.dep, mdep=x.mdep))
        other = x.ty - {t for t in x.ty if t.startswith("inst:")}
        self._grp_pop(res, other=bool(other) or not x.ty)
        if callees:
            self.rec_call(node, callees, argl, "copy", recv=x, ret=res)
        if other or not x.ty:
            imm = {"int", "float", "number", "bool", "str", "None"}
            if other and other <= imm:
                res = join(res, x.with_(ty=other))
            else:
                def fresh_elems(e: Optional[Val], d=0) -> Optional[Val]:
                    if e is None:
                        return None
                    return e.with_(pts={("N", self.site(node, f"cpel{d}"))} if e.pts else EMPTY, elem=fresh_elems(e.elem, d + 1) if d < 2 else None, items=None)

                el = x.iter_join()
                # a shallow copy of a builtin container is a new container holding the SAME element objects (and copy() of a tuple is
                # the tuple itself); only deepcopy, or copy() of something that is not a builtin container (a user point, an ndarray),
                # gives independent contents
                shares = (not deep) and bool(other - {"None"}) and other <= {"tuple", "list", "set", "dict", "None"}
                v = Val(ty=other or {"?"}, pts={("N", self.site(node, "copy"))}, dep=x.dep, mdep=x.mdep, kind=x.kind, fsrc=x.fsrc, elem=el if shares else fresh_elems(el))
                # assumption: copy() of a user point object yields an independent object
                res = join(res, v)
        return res

    # ------------------------------------------------------------------ numpy / math
    def dtype_kind(self, kw, pos_dtype: Optional[Val], node, default):
        """(kinds, fsrc, fixed_width_note) for a dtype= argument"""
        dv = kw.get("dtype", pos_dtype)
        if dv is None:
            return default
        if dv.const is None or not dv.const:
            return frozenset({"U"}), EMPTY
        ks, fs = set(), set()
        for c in dv.const:
            if c in ("object", "cls:object", "O"):
                ks.add("obj")
            elif c in ("cls:Fraction",):
                ks.add("obj")
            elif c in ("float64", "float", "cls:float", "cls:np.float64", "f8", "float32", "cls:np.floating"):
                ks.add("F")
                fs.add(f"{self.loc(node)}: dtype={c!r}")
            elif c in ("int64", "int", "cls:int", "cls:np.int64", "int32", "i8"):
                ks.add("I")
                self.A.notes.append(("fixed-width", self.fi.qual, self.loc(node), ast.unparse(node)[:80]))
            else:
                ks.add("U")
        return frozenset(ks), frozenset(fs)

    def _fixed_width_seq(self, ops, node):
        """exact context: numpy builds a fixed-width (int64 / uint64 / float64) array from a Python sequence that holds only
        integers computed from the user's data — arbitrary-precision integers beyond 2**63 are rounded or overflow"""
        if not self.A.exact:
            return
        for o in ops:
            ks = scal_kind(o)
            if ks and ks <= {"I", "Z"} and "ndarray" not in o.ty and (o.ty & {"tuple", "list"}) and any(d[0] in ("P", "PF") for d in o.all_dep()):
                self.A.notes.append(("fixed-width", self.fi.qual, self.loc(node), ast.unparse(node)[:80]))
                return

    def ext_call(self, dotted: str, pos, kw, st, node) -> Val:
        d, m = _deps(pos + list(kw.values()))
        parts = dotted.split(".")
        head, name = parts[0], parts[-1]
        a0 = pos[0] if pos else None
        self.may_raise("ValueError", "TypeError", node=node)
        if head == "math":
            if name in ("comb", "factorial", "gcd", "lcm", "isqrt", "floor", "ceil", "trunc", "perm"):
                return mk_int().with_(dep=d, mdep=m)
            if name == "prod" and a0 is not None:
                # the product of what it is given: integers stay integers, Fractions stay Fractions
                ks = scal_kind(a0) or frozenset({"I"})
                if "F" not in ks:
                    return Val(ty={"int"} if ks <= {"I", "Z"} else {"number"}, kind=ks, dep=d, mdep=m)
            if name in ("isfinite", "isnan", "isclose", "isinf"):
                return mk_bool().with_(dep=d)
            return Val(ty={"float"}, kind={"F"}, fsrc=self.new_float(node, f"math.{name}(...)"), dep=d, mdep=m)
        if head == "copy" and name in ("copy", "deepcopy"):
            return self.copy_model(a0, st, node, deep=name == "deepcopy")
        if head != "np":
            return self.unknown_result(node, pos)
        sub = parts[1:-1]
        if sub and sub[0] == "linalg":
            self.may_raise("LinAlgError", node=node)
        if sub and sub[0] in ("linalg", "polynomial", "fft"):
            fs = self.new_float(node, f"np.{'.'.join(parts[1:])}(...)")
            if name == "leggauss":
                a = self.nd(node, {"F"}, d, m, fs, tag="lg0")
                b = self.nd(node, {"F"}, d, m, fs, tag="lg1")
                return self.fresh(node, {"tuple"}, "lg", items=(a, b), elem=join(a, b), dep=d, kind={"N"})
            if name in ("norm", "det", "cond", "matrix_rank"):
                return Val(ty={"float"}, kind={"F"}, fsrc=fs, dep=d, mdep=m)
            return self.nd(node, {"F"}, d, m, fs)
        if sub and name in ("reduce", "accumulate", "outer", "reduceat") and sub[-1] in ("lcm", "gcd", "add", "multiply", "subtract", "maximum", "minimum", "bitwise_or", "bitwise_and", "floor_divide", "remainder", "power"):
            # np.<ufunc>.reduce(sequence): the sequence becomes a fixed-width array first
            if "dtype" not in kw:
                self._fixed_width_seq(pos[:1], node)
            ks = scal_kind(a0) if a0 is not None else EMPTY
            r_ = self.nd(node, ks, d, m, a0.all_fsrc() if a0 is not None else EMPTY)
            return join(r_, r_.elem.elem.with_(dep=d, mdep=m)) if name == "reduce" else r_
        if sub and sub[0] == "random":
            if name in ("randint", "choice", "permutation"):
                return self.nd(node, {"I"}, d, m)
            return self.nd(node, {"F"}, d, m, self.new_float(node, f"np.random.{name}"))
        if name in ("array", "asarray", "asanyarray", "fromiter", "copy"):
            if a0 is None:
                return UNKNOWN
            ks = scal_kind(a0)
            fsrc = a0.all_fsrc()
            dk = self.dtype_kind(kw, pos[1] if len(pos) > 1 else None, node, None)
            if dk is None and name in ("array", "asarray", "asanyarray"):
                self._fixed_width_seq([a0], node)
            if dk is not None:
                kk, fs2 = dk
                if "F" in kk:
                    ks, fsrc = frozenset({"F"}), fs2
                elif "I" in kk and "obj" not in kk:
                    ks = frozenset({"I"})
                elif "U" in kk:
                    ks = ks | {"U"}
            oe = self.obj_elem(a0)
            r = self.nd(node, ks, a0.all_dep(), a0.mdep, fsrc, objelem=oe)
            if name in ("asarray", "asanyarray"):
                r = r.with_(pts=r.pts | a0.pts)
            return r
        if name in ("zeros", "ones", "eye", "empty", "identity", "full", "zeros_like", "ones_like", "empty_like"):
            default = (frozenset({"F"}), self.new_float(node, f"np.{name}(...) without dtype=\"object\""))
            if name.endswith("_like") and a0 is not None:
                default = (scal_kind(a0), a0.all_fsrc())
            kk, fs = self.dtype_kind(kw, pos[1] if len(pos) > 1 and name not in ("full",) else None, node, default)
            ks = set()
            for k in kk:
                if k == "obj":
                    ks.add("N" if name in ("empty", "empty_like") else "I")
                else:
                    ks.add(k)
            if name == "full" and len(pos) > 1:
                ks = set(scal_kind(pos[1])) or ks
            sd = pos[0].all_dep() if pos else EMPTY
            return self.nd(node, ks - {"N"} or ({"I"} if "N" in ks and False else ks - {"N"}), sd, EMPTY, fs)
        if name in NP_VIEW:
            if a0 is None:
                return UNKNOWN
            if "ndarray" in a0.ty and a0.ty <= {"ndarray"}:
                return a0.with_(dep=a0.dep | d)
            oe = self.obj_elem(a0)
            r = self.nd(node, scal_kind(a0), a0.all_dep() | d, a0.mdep, a0.all_fsrc(), objelem=oe)
            return r.with_(pts=r.pts | (a0.pts if a0.ty & {"ndarray", "?"} else EMPTY))
        if name in NP_COMBINE:
            ops = [p for p in pos if not (p.ty <= {"int"} and name in ("tensordot",) and p is not pos[0] and p is not pos[1])]
            ops = pos[:2] if name in ("tensordot", "dot", "matmul", "inner", "outer", "cross", "kron") else pos
            ks, fs = self.kind_combine([scal_kind(o) for o in ops], node, ast.Div() if name == "divide" else None)
            fsrc = frozenset().union(*[o.all_fsrc() for o in ops]) | fs
            oe = joinall([self.obj_elem(o) for o in ops if self.obj_elem(o) is not None])
            if oe is not None:
                oe = oe.with_(pts={("N", self.site(node, "npobj"))}, kind=ks, dep=d)
            r = self.nd(node, ks, d, m, fsrc, objelem=oe)
            # a product of vectors may be a scalar
            cell = r.elem.elem
            return join(r, cell.with_(dep=d, mdep=m)) if name in ("dot", "inner", "tensordot", "matmul") else r
        if name in NP_REDUCE:
            if a0 is None:
                return UNKNOWN
            ks = scal_kind(a0)
            oe = self.obj_elem(a0)
            r = self.nd(node, ks, d, m, a0.all_fsrc(), objelem=oe)
            cell = r.elem.elem
            return join(r, cell.with_(dep=d, mdep=m))
        if name in NP_STACK:
            ops = []
            for p in pos:
                if p.items is not None:
                    ops += list(p.items)
                else:
                    ops.append(p)
            if "dtype" not in kw:
                self._fixed_width_seq(ops, node)
            ks = frozenset().union(*[scal_kind(o) for o in ops]) if ops else EMPTY
            fsrc = frozenset().union(*[o.all_fsrc() for o in ops]) if ops else EMPTY
            oe = joinall([self.obj_elem(o) for o in ops if self.obj_elem(o) is not None])
            return self.nd(node, ks, d, m, fsrc, objelem=oe)
        if name in NP_BOOL:
            return Val(ty={"bool", "ndarray"}, dep=d, mdep=m, kind={"N"})
        if name in NP_INT:
            r = self.nd(node, {"I"}, d, m)
            if name == "where":
                return self.fresh(node, {"tuple"}, "where", elem=r, dep=d, kind={"N"})
            return join(r, mk_int().with_(dep=d))
        if name in NP_FLOAT:
            fs = self.new_float(node, f"np.{name}(...)")
            r = self.nd(node, {"F"}, d, m, fs)
            return join(r, Val(ty={"float"}, kind={"F"}, fsrc=fs, dep=d, mdep=m))
        return self.unknown_result(node, pos)

    # ------------------------------------------------------------------ methods of builtin types
    def method_call(self, recv: Val, name: str, pos, kw, st, node) -> Val:
        d, m = _deps([recv] + pos + list(kw.values()))
        ty = recv.ty
        a0 = pos[0] if pos else None
        unknown = "?" in ty or not ty
        if name in ("remove", "index"):
            self.may_raise("ValueError", node=node)
        if name in ("pop", "popitem"):
            self.may_raise("IndexError", "KeyError", node=node)
        if unknown:
            self.may_raise("*", node=node)
        if name in MUT_NAMES and (ty & {"list", "set", "dict", "ndarray"} or unknown):
            self.mutate(recv.pts, node, f".{name}()")
            pd, _pm = st.pc_dep()
            self.taint_container(recv, frozenset().union(*[p.all_dep() for p in pos]) | pd if pos else pd, st)
            if name in ("append", "add", "insert") and pos:
                self.update_elem(recv, pos[-1], st)
                return NONE
            if name in ("extend", "update") and a0 is not None:
                self.update_elem(recv, self.iter_elem(a0, st, node), st)
                return NONE
            if name == "fill" and a0 is not None:
                self.update_elem(recv, a0, st)
                return NONE
            if name in ("pop", "popitem"):
                e = recv.iter_join()
                return e.add_dep(d, EMPTY) if e is not None else self.unknown_result(node, [recv])
            return NONE
        if name in ("index", "count", "find", "rfind", "bit_length", "__len__"):
            return mk_int().with_(dep=d, mdep=m)
        if name in ("join", "format", "strip", "lower", "upper", "replace", "lstrip", "rstrip", "split", "startswith", "endswith"):
            return mk_str().with_(dep=d) if name not in ("startswith", "endswith") else mk_bool().with_(dep=d)
        if name == "tolist":
            def conv(e: Optional[Val], dd=0) -> Optional[Val]:
                if e is None:
                    return None
                if "ndarray" in e.ty and dd < 2:
                    return self.fresh(node, {"list"} | (e.ty - {"ndarray"}), f"tl{dd}", elem=conv(e.elem, dd + 1), kind=e.kind, fsrc=e.fsrc, dep=e.dep)
                return e

            return self.fresh(node, {"list"}, "tolist", elem=conv(recv.elem), dep=d, mdep=m, kind={"N"})
        if name == "astype":
            kk, fs = self.dtype_kind({}, a0, node, (frozenset({"U"}), EMPTY))
            ks = set()
            for k in kk:
                ks.add("I" if k == "obj" and False else (k if k != "obj" else "U"))
            if "U" in ks:
                ks = (ks - {"U"}) | set(scal_kind(recv))
            return self.nd(node, ks, d, m, fs | (recv.all_fsrc() if "F" in ks else EMPTY), objelem=None)
        if name in ("copy",):
            return self.copy_model(recv, st, node, deep=False)
        if name in ("transpose", "reshape", "ravel", "flatten", "squeeze", "view", "swapaxes"):
            return recv if name != "flatten" else self.nd(node, scal_kind(recv), d, m, recv.all_fsrc(), objelem=self.obj_elem(recv))
        if name in ("dot", "sum", "max", "min", "prod", "cumsum", "mean", "conjugate", "round", "clip", "diagonal", "trace"):
            ks, fs = self.kind_combine([scal_kind(recv)] + [scal_kind(p) for p in pos if name == "dot"], node)
            if name == "mean":
                ks, fs = frozenset({"F"}), self.new_float(node, ".mean()")
            r = self.nd(node, ks, d, m, recv.all_fsrc() | fs, objelem=self.obj_elem(recv))
            return join(r, r.elem.elem.with_(dep=d, mdep=m))
        if name in ("all", "any", "is_integer", "isdisjoint", "issubset", "issuperset", "__eq__", "__ne__", "__contains__"):
            return mk_bool().with_(dep=d, mdep=m)
        if name in ("keys", "values", "items", "get"):
            e = recv.iter_join()
            if name == "get":
                return join(e, a0 if len(pos) < 2 else pos[1]) if e is not None else UNKNOWN
            return Val(ty={"iter"}, elem=e, dep=d, kind={"N"})
        if name in ("union", "intersection", "difference", "symmetric_difference"):
            return self.fresh(node, {"set"}, elem=join(recv.iter_join(), a0.iter_join() if a0 is not None else None), dep=d, mdep=m, kind={"N"})
        if name in ("limit_denominator", "as_integer_ratio", "conjugate", "__abs__", "__neg__", "__float__"):
            return recv.with_(pts=EMPTY, dep=d)
        if name in ("__iadd__", "__isub__", "__imul__", "__itruediv__", "__ior__", "__iand__") and (unknown or ty & {"list", "set", "ndarray"}):
            self.mutate(recv.pts, node, f".{name}()")
            return recv
        if name == "__deepcopy__" or name == "__copy__":
            return self.copy_model(recv, st, node, deep=name == "__deepcopy__")
        if name == "__class__":
            return self.builtin_call("type", [recv], {}, st, node)
        # unknown method on unknown receiver: user code, assumed pure
        r = self.unknown_result(node, [recv] + pos, "umeth")
        return r.with_(kind=self.A.user_number().kind if unknown else EMPTY)
