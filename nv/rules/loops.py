"""E9 — structural classification of loops and recursive cycles."""
from __future__ import annotations

import ast
from typing import List, Optional, Tuple

from ..interp import Ctx
from .common import seg


class LoopInfo:
    def __init__(self, fi, node: ast.While, cls: str, why: str, bounded: Optional[bool] = None):
        self.fi, self.node, self.cls, self.why, self.bounded = fi, node, cls, why, bounded

    def __repr__(self):
        return f"<{self.fi.qual}:{self.node.lineno} {self.cls} {self.why}>"


def _names(e) -> set:
    return {n.id for n in ast.walk(e) if isinstance(n, ast.Name)}


def _assigned(stmts) -> set:
    out = set()
    for s in stmts:
        for n in ast.walk(s):
            if isinstance(n, (ast.Assign,)):
                for t in n.targets:
                    out |= {x.id for x in ast.walk(t) if isinstance(x, ast.Name) and isinstance(x.ctx, ast.Store)}
            elif isinstance(n, (ast.AugAssign, ast.AnnAssign)):
                out |= {x.id for x in ast.walk(n.target) if isinstance(x, ast.Name)}
            elif isinstance(n, ast.For):
                out |= {x.id for x in ast.walk(n.target) if isinstance(x, ast.Name)}
    return out


def const_steps(body) -> dict:
    """names stepped by a constant (`i += 1`, `i = i + 1`) at the top level of the loop body on every pass"""
    out = {}
    for s in body:
        if isinstance(s, ast.AugAssign) and isinstance(s.target, ast.Name) and isinstance(s.op, (ast.Add, ast.Sub)) and isinstance(s.value, ast.Constant) and isinstance(s.value.value, int) and s.value.value != 0:
            out[s.target.id] = s
    return out


def exits_of(loop: ast.While) -> List[ast.stmt]:
    """return / break / raise statements inside the loop body that leave the loop"""
    out = []

    def walk(stmts, depth):
        for s in stmts:
            if isinstance(s, (ast.Return, ast.Raise)):
                out.append(s)
            elif isinstance(s, ast.Break) and depth == 0:
                out.append(s)
            elif isinstance(s, (ast.If,)):
                walk(s.body, depth)
                walk(s.orelse, depth)
            elif isinstance(s, (ast.For, ast.While)):
                walk(s.body, depth + 1)
                walk(s.orelse, depth)
            elif isinstance(s, ast.Try):
                walk(s.body, depth)
                for h in s.handlers:
                    walk(h.body, depth)
                walk(s.orelse, depth)
                walk(s.finalbody, depth)
            elif isinstance(s, ast.With):
                walk(s.body, depth)

    walk(loop.body, 0)
    return out


def guard_of(loop: ast.While, target: ast.stmt) -> List[ast.expr]:
    """conditions of the `if`s enclosing `target` inside the loop"""
    path = []

    def walk(stmts, conds):
        for s in stmts:
            if s is target:
                path.extend(conds)
                return True
            if isinstance(s, ast.If):
                if walk(s.body, conds + [s.test]) or walk(s.orelse, conds + [s.test]):
                    return True
            elif isinstance(s, (ast.For, ast.While, ast.With)):
                if walk(s.body, conds):
                    return True
            elif isinstance(s, ast.Try):
                if walk(s.body, conds) or any(walk(h.body, conds) for h in s.handlers) or walk(s.orelse, conds):
                    return True
        return False

    walk(loop.body, [])
    return path


def is_index_scan(test: ast.expr) -> Optional[Tuple[str, str, ast.expr]]:
    """`S[i] == S[i + 1]` (possibly a conjunct): returns (sequence name, index name, the scan conjunct)"""
    conj = test.values if isinstance(test, ast.BoolOp) and isinstance(test.op, ast.And) else [test]
    for c in conj:
        if isinstance(c, ast.Compare) and len(c.ops) == 1 and isinstance(c.left, ast.Subscript) and isinstance(c.comparators[0], ast.Subscript):
            l, r = c.left, c.comparators[0]
            if isinstance(l.value, ast.Name) and isinstance(r.value, ast.Name) and l.value.id == r.value.id:
                idx = _names(l.slice) & _names(r.slice)
                if len(idx) == 1:
                    return l.value.id, next(iter(idx)), c
    return None


def scan_bound(test: ast.expr, idx: str) -> bool:
    """a conjunct that bounds the index by a length (`i + 2 < n`, `i < len(S) - 1`, ...)"""
    conj = test.values if isinstance(test, ast.BoolOp) and isinstance(test.op, ast.And) else [test]
    for c in conj:
        if isinstance(c, ast.Compare) and len(c.ops) == 1 and isinstance(c.ops[0], (ast.Lt, ast.LtE, ast.Gt, ast.GtE)):
            sides = [c.left, c.comparators[0]]
            if any(idx in _names(s) and not any(isinstance(x, ast.Subscript) for x in ast.walk(s)) for s in sides) and not all(idx in _names(s) for s in sides):
                return True
    return False


def scan_shape(test: ast.expr) -> Optional[str]:
    s = is_index_scan(test)
    if s is None:
        return None
    seq, idx, c = s
    txt = ast.unparse(c)
    import re

    txt = re.sub(rf"\b{re.escape(seq)}\b", "S", txt)
    txt = re.sub(rf"\b{re.escape(idx)}\b", "i", txt)
    return txt


def is_float_convergence(cond: ast.expr) -> bool:
    """comparison of a computed residual / step with a tolerance: abs(x) < tol, norm(..) < 1e-9, x < tolerance"""
    for c in ast.walk(cond):
        if isinstance(c, ast.Compare) and len(c.ops) == 1 and isinstance(c.ops[0], (ast.Lt, ast.LtE, ast.Gt, ast.GtE)):
            sides = [c.left, c.comparators[0]]
            for s in sides:
                if isinstance(s, ast.Constant) and isinstance(s.value, float):
                    return True
                if isinstance(s, ast.Name) and ("tol" in s.id.lower() or "eps" in s.id.lower()):
                    return True
    return False


def classify_while(fi, loop: ast.While) -> LoopInfo:
    test, body = loop.test, loop.body
    const_true = isinstance(test, ast.Constant) and bool(test.value)
    steps = const_steps(body)
    exits = exits_of(loop)
    tn = _names(test)
    # 1. index scan
    sc = is_index_scan(test)
    if sc is not None and sc[1] in steps:
        b = scan_bound(test, sc[1])
        return LoopInfo(fi, loop, "index-scan", f"`{seg(test, 70)}` steps {sc[1]}" + (" with a length bound" if b else " WITHOUT a length bound"), bounded=b)
    # 2. counter bounded: the loop test (or a guarded exit) compares a constant-stepped variable
    for name in steps:
        if name in tn and not const_true:
            return LoopInfo(fi, loop, "counter-bounded", f"test on `{name}` stepped by a constant", True)
    for ex in exits:
        for g in guard_of(loop, ex):
            if _names(g) & set(steps) and not is_float_convergence(g):
                return LoopInfo(fi, loop, "counter-bounded", f"exit `{seg(g, 50)}` on a constant-stepped counter", True)
    # 3. euclid
    if isinstance(test, ast.Name):
        for s in body:
            if isinstance(s, ast.Assign) and isinstance(s.value, ast.Tuple) and any(isinstance(x, ast.BinOp) and isinstance(x.op, ast.Mod) for x in s.value.elts) and test.id in _assigned([s]):
                return LoopInfo(fi, loop, "euclid", f"`{seg(s, 40)}` under `while {test.id}`", True)
    # 4. interval halving
    halves = [s for s in ast.walk(loop) if isinstance(s, ast.Assign) and isinstance(s.value, ast.BinOp) and isinstance(s.value.op, ast.FloorDiv) and isinstance(s.value.right, ast.Constant) and s.value.right.value == 2]
    if halves:
        mids = _assigned(halves)
        bounds = _names(halves[0].value.left)
        moved = [s for s in ast.walk(loop) if isinstance(s, ast.Assign) and isinstance(s.value, ast.Name) and s.value.id in mids and _assigned([s]) & bounds]
        if len(moved) >= 2:
            return LoopInfo(fi, loop, "interval-halving", f"`{seg(halves[0], 40)}`, one bound moved per pass", True)
    # 5. container shrink: while c in X: ... X.pop(...)
    if isinstance(test, ast.Compare) and len(test.ops) == 1 and isinstance(test.ops[0], ast.In) and isinstance(test.comparators[0], ast.Name):
        x = test.comparators[0].id
        if any(isinstance(c, ast.Call) and isinstance(c.func, ast.Attribute) and c.func.attr in ("pop", "remove") and isinstance(c.func.value, ast.Name) and c.func.value.id == x for c in ast.walk(loop)):
            return LoopInfo(fi, loop, "container-shrink", f"`{seg(test, 40)}` with {x}.pop/remove in the body", True)
    # 6b. the same with the handler inside the loop: while True: try: self.mutator(...) except E: break / return
    if const_true and len(body) == 1 and isinstance(body[0], ast.Try) and not body[0].finalbody and not body[0].orelse:
        tr = body[0]
        tcalls = [s for s in tr.body if isinstance(s, ast.Expr) and isinstance(s.value, ast.Call)]
        in_handlers = {id(x) for h in tr.handlers for s in h.body for x in ast.walk(s)}
        leave = all(h.body and isinstance(h.body[-1], (ast.Break, ast.Return)) for h in tr.handlers)
        if tcalls and len(tcalls) == len(tr.body) and tr.handlers and leave and all(id(e) in in_handlers for e in exits):
            return LoopInfo(fi, loop, "shrink-until-refused", f"`{seg(tcalls[0], 50)}` repeated until it raises (handler inside the loop)", True)
    # 6. shrink until refused: while True: self.mutator(...) — the only way out is an exception
    if const_true and not exits:
        calls = [s for s in body if isinstance(s, ast.Expr) and isinstance(s.value, ast.Call)]
        if len(calls) == len(body) and calls:
            return LoopInfo(fi, loop, "shrink-until-refused", f"`{seg(calls[0], 50)}` repeated until it raises", True)
    # 7. float convergence only
    if exits or not const_true:
        conds = []
        for ex in exits:
            if isinstance(ex, ast.Raise):
                continue
            conds.append(guard_of(loop, ex))
        all_float = conds and all(g and all(is_float_convergence(c) or _is_value_range(c) for c in g) for g in conds) and any(any(is_float_convergence(c) for c in g) for g in conds)
        if const_true and all_float:
            return LoopInfo(fi, loop, "float-convergence-only", "every exit is a comparison of a computed value with a tolerance / a range test; no counter exit", False)
        if not const_true and is_float_convergence(test) and not (_names(test) & set(steps)):
            return LoopInfo(fi, loop, "float-convergence-only", f"loop test `{seg(test, 50)}` is a tolerance comparison; no counter exit", False)
    return LoopInfo(fi, loop, "unclassified", f"`while {seg(test, 40)}`", None)


def _is_value_range(c: ast.expr) -> bool:
    """x < umin / x > umax style tests on computed values (exits that depend on the iterate)"""
    return isinstance(c, ast.Compare) and len(c.ops) == 1 and isinstance(c.ops[0], (ast.Lt, ast.Gt, ast.LtE, ast.GtE)) and all(isinstance(s, (ast.Name, ast.Subscript, ast.Attribute)) for s in [c.left, c.comparators[0]])


def while_loops(prog, quals=None) -> List[LoopInfo]:
    out = []
    for fi in prog.all_functions():
        if quals is not None and fi.qual not in quals:
            continue
        for n in ast.walk(fi.node):
            if isinstance(n, ast.While):
                out.append(classify_while(fi, n))
    return out


def for_mutating_own_iterable(fi) -> List[ast.For]:
    """`for x in c:` whose body grows c (append / extend / insert / add on the same name)"""
    out = []
    for n in ast.walk(fi.node):
        if isinstance(n, ast.For) and isinstance(n.iter, ast.Name):
            c = n.iter.id
            for x in (y for st in n.body for y in ast.walk(st)):
                if isinstance(x, ast.Call) and isinstance(x.func, ast.Attribute) and x.func.attr in ("append", "extend", "insert", "add") and isinstance(x.func.value, ast.Name) and x.func.value.id == c:
                    out.append(n)
                    break
    return out
