"""Thorough tier: seeded-fault / behaviour-preserving-twin validation of the rules.

Every variant is an edit of the *current* /repo sources held in memory (nothing is written under
/repo, /verif or /tmp); the whole model is rebuilt for the variant and the rules of the property are
re-evaluated.  A seeded fault must make the named rule report the named function; a twin must not
produce any finding that the unchanged tree does not produce.
"""
from __future__ import annotations

import importlib
import os
import sys
import time
from concurrent.futures import ProcessPoolExecutor
from typing import Dict, List, Optional, Tuple

from . import REPO_SRC, AnalysisError
from .report import Check

C, H, K, A, CA, F = "curves", "heavy", "knotspace", "advanced", "calculus", "functions"


def V(id, props, module, old, new, rule, func, what, twin=False, near=None):
    return dict(id=id, props=props, module=module, old=old, new=new, rule=rule, func=func, what=what, twin=twin, near=near)


VARIANTS = [
    # ---- reversed repairs (the defects found on the original tree must stay detectable)
    V("rev-F1", ["C13"], C, "zip(selfcopy.ctrlpoints, othercopy.ctrlpoints)", "zip(self.ctrlpoints, othercopy.ctrlpoints)", "DEAD-REFINEMENT", "__eq__", "refined copy of the left operand never read"),
    V("rev-F4", ["C03", "C04"], H, "        if not self.valid(nodes):\n            raise ValueError(\"Cannot insert nodes outside the interval\")\n        return self.__class__(newvector)", "        return self.__class__(newvector)", "V1", "ImmutableKnotVector.__add__", "insertion without interval test"),
    V("rev-F5", ["C15", "C04"], C, "            self.knotvector = newvector\n            return\n        matrix = heavy.Operations.knot_insert", "            self.knotvector = newvector\n        matrix = heavy.Operations.knot_insert", "COMMIT-LAST", "Curve.knot_insert", "falls through after the commit"),
    V("rev-F6", ["C19"], A, "        for _ in range(100):\n            bezui", "        while True:\n            bezui", "TERM", "__newton_point_on_curve", "unbounded Newton loop"),
    V("rev-F7", ["C20"], A, "        if len(pairs) == 0:\n            return tuple()\n        pairs = tuple(pairs)\n        pairs = Intersection.filter_pairs(pairs)\n        pairs = Intersection.pairs_min_distance(pairs, curvea, curveb)", "        pairs = tuple(pairs)\n        pairs = Intersection.filter_pairs(pairs)\n        pairs = Intersection.pairs_min_distance(pairs, curvea, curveb)", "PRECOND", "curve_and_curve", "np.min over possibly empty pairs"),
    V("rev-F8", ["C20"], A, "        matchs &= distances < 1e-6\n", "", "ABS-RESIDUAL", "pairs_min_distance", "filter relative to the minimum only"),
    V("rev-F9", ["C05", "C06", "C14"], C, "if tolerance is not None and error > tolerance:", "if tolerance and error > tolerance:", "N", "BaseCurve.update", "truthiness test of the tolerance"),
    V("rev-F10", ["C08"], C, "[other / w for w in newcurve.weights]", "[1 / w for w in newcurve.weights]", "DEP-MAY", "__rtruediv__", "numerator ignored"),
    V("rev-F12", ["C18"], K, "        umin, umax = self[0], self[-1]\n        length = umax - umin\n        vector = tuple((knoti - umin) / length for knoti in self)\n        self.internal = ImmutableKnotVector(vector)", "        self.shift(-self[0])\n        self.scale(1 / self[-1])", "R", "normalize", "scale by reciprocal of own element"),
    V("rev-F27", ["C03", "C18"], K, "        umin, umax = self[0], self[-1]\n        length = umax - umin\n        vector = tuple((knoti - umin) / length for knoti in self)\n        self.internal = ImmutableKnotVector(vector)", "        self.shift(-self[0])\n        last = self[-1]\n        self.internal = ImmutableKnotVector(knoti / last for knoti in self)", "COMMIT-LAST", "normalize", "shift committed before the validated scaling"),
    V("rev-F13", ["C04", "C06", "C07"], H, "        one = knotvector[-1] - knotvector[0]\n        one = (node - node + one) / one\n", "        one = node / node\n", "D", "one_knot_insert_once", "division by the node"),
    V("rev-F14", ["C03"], H, "while degree + 2 < lenght and vector[degree] == vector[degree + 1]:", "while vector[degree] == vector[degree + 1]:", "X-INDEX", "__is_valid", "unbounded index scan"),
    V("rev-F15", ["C16"], H, "                    if elem.denominator == 1:\n                        result[i, j] = int(elem)\n        return totuple(result)", "                    if elem.denominator == 1:\n                        result[i, j] = int(elem)\n            result = result.astype(\"int64\")\n        return totuple(result)", "FIXED-WIDTH", "Linalg.solve", "int64 cast"),
    V("rev-F3a", ["C15", "C04", "C06"], C, "        self.ctrlpoints = None\n        self.weights = None\n        self.knotvector = newknotvector\n        self.weights = newweights\n        self.ctrlpoints = newctrlpoints\n", "        self.ctrlpoints = None\n        self.weights = None\n        self.knotvector = newknotvector\n        self.weights = newweights\n        self.ctrlpoints = np.dot(np.eye(len(newctrlpoints), dtype=\"object\"), newctrlpoints)\n", "COMMIT-LAST", "BaseCurve.apply", "computation after the commit"),
    V("rev-F3b", ["C15", "C04"], C, "                numerators = [wei * pt for wei, pt in zip(oldweights, oldctrlpoints)]", "                numerators = list(oldctrlpoints)\n                for i, wei in enumerate(oldweights):\n                    numerators[i] *= wei", "NO-INPLACE-ELEM", "BaseCurve.apply", "in-place multiplication of stored points"),
    # ---- seeded faults that pass the unedited suite (DESIGN §6)
    V("elev-nodtype", ["C16"], H, "        matrix = np.zeros((degree + 2, degree + 1), dtype=\"object\")", "        matrix = np.zeros((degree + 2, degree + 1))", "E8", "degree_increase", "elevation matrix as float64"),
    V("clean-once", ["C14"], C, "            try:\n                while True:\n                    self.knot_remove((knot,), tolerance)\n            except ValueError:\n                pass", "            try:\n                self.knot_remove((knot,), tolerance)\n            except ValueError:\n                pass", "UNTIL-REFUSED", "knot_clean", "one attempt per knot"),
    V("pair-open-closed", ["C11", "C10"], H, "            nodes0to1 = NodeSample.open_linspace(nptsinteg)\n            integrator = IntegratorArray.open_newton_cotes(nptsinteg)", "            nodes0to1 = NodeSample.open_linspace(nptsinteg)\n            integrator = IntegratorArray.closed_newton_cotes(nptsinteg)", "PAIR", "func2func", "open nodes with closed weights"),
    V("pair-size", ["C11", "C10"], H, "            integrator = IntegratorArray.open_newton_cotes(nptsinteg)", "            integrator = IntegratorArray.open_newton_cotes(nptsinteg - 1)", "PAIR", "func2func", "weights for one point less"),
    V("registry-cheby-gauss", ["C10"], CA, "            \"chebyshev\": heavy.NodeSample.chebyshev,\n            \"gauss-legendre\": heavy.NodeSample.gauss_legendre,\n", "            \"chebyshev\": heavy.NodeSample.gauss_legendre,\n            \"gauss-legendre\": heavy.NodeSample.gauss_legendre,\n", "PAIR", "Integrate.density", "chebyshev weights at gauss nodes", near=246),
    V("integ-default-cheby", ["C16"], CA, "            method = \"open-newton-cotes\"\n        else:\n            method = \"chebyshev\"\n        if nnodes is None:\n            nnodes = max(2, 1 + curve.degree)  # The closed rule needs 2\n", "            method = \"chebyshev\"\n        else:\n            method = \"chebyshev\"\n        if nnodes is None:\n            nnodes = max(2, 1 + curve.degree)  # The closed rule needs 2\n", "E8", "Integrate.scalar", "default rule on exact knots is Chebyshev", near=157),
    V("div-noguard", ["C08"], C, "            copied.ctrlpoints = [point / other for point in copied.ctrlpoints]\n            return copied\n        if self.knotvector.limits != other.knotvector.limits:\n            raise ValueError\n", "            copied.ctrlpoints = [point / other for point in copied.ctrlpoints]\n            return copied\n", "GATE-LIMITS", "__truediv__", "curve / curve without limits guard"),
    V("fit-rational-drop-nodes", ["C11", "C05"], C, "transmat, materror = lstsq(vectorb, weightsb, vectora, weightsa, nodes)", "transmat, materror = lstsq(vectorb, weightsb, vectora, weightsa)", "ARG-FLOW", "fit_curve", "rational fit drops the interpolation nodes"),
    V("remove-none-nodes", ["C05"], C, "        knots = newknotvec.knots if newknotvec.degree != 0 else None\n        self.update(newknotvec, tolerance, knots)\n\n    def knot_clean", "        knots = newknotvec.knots if newknotvec.degree != 0 else None\n        self.update(newknotvec, tolerance, None)\n\n    def knot_clean", "ARG-FLOW", "knot_remove", "remaining knots not passed on"),
    V("clean-drop-tol", ["C14"], C, "        self.degree_clean(tolerance=tolerance)\n        self.knot_clean(tolerance=tolerance)", "        self.degree_clean(tolerance=tolerance)\n        self.knot_clean()", "ARG-FLOW", "Curve.clean", "tolerance not passed on"),
    V("fitpoints-ignore-weights", ["C12"], C, "        weights = None if self.weights is None else tuple(self.weights)\n        matrix = fitfunc(knotvector, nodes, weights)", "        weights = None\n        matrix = fitfunc(knotvector, nodes, weights)", "ARG-FLOW", "fit_points", "rational curve fitted with the polynomial basis"),
    V("or-no-copy", ["C07", "C15"], C, "        othercopy = copy(other)\n        selfcopy = copy(self)\n        maxdegree", "        othercopy = other\n        selfcopy = self\n        maxdegree", "PURE", "__or__", "join works on the operands"),
    V("fraction-self", ["C15"], C, "        if self.weights is None:\n            numerator = copy(self)\n            return numerator, 1", "        if self.weights is None:\n            numerator = self\n            return numerator, 1", "FRESH", "fraction", "numerator is the curve itself"),
    V("deepcopy-share-kv", ["C15"], C, "        knotvector = copy(self.knotvector)\n        curve = self.__class__(knotvector)", "        knotvector = self.knotvector\n        curve = self.__class__(knotvector)", "FRESH", "__deepcopy__", "copy shares the KnotVector object"),
    V("skip-dup-filter", ["C20"], A, "        if len(pairs) == 0:\n            return tuple()\n        pairs = tuple(pairs)\n        pairs = Intersection.filter_pairs(pairs)\n        pairs = Intersection.pairs_min_distance(pairs, curvea, curveb)", "        if len(pairs) == 0:\n            return tuple()\n        pairs = tuple(pairs)\n        pairs = Intersection.pairs_min_distance(pairs, curvea, curveb)", "FILTER", "curve_and_curve", "duplicate filter skipped"),
    # ---- further seeded faults (caught by the suite as well; the rules decide them too)
    V("neg-inplace", ["C15", "C08"], C, "        newcurve = copy(self)\n        newctrlpoints = [-1 * ctrlpt for ctrlpt in newcurve.ctrlpoints]\n        newcurve.ctrlpoints = newctrlpoints\n        return newcurve", "        newctrlpoints = [-1 * ctrlpt for ctrlpt in self.ctrlpoints]\n        self.ctrlpoints = newctrlpoints\n        return self", "PURE", "__neg__", "operand mutated"),
    V("update-write-before-gate", ["C05", "C15"], C, "        temp_curve = self.__class__(newknotvector)\n        error = temp_curve.fit_curve(self, nodes)", "        temp_curve = self.__class__(newknotvector)\n        self.__knotvector = newknotvector\n        error = temp_curve.fit_curve(self, nodes)", "GATE-TOL", "BaseCurve.update", "write before the tolerance gate"),
    V("memo-second-writer", ["C10"], H, "        assert isinstance(npts, int)\n        assert npts > 1\n        nums = tuple(range(0, npts))", "        assert isinstance(npts, int)\n        assert npts > 1\n        NodeSample.__cheby[npts] = tuple(range(npts))\n        nums = tuple(range(0, npts))", "PURE-MEMO", "_NodeSample__cheby", "second writer of a memo table"),
    V("span-noguard", ["C01", "C03"], H, "    def span(self, nodes: Union[float, Tuple[float]]) -> Union[int, Tuple[int]]:\n        try:\n            nodes = tuple(nodes)  # A one-pass iterable is walked only here\n        except TypeError:\n            pass\n        if not self.valid(nodes):\n            raise ValueError\n", "    def span(self, nodes: Union[float, Tuple[float]]) -> Union[int, Tuple[int]]:\n        try:\n            nodes = tuple(nodes)  # A one-pass iterable is walked only here\n        except TypeError:\n            pass\n", "GATE-VALID", "span", "span without its guard"),
    V("newton-no-upper-clamp", ["C20"], A, "            elif tmax < pair[0]:\n                pair[0] = tmax\n", "", "CLAMP", "__newton_bcurve_and_bcurve", "upper clamp of pair[0] removed"),
    V("proj-no-lower-clamp", ["C19"], A, "            if initparam < umin:\n                return (umin,)\n", "", "CLAMP", "__newton_point_on_curve", "lower clamp removed"),
    V("kv-or-nodeepcopy", ["C17", "C15"], K, "    def __or__(self, other: float):\n        return deepcopy(self).__ior__(other)", "    def __or__(self, other: float):\n        return self.__ior__(other)", "PURE", "KnotVector.__or__", "| mutates its left operand"),
    V("ikv-or-noguard", ["C17"], H, "        other = ImmutableKnotVector(other)\n        if self.limits != other.limits:\n            raise ValueError\n        all_knots = list(self.knots) + list(other.knots)", "        other = ImmutableKnotVector(other)\n        all_knots = list(self.knots) + list(other.knots)", "GATE-LIMITS", "ImmutableKnotVector.__or__", "union without limits guard"),
    V("valid-one-sided", ["C01"], H, "        if not (umin <= node <= umax):  # False also for a NaN, never ordered\n            return False", "        if not (umin <= node):\n            return False", "BOTH-LIMITS", "__valid_single", "upper limit not tested"),
    V("eval-swallow", ["C01"], C, "        self.knotvector.valid(nodes)\n        result = self.__eval(nodes)\n        return result[0] if onevalue else result", "        self.knotvector.valid(nodes)\n        try:\n            result = self.__eval(nodes)\n        except ValueError:\n            result = (None,) * len(nodes)\n        return result[0] if onevalue else result", "X-ESCAPE", "Curve.eval", "ValueError swallowed"),
    V("getitem-skip-validator", ["C02"], F, "        self.__valid_first_index(i)\n        self.__valid_second_index(j)\n        return FunctionEvaluator(self, i, j)", "        self.__valid_first_index(i)\n        return FunctionEvaluator(self, i, j)", "GATE-INDEX", "__getitem__", "second index not validated"),
    V("func-eval-wrong-degree", ["C02"], F, "        evaluator = self[:, self.degree]", "        evaluator = self[:, 0]", "DEP-MAY", "IndexableFunction.eval", "f(u) evaluated at degree 0"),
    V("derivate-mutates", ["C09", "C15"], CA, "        dnumer = Derivate.nonrational_spline(numer)\n        dnumer.degree_increase(1)  # Shouldn't be necessary", "        curve.degree_increase(1)\n        dnumer = Derivate.nonrational_spline(numer)\n        dnumer.degree_increase(1)  # Shouldn't be necessary", "PURE", "rational_spline", "Derivate elevates its argument"),
    V("derivate-fallthrough", ["C09"], CA, "        if curve.weights is None:\n            return Derivate.nonrational_bezier(curve)\n        return Derivate.rational_bezier(curve)", "        if curve.weights is None:\n            return Derivate.nonrational_bezier(curve)\n        if len(curve.weights) > 0:\n            return Derivate.rational_bezier(curve)", "EXHAUSTIVE", "Derivate.bezier", "dispatch falls through"),
    V("split-drop-weights", ["C07"], C, "                newcurve.weights = newweights\n                newcurve.ctrlpoints = [\n                    invert(w) * num for num, w in zip(numerators, newweights)\n                ]\n", "                newcurve.ctrlpoints = [\n                    invert(w) * num for num, w in zip(numerators, newweights)\n                ]\n", "DEP-MUST", "Curve.split", "pieces lose their weights"),
    V("fitpoints-no-count", ["C12"], C, "        assert len(points) >= self.npts\n        fitfunc = heavy.LeastSquare.fit_function", "        fitfunc = heavy.LeastSquare.fit_function", "GATE-COUNT", "fit_points", "count check removed"),
    V("fitfunction-other-nodes", ["C12"], C, "        nodes = tuple(nodes)\n        funcvals = [function(node) for node in nodes]\n        return self.fit_points(funcvals, nodes)", "        nodes = tuple(nodes)\n        funcvals = [function(node) for node in nodes]\n        nodes = tuple(sorted(nodes, reverse=True))\n        return self.fit_points(funcvals, nodes)", "SAME-NODES", "fit_function", "nodes rebound between sampling and fitting"),
    V("degree-setter-swapped", ["C06"], C, "        if times > 0:\n            return self.degree_increase(times)\n        return self.degree_decrease(-times)", "        if times > 0:\n            return self.degree_increase(times)\n        return self.degree_decrease(times)", "DISPATCH", "degree.setter", "reduction called with a negative count"),
    V("kv-setter-bypass", ["C03"], K, "        self.internal -= nodes\n        return self\n\n    def span", "        self._KnotVector__internal = tuple(x for x in self.internal if x not in nodes)\n        return self\n\n    def span", "FUNNEL", "KnotVector.remove", "payload rebound without the validating setter"),
    V("shift-commit-early", ["C03", "C18"], K, "        vector = tuple(knoti + value for knoti in self)\n        self.internal = ImmutableKnotVector(vector)\n        return self", "        self.internal = ImmutableKnotVector(tuple(self))\n        vector = tuple(knoti + value for knoti in self)\n        self.internal = ImmutableKnotVector(vector)\n        return self", "COMMIT-LAST", "KnotVector.shift", "computation after a first commit"),
    V("gen-skip-normalize", ["C18"], K, "        knotvector = GeneratorKnotVector.integer(degree, npts, cls)\n        knotvector.normalize()\n        return knotvector", "        knotvector = GeneratorKnotVector.integer(degree, npts, cls)\n        return knotvector", "NORMALIZED", "uniform", "uniform skips normalize"),
    V("add-ignores-other-kv", ["C08"], C, "            ctrlpoints = np.array(matra, dtype=\"object\") @ self.ctrlpoints\n            ctrlpoints = ctrlpoints + np.array(matrb, dtype=\"object\") @ other.ctrlpoints", "            ctrlpoints = np.array(matra, dtype=\"object\") @ self.ctrlpoints", "DEP-MAY", "__add__", "sum ignores the second operand's points"),
    V("curve-shared-kv-shift", ["C15"], C, "        nodes = self.knotvector.knots\n        newnodes = times * nodes\n        newvector = self.knotvector + newnodes", "        nodes = self.knotvector.knots\n        newnodes = times * nodes\n        self.knotvector.insert(newnodes)\n        newvector = self.knotvector", "SHARED-KV", "degree_increase", "in-place insert on the shared KnotVector"),
    V("seed-wrong-weight", ["C10"], H, "        3: (Fraction(1, 6), Fraction(2, 3), Fraction(1, 6)),", "        3: (Fraction(1, 6), Fraction(3, 5), Fraction(1, 6)),", "SEED", "closed_newton", "literal Simpson weights wrong"),
    V("minpoint-left", ["C16"], C, "                        newpoint = newpoint + (line[j] * invweight) * point\n", "                        newpoint = newpoint + point * (line[j] * invweight)\n", "MIN-POINT", "BaseCurve.apply", "point * scalar"),
    V("eq-type-guard-late", ["C13"], C, "        if type(self) is not type(other):\n            return False\n        if self.knotvector[0] != other.knotvector[0]:\n            return False", "        if self.knotvector[0] != other.knotvector[0]:\n            return False\n        if type(self) is not type(other):\n            return False", "TYPE-GUARD", "__eq__", "type guard not first"),
    # ---- behaviour-preserving twins: must stay silent
    V("twin-eq-rename", ["C13"], C, "        othercopy = copy(other)\n        othercopy.knotvector = newknotvec\n        for poi, qoi in zip(selfcopy.ctrlpoints, othercopy.ctrlpoints):", "        refined = copy(other)\n        refined.knotvector = newknotvec\n        for poi, qoi in zip(selfcopy.ctrlpoints, refined.ctrlpoints):", None, None, "local renamed", twin=True),
    V("twin-update-ifelse", ["C05", "C06", "C14", "C15"], C, "        if tolerance is not None and error > tolerance:\n            error_msg = \"Cannot update knotvector cause error is \"\n            error_msg += f\" {float(error):.2e} > {tolerance}\"\n            raise ValueError(error_msg)\n        self.__knotvector = newknotvector", "        if not (tolerance is not None and error > tolerance):\n            pass\n        else:\n            error_msg = \"Cannot update knotvector cause error is \"\n            error_msg += f\" {float(error):.2e} > {tolerance}\"\n            raise ValueError(error_msg)\n        self.__knotvector = newknotvector", None, None, "guard written as if/pass/else/raise", twin=True),
    V("twin-add-reorder", ["C08", "C15"], C, "            vecta, vectb = tuple(self.knotvector), tuple(other.knotvector)\n            matra, matrb = heavy.MathOperations.add_spline_curve(vecta, vectb)\n            curve = Curve(self.knotvector | other.knotvector)", "            vectb = tuple(other.knotvector)\n            vecta = tuple(self.knotvector)\n            curve = Curve(self.knotvector | other.knotvector)\n            matra, matrb = heavy.MathOperations.add_spline_curve(vecta, vectb)", None, None, "independent statements reordered", twin=True),
    V("twin-span-helper", ["C01", "C03"], H, "    def span(self, nodes: Union[float, Tuple[float]]) -> Union[int, Tuple[int]]:\n        try:\n            nodes = tuple(nodes)  # A one-pass iterable is walked only here\n        except TypeError:\n            pass\n        if not self.valid(nodes):\n            raise ValueError\n", "    def span(self, nodes: Union[float, Tuple[float]]) -> Union[int, Tuple[int]]:\n        try:\n            nodes = tuple(nodes)  # A one-pass iterable is walked only here\n        except TypeError:\n            pass\n        ok = self.valid(nodes)\n        if not ok:\n            raise ValueError(\"node outside the interval\")\n", None, None, "guard through a local", twin=True),
    V("twin-apply-dot", ["C04", "C06", "C15", "C16"], C, "            newctrlpoints = np.dot(matrix, oldctrlpoints)\n        else:", "            newctrlpoints = np.array(matrix) @ oldctrlpoints\n        else:", None, None, "np.dot written as @", twin=True),
    V("twin-knotclean-tuple", ["C14"], C, "        nodes = tuple(set(nodes) - set(self.knotvector.limits))\n        for knot in nodes:", "        limits = set(self.knotvector.limits)\n        nodes = [knot for knot in set(nodes) if knot not in limits]\n        for knot in nodes:", None, None, "set difference written as a comprehension", twin=True),
    V("twin-memo-rename", ["C10"], H, "        if npts not in IntegratorArray.__open_newton:\n            nodes = NodeSample.open_linspace(npts, Fraction)\n            weights = IntegratorArray.bezier_integrator_array(nodes)\n            IntegratorArray.__open_newton[npts] = weights", "        if npts not in IntegratorArray.__open_newton:\n            abscissae = NodeSample.open_linspace(npts, Fraction)\n            IntegratorArray.__open_newton[npts] = IntegratorArray.bezier_integrator_array(abscissae)", None, None, "locals renamed / inlined in an accessor", twin=True),
    V("twin-or-guard-first", ["C07", "C15"], C, "        umaxleft = self.knotvector[-1]\n        uminright = other.knotvector[0]\n        if umaxleft != uminright:", "        uminright = other.knotvector[0]\n        umaxleft = self.knotvector[-1]\n        if not umaxleft == uminright:", None, None, "guard condition rewritten", twin=True),
    V("twin-newton-for", ["C19"], A, "        for _ in range(100):\n            bezui", "        for _iteration in range(50):\n            bezui", None, None, "other iteration bound", twin=True),
    V("twin-pairs-guard", ["C20"], A, "        if len(pairs) == 0:\n            return tuple()\n        pairs = tuple(pairs)\n        pairs = Intersection.filter_pairs(pairs)\n        pairs = Intersection.pairs_min_distance(pairs, curvea, curveb)", "        if len(pairs) != 0:\n            pairs = tuple(pairs)\n            pairs = Intersection.filter_pairs(pairs)\n            pairs = Intersection.pairs_min_distance(pairs, curvea, curveb)\n            return pairs\n        return tuple()\n        pairs = ()", None, None, "guard with the other polarity", twin=True),
    V("twin-fitpoints-raise", ["C12"], C, "        assert len(points) >= self.npts\n        fitfunc", "        if len(points) < self.npts:\n            raise ValueError(\"fewer points than control points\")\n        fitfunc", None, None, "assert written as raise ValueError", twin=True),
    V("twin-normalize-div", ["C18", "C03"], K, "        umin, umax = self[0], self[-1]\n        length = umax - umin\n        vector = tuple((knoti - umin) / length for knoti in self)\n        self.internal = ImmutableKnotVector(vector)", "        lower = self[0]\n        span = self[-1] - lower\n        self.internal = ImmutableKnotVector((knoti - lower) / span for knoti in self)", None, None, "rebuild spelled with other temporaries", twin=True),
    V("twin-ikv-or", ["C17"], H, "        other = ImmutableKnotVector(other)\n        if self.limits != other.limits:\n            raise ValueError\n        all_knots = list(self.knots) + list(other.knots)", "        other = ImmutableKnotVector(other)\n        if not self.limits == other.limits:\n            raise ValueError(\"different intervals\")\n        all_knots = list(self.knots) + list(other.knots)", None, None, "guard rewritten", twin=True),
    V("twin-derivate-temp", ["C09"], CA, "        ctrlpoints = tuple(np.dot(matrix, curve.ctrlpoints))\n        newcurve = curve.__class__(vector[1:-1], ctrlpoints)", "        points = np.dot(matrix, curve.ctrlpoints)\n        ctrlpoints = tuple(points)\n        newcurve = curve.__class__(vector[1:-1], ctrlpoints)", None, None, "temporary introduced", twin=True),
    V("twin-getitem-order", ["C02"], F, "        self.__valid_first_index(i)\n        self.__valid_second_index(j)", "        self.__valid_second_index(j)\n        self.__valid_first_index(i)", None, None, "validators reordered", twin=True),
    V("twin-fit-curve-names", ["C11"], C, "            lstsq = heavy.LeastSquare.func2func\n            transmat, materror = lstsq(vectorb, weightsb, vectora, weightsa, nodes)", "            transmat, materror = heavy.LeastSquare.func2func(vectorb, weightsb, vectora, weightsa, fit_nodes=nodes)", None, None, "direct call with keyword", twin=True),
]


VARIANTS += [
    V("twin-split-fullvector", ["C07", "C03"], H, "            middle = list(vector[(a < vector) * (vector < b)])", "            middle = [knot for knot in self if a < knot < b]", None, None, "middle knots taken from the full vector by a comprehension", twin=True),
    V("twin-normalize-early-exit", ["C18"], K, "        umin, umax = self[0], self[-1]\n        length = umax - umin", "        if self[0] == 0 and self[-1] == 1:\n            return self\n        umin, umax = self[0], self[-1]\n        length = umax - umin", None, None, "early exit when already on [0, 1]", twin=True),
    V("twin-eq-skip-if-equal", ["C13"], C, "        selfcopy = copy(self)\n        selfcopy.knotvector = newknotvec\n        othercopy = copy(other)\n        othercopy.knotvector = newknotvec\n", "        selfcopy = copy(self)\n        othercopy = copy(other)\n        if self.knotvector != other.knotvector:\n            selfcopy.knotvector = newknotvec\n            othercopy.knotvector = newknotvec\n", None, None, "refinement skipped only for equal knot vectors", twin=True),
    V("twin-derivate-limits", ["C09"], CA, "        newknotvector = number_bound * [knotvector[0]] + number_bound * [knotvector[-1]]", "        umin, umax = curve.knotvector.limits\n        newknotvector = number_bound * [umin] + number_bound * [umax]", None, None, "derivative knot vector from the limits", twin=True),
    V("twin-fit-cond-order", ["C11"], C, "        if self.weights is None and other.weights is None:\n            lstsq = heavy.LeastSquare.spline2spline", "        if other.weights is None and self.weights is None:\n            lstsq = heavy.LeastSquare.spline2spline", None, None, "conjuncts swapped", twin=True),
    V("twin-apply-roots-local", ["C15", "C04", "C06"], C, "            if heavy.find_roots(tuple(newknotvector), newweights):\n                raise ValueError(\"Zero division in the new weights\")", "            roots = heavy.find_roots(tuple(newknotvector), newweights)\n            if roots:\n                raise ValueError(\"Zero division in the new weights\")", None, None, "zero-test through a local", twin=True, near=580),
    V("twin-lru-int", ["C16", "C10"], H, "    @staticmethod\n    def factorial(number: int) -> int:", "    @staticmethod\n    @lru_cache(maxsize=None)\n    def factorial(number: int) -> int:", None, None, "memoisation keyed by an int", twin=True),
    V("twin-span-cache-halfopen", ["C01"], H, "    for j, node in enumerate(nodes):\n        span = knotvector.span(node)\n        ind = spans.index(span)\n", "    ind = None\n    for j, node in enumerate(nodes):\n        if ind is None or not knots[ind] <= node < knots[ind + 1]:\n            span = knotvector.span(node)\n            ind = spans.index(span)\n", None, None, "span reused for consecutive nodes of the same (half-open) interval", twin=True),
    V("twin-and-count", ["C17"], H, "                index = all_knots.index(knot)\n                mult = vector.mult(knot)\n                if mult < all_mults[index]:", "                index = all_knots.index(knot)\n                mult = vector.count(knot)\n                if mult < all_mults[index]:", None, None, "multiplicity taken with count()", twin=True),
]


# ---- third batch: faults / twins for the rules added after the second round of independently seeded changes
VARIANTS += [
    V("eval-len-select", ["C01"], C, "        return result[0] if onevalue else result", "        return result[0] if len(result) == 1 else result", "FORM-SELECT", "Curve.eval", "shape decided by the length of the result"),
    V("twin-eval-flag-first", ["C01"], C, "        try:\n            nodes = tuple(nodes)\n            onevalue = False\n        except TypeError:\n            nodes = (nodes,)\n            onevalue = True\n        self.knotvector.valid(nodes)\n        result = self.__eval(nodes)\n        return result[0] if onevalue else result",
      "        onevalue = True\n        try:\n            nodes = tuple(nodes)\n            onevalue = False\n        except TypeError:\n            nodes = (nodes,)\n        self.knotvector.valid(nodes)\n        result = self.__eval(nodes)\n        if onevalue:\n            return result[0]\n        return result", None, None, "flag initialised before the probe, if-statement instead of conditional expression", twin=True),
    V("eq-squared-tol", ["C13"], C, "            if norm(poi - qoi) > 1e-9:", "            if norm(poi - qoi) ** 2 > 1e-9:", "TOL-HOMOG", "__eq__", "squared distance against the linear tolerance"),
    V("twin-eq-squared-tol", ["C13"], C, "            if norm(poi - qoi) > 1e-9:", "            if norm(poi - qoi) ** 2 > 1e-18:", None, None, "squared distance against the squared tolerance", twin=True),
    V("rmatmul-right", ["C08"], C, "        copied.ctrlpoints = [other @ point for point in copied.ctrlpoints]", "        copied.ctrlpoints = [point @ other for point in copied.ctrlpoints]", "REFLECTED", "__rmatmul__", "left operand applied from the right"),
    V("rsub-direct", ["C08"], C, "    def __rsub__(self, other: object):\n        return other + (-self)", "    def __rsub__(self, other: object):\n        return self - other", "REFLECTED", "__rsub__", "x - A computed as A - x"),
    V("twin-rsub-neg", ["C08"], C, "    def __rsub__(self, other: object):\n        return other + (-self)", "    def __rsub__(self, other: object):\n        return -(self - other)", None, None, "x - A as -(A - x)", twin=True),
    V("twin-ikv-or-both-ways", ["C17"], H, "        other = ImmutableKnotVector(other)\n        if self.limits != other.limits:\n            raise ValueError\n        all_knots = list(self.knots) + list(other.knots)", "        other = ImmutableKnotVector(other)\n        if not (self.valid(other.limits) and other.valid(self.limits)):\n            raise ValueError\n        all_knots = list(self.knots) + list(other.knots)", None, None, "containment both ways is equality of the intervals", twin=True),
    V("ikv-and-contain", ["C17"], H, "    def __and__(self, other: ImmutableKnotVector) -> ImmutableKnotVector:\n        other = ImmutableKnotVector(other)\n        if self.limits != other.limits:", "    def __and__(self, other: ImmutableKnotVector) -> ImmutableKnotVector:\n        other = ImmutableKnotVector(other)\n        if not other.valid(self.limits):", "SAME-INTERVAL", "__and__", "one-sided containment"),
    V("twin-scalar-default-closed", ["C10"], CA, "            method = \"open-newton-cotes\"\n        else:\n            method = \"chebyshev\"\n        if nnodes is None:\n            nnodes = max(2, 1 + curve.degree)  # The closed rule needs 2\n", "            method = \"closed-newton-cotes\"\n        else:\n            method = \"chebyshev\"\n        if nnodes is None:\n            nnodes = max(2, 1 + curve.degree)  # The closed rule needs 2\n", None, None, "closed default rule in Integrate.scalar — harmless since every span evaluates its own piece", twin=True, near=157),
    V("function-default-closed", ["C10"], CA, "            method = \"open-newton-cotes\"\n        else:\n            method = \"chebyshev\"\n        if nnodes is None:\n            nnodes = max(2, 1 + knotvector.degree)  # The closed rule needs 2\n", "            method = \"closed-newton-cotes\"\n        else:\n            method = \"chebyshev\"\n        if nnodes is None:\n            nnodes = max(2, 1 + knotvector.degree)  # The closed rule needs 2\n", "DEFAULT-OPEN", "Integrate.function", "closed default rule where the user integrand is evaluated at the span ends"),
    V("rev-F31", ["C10"], CA, "        for piece in curve.split():  # Each piece is closed on its own span\n            start, end = piece.knotvector.limits\n            # Exact at both ends: start + (end - start) can pass end by rounding\n            nodes = tuple((1 - node) * start + node * end for node in nodes_0to1)\n            curve_vals = tuple(piece.eval(node) for node in nodes)\n            function_vals", "        knots = curve.knotvector.knots\n        for start, end in zip(knots[:-1], knots[1:]):\n            # Exact at both ends: start + (end - start) can pass end by rounding\n            nodes = tuple((1 - node) * start + node * end for node in nodes_0to1)\n            curve_vals = tuple(curve.eval(node) for node in nodes)\n            function_vals", "PIECEWISE-EVAL", "Integrate.scalar", "whole curve evaluated at the span ends"),
    V("weight-cast-each", ["C18"], K, "            listknots[i + 1] = listknots[i] + weight", "            listknots[i + 1] = listknots[i] + cls(weight)", "SIBLING-CAST", "GeneratorKnotVector.weight", "each weight converted to the class of the first"),
    V("twin-weight-zero", ["C18"], K, "        listknots = [cls(0) for i in range(1 + len(weights))]", "        zero = cls(0)\n        listknots = [zero] * (1 + len(weights))", None, None, "zero of the first weight's class built once", twin=True),
    V("twin-feval-inline", ["C02"], F, "        evaluator = self[:, self.degree]\n        return evaluator(nodes)", "        return self[:, self.degree](nodes)", None, None, "evaluator applied without a local name", twin=True),
    V("insert-filter-ends", ["C04"], C, "        nodes = tuple(nodes)\n        oldvector = tuple(self.knotvector)\n        newvector = tuple(self.knotvector + nodes)", "        nodes = tuple(node for node in nodes if node not in self.knotvector.limits)\n        oldvector = tuple(self.knotvector)\n        newvector = tuple(self.knotvector + nodes)", "MULT-KEEP", "Curve.knot_insert", "end knots dropped from the request before the knot vector can refuse them"),
    V("twin-insert-filter-after", ["C04"], C, "        matrix = heavy.Operations.knot_insert(oldvector, nodes)\n        self.apply(newvector, matrix)\n\n    def knot_remove", "        inner = tuple(node for node in nodes if node not in self.knotvector.limits)\n        matrix = heavy.Operations.knot_insert(oldvector, inner)\n        self.apply(newvector, matrix)\n\n    def knot_remove", None, None, "filter applied after the knot vector accepted the whole request", twin=True),
]


VARIANTS += [
    V("rev-F16", ["C07"], C, "            if self.weights is None:\n                newcurve.ctrlpoints = np.dot(matrix, self.ctrlpoints)\n            else:\n                numerators = [w * pt for w, pt in zip(self.weights, self.ctrlpoints)]\n                numerators = np.dot(matrix, numerators)\n                newweights = np.dot(matrix, self.weights)\n                newcurve.weights = newweights\n                newcurve.ctrlpoints = [\n                    invert(w) * num for num, w in zip(numerators, newweights)\n                ]\n",
      "            newcurve.ctrlpoints = np.dot(matrix, self.ctrlpoints)\n            if self.weights is not None:\n                newcurve.weights = np.dot(matrix, self.weights)\n", "DEP-MAY", "Curve.split", "pieces of a rational curve built from the unweighted control points"),
    V("rev-F17", ["C07"], C, "        newctrlpoints = list(selfcopy.ctrlpoints) + list(othercopy.ctrlpoints)\n", "        newctrlpoints = list(selfcopy.ctrlpoints) + list(othercopy.ctrlpoints[1:])\n", "ELEM-COVER", "__or__", "first control point of the right operand dropped"),
    V("rev-F11", ["C07"], C, "        weights0, weights1 = selfcopy.weights, othercopy.weights\n        if weights0 is not None or weights1 is not None:", "        weights0, weights1 = None, None\n        if weights0 is not None or weights1 is not None:", "DEP-MUST", "__or__", "weights of the operands never read"),
    V("twin-or-extend", ["C07"], C, "        newctrlpoints = list(selfcopy.ctrlpoints) + list(othercopy.ctrlpoints)\n", "        newctrlpoints = list(selfcopy.ctrlpoints)\n        newctrlpoints.extend(othercopy.ctrlpoints)\n", None, None, "joined points assembled with extend", twin=True),
]


VARIANTS += [
    V("twin-f18-repaired", ["C11", "C10"], H, "            for k, integ in enumerate(integrator):\n                FF += integ *", "            for k, integ in enumerate(integrator):\n                integ = (end - start) * integ\n                FF += integ *", None, None, "span sums of func2func multiplied by the span length (the repair of F18 that was tried)", twin=True),
    V("scalar-no-length", ["C10"], CA, "            integrals.append((end - start) * new_integral)\n        return sum(integrals)", "            integrals.append(new_integral)\n        return sum(integrals)", "JACOBIAN", "Integrate.scalar", "span length dropped from Integrate.scalar", near=176),
    V("rev-F19", ["C04", "C15"], C, "        if len(matrix) != newknotvector.npts:\n            error_msg = f\"The matrix gives {len(matrix)} control points, \"\n            error_msg += f\"the knot vector needs {newknotvector.npts}\"\n            raise ValueError(error_msg)\n", "", "PRECHECK-LEN", "BaseCurve.apply", "compatibility pre-check of apply removed"),
]


VARIANTS += [
    V("rev-F21", ["C08", "C09"], H, "        for knot, classe in zip(allknots[1:-1], classes[1:-1]):", "        for knot, classe in zip(allknots[1:-1], classes):", "ZIP-ALIGN", "knotvector_mul", "interior knots zipped with the unsliced class list"),
    V("twin-kvmul-index", ["C08", "C09"], H, "        for knot, classe in zip(allknots[1:-1], classes[1:-1]):\n            knotvectorc += [knot] * (degreec - classe)", "        for i in range(1, len(allknots) - 1):\n            knotvectorc += [allknots[i]] * (degreec - classes[i])", None, None, "interior knots visited by index", twin=True),
    V("rev-F20", ["C05", "C06", "C14"], C, "            numerators = [wei * pt for wei, pt in zip(oldweights, other.ctrlpoints)]\n            error = np.dot", "            numerators = list(other.ctrlpoints)\n            error = np.dot", "WEIGHT-HOMOG", "fit_curve", "rational fit maps the unweighted control points"),
    V("twin-fit-homog-names", ["C05", "C11"], C, "            weights = np.dot(transmat, oldweights)\n            numerators = np.dot(transmat, numerators)\n            ctrlpoints = [invert(wei) * num for num, wei in zip(numerators, weights)]\n            self.weights = weights", "            newweights = np.dot(transmat, oldweights)\n            newnumerators = np.dot(transmat, numerators)\n            ctrlpoints = [invert(wei) * num for num, wei in zip(newnumerators, newweights)]\n            self.weights = newweights", None, None, "homogeneous fit with other local names", twin=True),
]


VARIANTS += [
    V("rev-F26", ["C11", "C06"], H, "            nodes0to1 = NodeSample.open_linspace(nptsinteg)\n            integrator = IntegratorArray.open_newton_cotes(nptsinteg)", "            nodes0to1 = NodeSample.closed_linspace(nptsinteg)\n            integrator = IntegratorArray.closed_newton_cotes(nptsinteg)", "OPEN-NODES", "func2func", "closed quadrature nodes in the Gram integration"),
    V("rev-F25", ["C09"], CA, "        newcurve = curve.__class__(vector[1:-1], ctrlpoints)\n        return newcurve", "        newcurve = curve.__class__(vector[1:-1], ctrlpoints)\n        newcurve.clean()\n        return newcurve", "NO-LOSSY", "nonrational_bezier", "derivative passed through clean()"),
    V("rev-F24", ["C12", "C16"], C, "            nodes_0to1 = heavy.NodeSample.closed_linspace(max(2, len(points)))", "            if isinstance(umin, (int, Fraction)):\n                funcnodes = heavy.NodeSample.closed_linspace\n            else:\n                funcnodes = heavy.NodeSample.chebyshev\n            nodes_0to1 = funcnodes(max(2, len(points)))", "ONE-NODE-FAMILY", "fit_points", "default nodes chosen by the number type"),
    V("rev-F23", ["C16"], H, "        matrix = np.array(matrix, dtype=\"object\")\n        matrix = np.column_stack((matrix, inverse))", "        matrix = np.column_stack((matrix, inverse))", "FIXED-WIDTH", "invert_integer_matrix", "tuple of Python ints stacked without dtype=object"),
    V("rev-F22", ["C16"], C, "                    invert(w) * num for num, w in zip(numerators, newweights)", "                    num / w for num, w in zip(numerators, newweights)", "MIN-POINT", "Curve.split", "weighted point divided by the new weight"),
    V("twin-derivate-names", ["C09"], CA, "        newcurve = curve.__class__(vector[1:-1], ctrlpoints)\n        return newcurve", "        derivative = curve.__class__(vector[1:-1], ctrlpoints)\n        return derivative", None, None, "result of nonrational_bezier under another name", twin=True),
    V("twin-stack-object", ["C16"], H, "        matrix = np.array(matrix, dtype=\"object\")\n        matrix = np.column_stack((matrix, inverse))", "        matrix = np.column_stack((np.array(matrix, dtype=\"object\"), inverse))", None, None, "object conversion inlined", twin=True),
]


VARIANTS += [
    V("rev-F28", ["C19"], A, "        tvalues = {umin, umax}  # The minimum may be at an end, not stationary\n", "        tvalues = set()\n", "ENDS-CANDIDATE", "point_on_bezier", "candidate set starts empty"),
    V("twin-ends-add", ["C19"], A, "        tvalues = {umin, umax}  # The minimum may be at an end, not stationary\n", "        tvalues = set()\n        tvalues.add(umin)\n        tvalues.add(umax)\n", None, None, "ends added one by one", twin=True),
]


VARIANTS += [
    V("rev-F2", ["C13"], C, "        if self.weights is not None or other.weights is not None:\n            # Rational curves are equal when the cross products are equal\n            numa, dena = self.fraction()\n            numb, denb = other.fraction()\n            return denb * numa == dena * numb\n", "", "DEP-MUST", "__eq__", "weights never read by =="),
    V("twin-eq-cross-order", ["C13"], C, "            return denb * numa == dena * numb\n", "            left = denb * numa\n            right = dena * numb\n            return left == right\n", None, None, "cross products through locals", twin=True),
]


VARIANTS += [
    V("rev-F29", ["C07"], C, "            newcurve.weights = newweights\n        newcurve.knot_clean([umaxleft])\n        return newcurve", "            newcurve.weights = newweights\n            return newcurve\n        newcurve.knot_clean([umaxleft])\n        return newcurve", "CLEAN-JUNCTION", "__or__", "rational join returned before knot_clean"),
]


VARIANTS += [
    V("rev-F30", ["C16"], K, "        try:\n            float(other)  # A number shifts, a sequence of nodes is inserted\n        except TypeError:\n            return self.insert(other)\n        return self.shift(other)", "        try:\n            return self.shift(other)\n        except TypeError:\n            return self.insert(other)", "PROBE-OPERAND", "__iadd__", "shift used as the type probe"),
    V("twin-iadd-iter", ["C16", "C03", "C04"], K, "        try:\n            float(other)  # A number shifts, a sequence of nodes is inserted\n        except TypeError:\n            return self.insert(other)\n        return self.shift(other)", "        try:\n            iter(other)\n        except TypeError:\n            return self.shift(other)\n        return self.insert(other)", None, None, "probe with iter(other)", twin=True),
]


VARIANTS += [
    V("rev-F32a", ["C12"], C, "            nodes_0to1 = heavy.NodeSample.closed_linspace(max(2, len(points)))", "            nodes_0to1 = heavy.NodeSample.closed_linspace(len(points))", "PRECOND-LB", "fit_points", "closed_linspace asked for a single node"),
    V("rev-F32b", ["C10"], CA, "            nnodes = max(2, 1 + knotvector.degree)  # The closed rule needs 2\n", "            nnodes = 1 + knotvector.degree\n", "PRECOND-LB", "Integrate.function", "one node chosen for a rule that needs two"),
]


VARIANTS += [
    V("rev-F33", ["C15"], C, "        if self.ctrlpoints is None:\n            if self.weights is None:\n                self.__knotvector = newknotvector\n                return\n", "        if self.ctrlpoints is None:\n            if True:\n                self.__knotvector = newknotvector\n                return\n", "KV-CONSISTENT", "BaseCurve.update", "knot vector rebound without looking at the weights"),
]


# ---- round 3 (DESIGN §14): twins and further faults for the rules added after the third round of independently seeded changes
VARIANTS += [
    dict(id="twin-int-table", props=["C16", "C10", "C06"], module=H, edits=[
        (H, "        if number < 2:\n            return 1\n        prod = 1\n        for i in range(2, number + 1):\n            prod *= i\n        return prod\n", "        if number not in _FACTORIALS:\n            prod = 1\n            for i in range(2, number + 1):\n                prod *= i\n            _FACTORIALS[number] = prod\n        return _FACTORIALS[number]\n", None),
        (H, "def number_type(number: Union[int, float, Fraction]):", "_FACTORIALS = {}\n\n\ndef number_type(number: Union[int, float, Fraction]):", None)],
        rule=None, func=None, what="a module-level table keyed by a small integer", twin=True),
    V("size-too-few", ["C10"], CA, "        if nnodes is None:\n            nnodes = max(2, 1 + curve.degree)  # The closed rule needs 2\n        nodes_func = nodes_functs[method]\n        integ_array_func = array_functs[method]\n        nodes_0to1 = nodes_func(nnodes)\n        integ_array = integ_array_func(nnodes)\n        integrals = []\n        for piece in curve.split():  # Each piece is closed on its own span\n            start, end = piece.knotvector.limits\n            # Exact at both ends: start + (end - start) can pass end by rounding\n            nodes = tuple((1 - node) * start + node * end for node in nodes_0to1)\n            curve_vals = tuple(piece.eval(node) for node in nodes)\n            function_vals", "        if nnodes is None:\n            nnodes = max(2, curve.degree)\n        nodes_func = nodes_functs[method]\n        integ_array_func = array_functs[method]\n        nodes_0to1 = nodes_func(nnodes)\n        integ_array = integ_array_func(nnodes)\n        integrals = []\n        for piece in curve.split():  # Each piece is closed on its own span\n            start, end = piece.knotvector.limits\n            # Exact at both ends: start + (end - start) can pass end by rounding\n            nodes = tuple((1 - node) * start + node * end for node in nodes_0to1)\n            curve_vals = tuple(piece.eval(node) for node in nodes)\n            function_vals", "SIZE-DEFAULT", "Integrate.scalar", "one node too few for the degree"),
    V("twin-size-gauss", ["C10"], CA, "        if nnodes is None:\n            nnodes = max(2, 1 + curve.degree)  # The closed rule needs 2\n        nodes_func = nodes_functs[method]\n        integ_array_func = array_functs[method]\n        nodes_0to1 = nodes_func(nnodes)\n        integ_array = integ_array_func(nnodes)\n        integrals = []\n        for piece in curve.split():  # Each piece is closed on its own span\n            start, end = piece.knotvector.limits\n            # Exact at both ends: start + (end - start) can pass end by rounding\n            nodes = tuple((1 - node) * start + node * end for node in nodes_0to1)\n            curve_vals = tuple(piece.eval(node) for node in nodes)\n            function_vals", "        if nnodes is None:\n            nnodes = max(2, 1 + curve.degree)  # The closed rule needs 2\n            if method == \"gauss-legendre\":  # n nodes are exact up to degree 2n-1\n                nnodes = max(1, (2 + curve.degree) // 2)\n        nodes_func = nodes_functs[method]\n        integ_array_func = array_functs[method]\n        nodes_0to1 = nodes_func(nnodes)\n        integ_array = integ_array_func(nnodes)\n        integrals = []\n        for piece in curve.split():  # Each piece is closed on its own span\n            start, end = piece.knotvector.limits\n            # Exact at both ends: start + (end - start) can pass end by rounding\n            nodes = tuple((1 - node) * start + node * end for node in nodes_0to1)\n            curve_vals = tuple(piece.eval(node) for node in nodes)\n            function_vals", None, None, "Gauss rule with ceil((p+1)/2) nodes: still exact", twin=True),
    V("twin-or-equal", ["C17"], H, "        if self.limits != other.limits:\n            raise ValueError\n        all_knots = list(self.knots) + list(other.knots)", "        if self.limits != other.limits:\n            raise ValueError\n        if self == other:\n            return self\n        all_knots = list(self.knots) + list(other.knots)", None, None, "shortcut for equal vectors", twin=True),
    V("and-shortcut-knots", ["C17"], H, "        if self.limits != other.limits:\n            raise ValueError\n        all_knots = tuple(sorted(set(self.knots) & set(other.knots)))", "        if self.limits != other.limits:\n            raise ValueError\n        if self.knots == other.knots:\n            return other\n        all_knots = tuple(sorted(set(self.knots) & set(other.knots)))", "BOTH-MULTS", "__and__", "shortcut on equal distinct knots"),
    V("twin-filter-local", ["C20"], A, "                if np.linalg.norm(pair - filtpair) < tolerance:\n                    inside = True", "                gap = np.linalg.norm(pair - filtpair)\n                if gap < tolerance:\n                    inside = True", None, None, "distance through a local", twin=True),
    V("filter-one-component", ["C20"], A, "                if np.linalg.norm(pair - filtpair) < tolerance:\n                    inside = True", "                if abs((pair - filtpair)[0]) < tolerance:\n                    inside = True", "ALL-COMPONENTS", "filter_pairs", "only the first parameter compared"),
    V("twin-pivot-continue", ["C12"], H, "                for i in range(k + 1, side):\n                    if matrix[i, k] != 0:\n                        matrix[[k, i]] = matrix[[i, k]]\n                        break", "                for i in range(k + 1, side):\n                    if matrix[i, k] == 0:\n                        continue\n                    matrix[[k, i]] = matrix[[i, k]]\n                    break", None, None, "pivot search with continue", twin=True),
    V("twin-neg-unary", ["C08"], C, "        newctrlpoints = [-1 * ctrlpt for ctrlpt in newcurve.ctrlpoints]", "        newctrlpoints = [-ctrlpt for ctrlpt in newcurve.ctrlpoints]", None, None, "unary minus on the points", twin=True),
    V("mul-scalar-square", ["C08"], C, "            copied.ctrlpoints = [point * other for point in copied.ctrlpoints]", "            copied.ctrlpoints = [point * other * (point / point) for point in copied.ctrlpoints]", "AFFINE-MAP", "__mul__", "control points mapped by a non-affine expression on the kept basis"),
    V("twin-quotient-one-expr", ["C09"], CA, "        deriva = dnumer * denom - numer * ddenom\n        deriva /= denom * denom\n        return deriva", "        deriva = (dnumer * denom - numer * ddenom) / (denom * denom)\n        return deriva", None, None, "quotient rule in one expression", twin=True),
    V("quotient-single-denominator", ["C09"], CA, "        deriva /= denom * denom\n", "        deriva /= denom\n", "RESULT-HOMOG", "rational_spline", "divided by W instead of W^2"),
    V("twin-join-one-list", ["C07"], C, "            newweights = [factor0 * weight for weight in weights0]\n            newweights += [factor1 * weight for weight in weights1]\n", "            newweights = [factor0 * weight for weight in weights0] + [factor1 * weight for weight in weights1]\n", None, None, "joined weights in one expression", twin=True),
    V("join-own-junction-weight", ["C07"], C, "            factor0, factor1 = weights1[0], weights0[-1]\n", "            factor0, factor1 = weights0[-1], weights1[0]\n", "JOIN-HOMOG", "__or__", "each side scaled by its own junction weight"),
    V("twin-sorted-ge", ["C03"], H, "            if not vector[i] <= vector[i + 1]:\n                return False", "            if not (vector[i + 1] >= vector[i]):\n                return False", None, None, "sortedness test mirrored", twin=True),
    V("sorted-lt-reversed", ["C03"], H, "            if not vector[i] <= vector[i + 1]:\n                return False", "            if vector[i + 1] < vector[i]:\n                return False", "UNORDERED", "__is_valid", "positive rejection test lets NaN through"),
    V("twin-fit-nodes-keyword", ["C06", "C05", "C11"], C, "            transmat, materror = lstsq(vectorb, vectora, nodes)\n            transmat = np.array(transmat)\n            oldweights = other.weights", "            transmat, materror = lstsq(vectorb, vectora, fit_nodes=nodes)\n            transmat = np.array(transmat)\n            oldweights = other.weights", None, None, "nodes passed by keyword", twin=True),
]


VARIANTS += [
    V("add-missing-denominator", ["C08"], C, "        return (numa * denb + numb * dena) / (dena * denb)", "        return (numa * denb + numb) / (dena * denb)", "RESULT-HOMOG", "__add__", "cross product without the other denominator"),
    V("mul-missing-denominator", ["C08"], C, "        return (numa * numb) / (dena * denb)", "        return (numa * numb) / dena", "RESULT-HOMOG", "__mul__", "denominator of the right operand dropped"),
    V("rdiv-not-inverted", ["C08"], C, "        frac = den / num\n        return other * frac", "        frac = den * num\n        return other * frac", "RESULT-HOMOG", "__rtruediv__", "product instead of quotient of numerator and denominator"),
    V("twin-mul-locals", ["C08"], C, "        return (numa * numb) / (dena * denb)", "        numerator = numa * numb\n        denominator = dena * denb\n        return numerator / denominator", None, None, "fraction product through locals", twin=True),
    V("twin-add-common-den", ["C08"], C, "        return (numa * denb + numb * dena) / (dena * denb)", "        common = dena * denb\n        return (numa * denb) / common + (numb * dena) / common", None, None, "sum of two fractions over the common denominator", twin=True),
]


# ---- round 4 (DESIGN §16)
VARIANTS += [
    V("twin-index-or-form", ["C02"], F, "            if not (-npts <= index < npts):\n                raise IndexError", "            if index < -npts or index >= npts:\n                raise IndexError", None, None, "index range as two comparisons", twin=True),
    V("second-index-strict", ["C02"], F, "        if not (0 <= index <= self.degree):", "        if not (0 <= index < self.degree):", "INDEX-RANGE", "__valid_second_index", "sub-degree p itself refused"),
    V("twin-count-local", ["C12"], C, "        assert len(points) >= self.npts\n", "        npoints = len(points)\n        assert npoints >= self.npts\n", None, None, "count through a local", twin=True),
    V("twin-sum-with-start", ["C16"], C, "                    newpoint = 0 * numerators[0]\n                    for j, point in enumerate(numerators):\n                        newpoint = newpoint + (line[j] * invweight) * point\n", "                    newpoint = sum(((line[j] * invweight) * point for j, point in enumerate(numerators)), 0 * numerators[0])\n", None, None, "sum() with a start value of the point type", twin=True),
    V("twin-copy-generator", ["C15"], C, "            curve.ctrlpoints = [copy(point) for point in self.ctrlpoints]", "            curve.ctrlpoints = tuple(copy(point) for point in self.ctrlpoints)", None, None, "copied points in a tuple", twin=True),
    V("copy-list-of-same", ["C15"], C, "            curve.ctrlpoints = [copy(point) for point in self.ctrlpoints]", "            curve.ctrlpoints = list(self.ctrlpoints)", "FRESH", "__deepcopy__", "new list, same point objects"),
    V("twin-zeros-like-dtype", ["C09"], H, "        avals = np.zeros(npts, dtype=\"float64\")\n        for i in range(npts):\n            diff = knotvector[i + degree] - knotvector[i]", "        avals = np.zeros_like(knotvector[:npts], dtype=\"float64\")\n        for i in range(npts):\n            diff = knotvector[i + degree] - knotvector[i]", None, None, "zeros_like with an explicit dtype", twin=True),
    V("twin-error-accumulated", ["C05", "C11"], C, "            error = np.dot(np.moveaxis(numerators, 0, -1), np.dot(materror, numerators))\n            error = np.max(np.abs(error))\n            error += abs(np.dot(oldweights, np.dot(materror, oldweights)))\n", "            error = 0\n            for values in (numerators, oldweights):  # homogeneous coordinates\n                quad = np.dot(np.moveaxis(values, 0, -1), np.dot(materror, values))\n                error += np.max(np.abs(quad))\n", None, None, "error accumulated in a loop", twin=True),
    V("twin-float-probe-named", ["C03", "C16"], H, "    def __valid_single(self, node: float) -> bool:\n        try:\n            float(node)  # Verify if it's a number", "    def __valid_single(self, node: float) -> bool:\n        try:\n            _probe = float(node)  # Verify if it's a number", None, None, "probe result kept in an unused local", twin=True),
    V("twin-times-lt-one", ["C14", "C06"], C, "        if not isinstance(times, int) or times <= 0:\n            raise ValueError(f\"times = {times}\")", "        if not isinstance(times, int) or times < 1:\n            raise ValueError(f\"times = {times}\")", None, None, "times < 1", twin=True),
    V("shift-float-value", ["C18"], K, "        vector = tuple(knoti + value for knoti in self)\n        self.internal = ImmutableKnotVector(vector)", "        value = float(value)\n        vector = tuple(knoti + value for knoti in self)\n        self.internal = ImmutableKnotVector(vector)", "E8", "shift", "shift amount cast to float"),
]


VARIANTS += [
    V("rev-F34", ["C10"], CA, "            nodes = tuple((1 - node) * start + node * end for node in nodes_0to1)\n            curve_vals = tuple(piece.eval(node) for node in nodes)", "            nodes = tuple(start + (end - start) * node for node in nodes_0to1)\n            curve_vals = tuple(piece.eval(node) for node in nodes)", "END-EXACT", "Integrate.scalar", "closed nodes mapped by lo + (hi - lo) * t", near=169),
    V("rev-F35", ["C12"], C, "            nodes = tuple((1 - node) * umin + node * umax for node in nodes_0to1)", "            nodes = tuple(umin + (umax - umin) * node for node in nodes_0to1)", "END-EXACT", "fit_points", "default nodes mapped by lo + (hi - lo) * t"),
    V("twin-clamped-nodes", ["C12"], C, "            nodes = tuple((1 - node) * umin + node * umax for node in nodes_0to1)", "            nodes = tuple(min(umax, max(umin, umin + (umax - umin) * node)) for node in nodes_0to1)", None, None, "naive map, clamped to the interval", twin=True),
]


VARIANTS += [
    V("twin-linspace-tuple", ["C19"], A, "        tparams = np.linspace(umin, umax, 5)\n        tvalues = {umin, umax}", "        tparams = tuple(np.linspace(umin, umax, 5))\n        tvalues = {umin, umax}", None, None, "linspace wrapped in a tuple", twin=True),
]


# ---- round 5 (DESIGN §18)
VARIANTS += [
    V("twin-mult-named-tolerance", ["C03", "C18"], H, "        return sum(abs(node - knot) < 1e-9 for knot in self)", "        tolerance = 1e-9\n        return sum(abs(node - knot) < tolerance for knot in self)", None, None, "absolute tolerance through a local", twin=True),
    V("unique-isclose", ["C03", "C18"], H, "                if abs(node - knot) < 1e-6:\n                    break", "                if math.isclose(node, knot, abs_tol=1e-6):\n                    break", "TOL-ABSOLUTE", "__get_unique", "isclose keeps its default relative tolerance"),
    V("twin-fit-rename-weights", ["C06", "C14", "C05"], C, "            weights = np.dot(transmat, oldweights)\n            numerators = np.dot(transmat, numerators)\n            ctrlpoints = [invert(wei) * num for num, wei in zip(numerators, weights)]\n            self.weights = weights\n", "            newweights = np.dot(transmat, oldweights)\n            numerators = np.dot(transmat, numerators)\n            ctrlpoints = [invert(wei) * num for num, wei in zip(numerators, newweights)]\n            self.weights = newweights\n", None, None, "weights renamed consistently", twin=True),
    V("split-old-weights", ["C07"], C, "                    invert(w) * num for num, w in zip(numerators, newweights)\n", "                    invert(w) * num for num, w in zip(numerators, self.weights)\n", "DEHOMOG-PAIR", "Curve.split", "pieces divided by the weights of the whole curve"),
    V("twin-split-ifexp", ["C07"], C, "        if nodes is None:\n            nodes = self.knotvector.knots\n        nodes = tuple(nodes)\n        newvectors = self.knotvector.split(nodes)", "        nodes = self.knotvector.knots if nodes is None else nodes\n        nodes = tuple(nodes)\n        newvectors = self.knotvector.split(nodes)", None, None, "default substituted by a conditional expression", twin=True),
    V("clean-nodes-truthiness", ["C14"], C, "        if nodes is None:\n            nodes = self.knotvector.knots\n        nodes = tuple(nodes)\n        for node in nodes:\n", "        if not nodes:\n            nodes = self.knotvector.knots\n        nodes = tuple(nodes)\n        for node in nodes:\n", "NONE-DEFAULT", "knot_clean", "empty node list cleans every knot"),
    V("twin-eval-list", ["C01"], C, "        try:\n            nodes = tuple(nodes)\n            onevalue = False", "        try:\n            nodes = list(nodes)\n            onevalue = False", None, None, "materialised as a list", twin=True),
    V("twin-nodes-tuple-first", ["C12"], H, "        assert len(nodes) >= npts\n        if weights is None:\n            funcvals = eval_spline_nodes(knotvector, nodes, degree)", "        nodes = tuple(nodes)\n        assert len(nodes) >= npts\n        if weights is None:\n            funcvals = eval_spline_nodes(knotvector, nodes, degree)", None, None, "nodes copied into a tuple, order kept", twin=True),
    V("twin-and-front-slice", ["C17"], H, "        all_knots = tuple(sorted(set(self.knots) & set(other.knots)))", "        knotsa = set(self[self.degree : len(self) - self.degree])\n        knotsb = set(other[other.degree : len(other) - other.degree])\n        all_knots = tuple(sorted(knotsa & knotsb))", None, None, "inner knots sliced from the front", twin=True),
    V("twin-nan-or-inf", ["C19"], A, "        if not np.isfinite(float(initparam)):\n            return (umin, umax)\n        return [initparam]", "        if np.isnan(float(initparam)) or np.isinf(float(initparam)):\n            return (umin, umax)\n        return [initparam]", None, None, "isnan or isinf", twin=True),
    V("twin-classes-comprehension", ["C13", "C08"], H, "        classes = [0] * len(allknots)\n        for i, knot in enumerate(allknots):\n            multa = knotvectora.mult(knot)\n            multb = knotvectorb.mult(knot)\n            classes[i] = min(degreea - multa, degreeb - multb)\n", "        classes = [\n            min(degreea - knotvectora.mult(knot), degreeb - knotvectorb.mult(knot))\n            for knot in allknots\n        ]\n", None, None, "continuity classes in a comprehension", twin=True),
    V("twin-lcm-list", ["C16"], H, "            lcm = Math.lcm(*[Fraction(elem).denominator for elem in line])\n", "            denominators = [Fraction(elem).denominator for elem in line]\n            lcm = Math.lcm(*denominators)\n", None, None, "denominators through a local", twin=True),
    V("twin-schur-matmul", ["C11"], H, "        LL = np.dot(G, np.dot(GGinv, GT))\n", "        LL = G @ GGinv @ GT\n", None, None, "Schur complement with @", twin=True),
    V("schur-missing-inverse", ["C11"], H, "        QF = np.dot(GGinv, np.dot(GT, LLinv))\n", "        QF = np.dot(GGinv, np.dot(GT, LL))\n", None, None, "LL in the place of its inverse: dimensionally identical (degree 0), not decided", twin=True),
    V("gram-not-inverted", ["C11"], H, "            T = np.dot(GGinv, GF)\n            E = FF - np.dot(GF.T, T)\n", "            T = np.dot(GGinv, GF)\n            E = FF - np.dot(GF.T, np.dot(GG, T))\n", "BASIS-HOMOG", "func2func", "a Gram matrix too many in the error"),
    V("twin-speed-dot", ["C10"], CA, "            abscurve_vals = tuple(np.sqrt(float(val @ val)) for val in curve_vals)", "            abscurve_vals = tuple(np.sqrt(float(np.dot(val, val))) for val in curve_vals)", None, None, "norm with np.dot", twin=True),
]


# ---- round 6 (DESIGN §20)
VARIANTS += [
    V("eval-forward-cursor", ["C01"], H, "    for j, node in enumerate(nodes):\n        span = knotvector.span(node)\n        ind = spans.index(span)\n        shifnode = node - knots[ind]", "    ind = 0\n    for j, node in enumerate(nodes):\n        span = knotvector.span(node)\n        while spans[ind] < span:\n            ind += 1\n        shifnode = node - knots[ind]", "NODE-LOCAL", "eval_spline_nodes", "span index kept as a forward-only cursor over the nodes"),
    V("twin-eval-span-cache", ["C01"], H, "    for j, node in enumerate(nodes):\n        span = knotvector.span(node)\n        ind = spans.index(span)\n        shifnode = node - knots[ind]", "    lastspan, ind = None, 0\n    for j, node in enumerate(nodes):\n        span = knotvector.span(node)\n        if span != lastspan:\n            ind = spans.index(span)\n            lastspan = span\n        shifnode = node - knots[ind]", None, None, "index recomputed only when the span changes (carried, but reset from the node)", twin=True),
    V("twin-eval-manual-counter", ["C01"], H, "    for j, node in enumerate(nodes):\n        span = knotvector.span(node)\n        ind = spans.index(span)\n", "    j = -1\n    for node in nodes:\n        j += 1\n        span = knotvector.span(node)\n        ind = spans.index(span)\n", None, None, "column counted by hand", twin=True),
    V("valid-probe-all-map", ["C03"], H, "            for knot in vector:\n                float(knot)\n        except TypeError:\n            return False\n        lenght = len(vector)", "            all(map(float, vector))\n        except TypeError:\n            return False\n        lenght = len(vector)", "PROBE-ALL", "__is_valid", "numeric probe through all(): stops at the first knot 0"),
    V("twin-valid-probe-listcomp", ["C03"], H, "            for knot in vector:\n                float(knot)\n        except TypeError:\n            return False\n        lenght = len(vector)", "            [float(knot) for knot in vector]\n        except TypeError:\n            return False\n        lenght = len(vector)", None, None, "numeric probe in a list comprehension", twin=True),
    V("twin-valid-probe-tuple-map", ["C03"], H, "            for knot in vector:\n                float(knot)\n        except TypeError:\n            return False\n        lenght = len(vector)", "            tuple(map(float, vector))\n        except TypeError:\n            return False\n        lenght = len(vector)", None, None, "numeric probe through tuple(map())", twin=True),
    V("split-cuts-not-distinct", ["C07"], H, "        nodes = set(nodes)\n        if len(nodes) == 0:\n            return (self,)\n        nodes = tuple(sorted(nodes | set(self.limits)))\n", "        umin, umax = self.limits\n        nodes = sorted(node for node in nodes if umin < node < umax)\n        if len(nodes) == 0:\n            return (self,)\n        nodes = [umin] + nodes + [umax]\n", "CUTS-DISTINCT", "ImmutableKnotVector.split", "cut points sorted but not de-duplicated"),
    V("twin-split-cuts-frozenset", ["C07", "C03"], H, "        nodes = set(nodes)\n        if len(nodes) == 0:\n            return (self,)\n        nodes = tuple(sorted(nodes | set(self.limits)))\n", "        if len(nodes) == 0:\n            return (self,)\n        nodes = sorted(frozenset(nodes) | frozenset(self.limits))\n", None, None, "de-duplicated once, with frozenset", twin=True),
    V("add-interval-containment", ["C08"], C, "        if self.knotvector.limits != other.knotvector.limits:\n            raise ValueError\n        if self.weights is None and other.weights is None:\n            vecta, vectb = tuple(self.knotvector), tuple(other.knotvector)\n            matra, matrb = heavy.MathOperations.add_spline_curve(vecta, vectb)", "        if not self.knotvector.valid(other.knotvector.limits):\n            raise ValueError\n        if self.weights is None and other.weights is None:\n            vecta, vectb = tuple(self.knotvector), tuple(other.knotvector)\n            matra, matrb = heavy.MathOperations.add_spline_curve(vecta, vectb)", "SAME-INTERVAL", "__add__", "interval guard is a containment"),
    V("twin-add-interval-ends", ["C08"], C, "        if self.knotvector.limits != other.knotvector.limits:\n            raise ValueError\n        if self.weights is None and other.weights is None:\n            vecta, vectb = tuple(self.knotvector), tuple(other.knotvector)\n            matra, matrb = heavy.MathOperations.add_spline_curve(vecta, vectb)", "        if tuple(self.knotvector.limits) != tuple(other.knotvector.limits):\n            raise ValueError\n        if self.weights is None and other.weights is None:\n            vecta, vectb = tuple(self.knotvector), tuple(other.knotvector)\n            matra, matrb = heavy.MathOperations.add_spline_curve(vecta, vectb)", None, None, "limits compared as tuples", twin=True),
    V("error-short-form-constrained", ["C05", "C11"], H, "        E = (FF - 2 * np.dot(T.T, GF) + np.dot(T.T, np.dot(GG, T))) / 2\n", "        E = (FF - np.dot(T.T, GF)) / 2\n", "ERROR-QUADRATIC", "func2func", "short error formula used with the constrained T"),
    V("twin-error-residual-form", ["C05", "C11"], H, "        E = (FF - 2 * np.dot(T.T, GF) + np.dot(T.T, np.dot(GG, T))) / 2\n", "        residual = GF - np.dot(GG, T)\n        E = (FF - np.dot(T.T, GF) - np.dot(T.T, residual)) / 2\n", None, None, "quadratic form written with the residual of the normal equations", twin=True),
    V("decrease-nodes-of-old", ["C14", "C06"], C, "        newknotvec = copy(self.knotvector)\n        newknotvec.degree -= times\n        knots = newknotvec.knots if newknotvec.degree != 0 else None\n", "        knots = self.knots if times < self.degree else None\n        newknotvec = copy(self.knotvector)\n        newknotvec.degree -= times\n", "NODES-OF-NEW", "degree_decrease", "interpolation nodes are the knots of the old vector"),
    V("decrease-nodes-before-lowering", ["C14", "C06"], C, "        newknotvec = copy(self.knotvector)\n        newknotvec.degree -= times\n        knots = newknotvec.knots if newknotvec.degree != 0 else None\n", "        newknotvec = copy(self.knotvector)\n        knots = newknotvec.knots if newknotvec.degree != times else None\n        newknotvec.degree -= times\n", "NODES-OF-NEW", "degree_decrease", "knots taken from the copy before its degree is lowered"),
    V("twin-decrease-nodes-none-first", ["C14", "C06"], C, "        newknotvec = copy(self.knotvector)\n        newknotvec.degree -= times\n        knots = newknotvec.knots if newknotvec.degree != 0 else None\n", "        newknotvec = copy(self.knotvector)\n        newknotvec.degree -= times\n        knots = None if newknotvec.degree == 0 else newknotvec.knots\n", None, None, "conditional the other way round", twin=True),
    V("evaluator-slice-rebuilt", ["C02"], "functions", "        vector = func.knotvector\n        self.__knotvector = vector\n        self.__weights = func.weights\n", "        vector = func.knotvector\n        if isinstance(i, slice):\n            i = slice(*i.indices(vector.npts))\n        self.__knotvector = vector\n        self.__weights = func.weights\n", "SLICE-REBUILD", "FunctionEvaluator.__init__", "slice resolved against npts and rebuilt as a slice"),
    V("twin-evaluator-rows-range", ["C02"], "functions", "        vector = func.knotvector\n        self.__knotvector = vector\n        self.__weights = func.weights\n", "        vector = func.knotvector\n        rows = range(*i.indices(vector.npts)) if isinstance(i, slice) else None\n        self.__knotvector = vector\n        self.__weights = func.weights\n", None, None, "resolved rows kept as a range (unused)", twin=True),
    V("derivate-point-differences", ["C09"], CA, "        matrix = heavy.Calculus.derivate_nonrational_spline(tuple(knotvector))\n        ctrlpoints = np.dot(matrix, curve.ctrlpoints)\n", "        matrix = heavy.Calculus.derivate_nonrational_spline(tuple(knotvector))\n        points = curve.ctrlpoints\n        ctrlpoints = tuple(line[i + 1] * (points[i + 1] - points[i]) for i, line in enumerate(matrix))\n", "POINT-OPS", "nonrational_spline", "differences of control points"),
    V("twin-derivate-explicit-sum", ["C09"], CA, "        matrix = heavy.Calculus.derivate_nonrational_spline(tuple(knotvector))\n        ctrlpoints = np.dot(matrix, curve.ctrlpoints)\n", "        matrix = heavy.Calculus.derivate_nonrational_spline(tuple(knotvector))\n        points = curve.ctrlpoints\n        ctrlpoints = tuple(line[i] * points[i] + line[i + 1] * points[i + 1] for i, line in enumerate(matrix))\n", None, None, "bidiagonal product written out with scalar * point + scalar * point", twin=True),
    V("rev-F36", ["C20"], A, "        uasample = [(1 - node) * uamin + node * uamax for node in nodes_a_sample]\n", "        uasample = [uamin + (uamax - uamin) * node for node in nodes_a_sample]\n", "END-EXACT", "bcurve_and_bcurve", "closed sample mapped by lo + (hi - lo) * t"),
    V("twin-sample-clamped", ["C20"], A, "        uasample = [(1 - node) * uamin + node * uamax for node in nodes_a_sample]\n", "        uasample = [min(uamax, uamin + (uamax - uamin) * node) for node in nodes_a_sample]\n", None, None, "naive map, clamped to the upper end", twin=True),
    V("rev-F37", ["C03"], H, "        if not (umin <= node <= umax):  # False also for a NaN, never ordered\n            return False\n        return True\n", "        if node < umin or umax < node:\n            return False\n        return True\n", "NAN-REJECT", "__valid_single", "validity by excluding the two outsides: a NaN passes"),
    V("twin-valid-nan-selftest", ["C03", "C01"], H, "        if not (umin <= node <= umax):  # False also for a NaN, never ordered\n            return False\n        return True\n", "        if node < umin or umax < node or node != node:\n            return False\n        return True\n", None, None, "outsides excluded, NaN excluded by node != node", twin=True),
    V("twin-valid-two-tests", ["C03", "C01"], H, "        if not (umin <= node <= umax):  # False also for a NaN, never ordered\n            return False\n        return True\n", "        if not umin <= node:\n            return False\n        if not node <= umax:\n            return False\n        return True\n", None, None, "two positive tests", twin=True),
    V("rev-F38", ["C11", "C16"], H, "        nptsinteg = max(olddegree + newdegree + 3, 2 * max(olddegree, newdegree) + 1)\n", "        nptsinteg = olddegree + newdegree + 3\n", "QUAD-ORDER", "func2func", "p + q + 3 integration points"),
    V("twin-quad-order-generous", ["C11", "C16"], H, "        nptsinteg = max(olddegree + newdegree + 3, 2 * max(olddegree, newdegree) + 1)\n", "        nptsinteg = 2 * max(olddegree, newdegree) + 3\n", None, None, "2 max(p, q) + 3 integration points", twin=True),
    V("rev-F39", ["C08"], H, "            nodes = tuple((1 - node) * start + node * end for node in nodes0to1)\n            allevalnodes[i * nptseval : (i + 1) * nptseval] = nodes\n", "            nodes = tuple(start + (end - start) * node for node in nodes0to1)\n            allevalnodes[i * nptseval : (i + 1) * nptseval] = nodes\n", "END-EXACT", "mul_spline_curve", "closed sample mapped by lo + (hi - lo) * t"),
    V("rev-F40", ["C08"], C, "                [pt0 @ pt1 for pt1 in other.ctrlpoints] for pt0 in self.ctrlpoints\n", "                [pt0 @ pt1 for pt0 in self.ctrlpoints] for pt1 in other.ctrlpoints\n", "AXIS-ORDER", "__matmul__", "table of point products transposed"),
    V("rev-F41", ["C05"], H, "        integrator = np.array(integrator, dtype=numbtype)\n", "        integrator = np.array(integrator)\n", "DTYPE-AGREE", "func2func", "integration weights without the accumulator's dtype"),
    V("rev-F42", ["C17", "C08"], H, "                mult = vector.mult(knot) + raised\n", "                mult = vector.mult(knot)\n", "UNION-DEGREE", "ImmutableKnotVector.__or__", "union multiplicities not raised by the degree difference"),
    V("twin-union-raise-inline", ["C17", "C08"], H, "                mult = vector.mult(knot) + raised\n", "                mult = vector.mult(knot) + (degree - vector.degree)\n", None, None, "degree difference added inline", twin=True),
    V("rev-F43", ["C08"], C, "            ctrlpoints = ctrlpoints + np.array(matrb, dtype=\"object\") @ other.ctrlpoints\n", "            ctrlpoints += np.array(matrb, dtype=\"object\") @ other.ctrlpoints\n", "INPLACE-MIX", "__add__", "second contribution added in place"),
    V("twin-add-one-expression", ["C08"], C, "            ctrlpoints = np.array(matra, dtype=\"object\") @ self.ctrlpoints\n            ctrlpoints = ctrlpoints + np.array(matrb, dtype=\"object\") @ other.ctrlpoints\n", "            ctrlpoints = np.array(matra, dtype=\"object\") @ self.ctrlpoints + np.array(matrb, dtype=\"object\") @ other.ctrlpoints\n", None, None, "sum written as one expression", twin=True),
    V("rev-F44", ["C03", "C04"], H, "        nodes = tuple(nodes)  # A one-pass iterable is walked only here\n        newvector = sorted(list(self) + list(nodes))\n", "        newvector = sorted(list(self) + list(nodes))\n", "WALK-ONCE", "ImmutableKnotVector.__add__", "nodes walked twice without being materialised"),
    V("twin-add-nodes-list", ["C03", "C04"], H, "        nodes = tuple(nodes)  # A one-pass iterable is walked only here\n        newvector = sorted(list(self) + list(nodes))\n", "        nodes = list(nodes)\n        newvector = sorted(list(self) + nodes)\n", None, None, "materialised as a list", twin=True),
    V("rev-F45", ["C15"], H, "    manyvalues = list(manyvalues)\n    manynodes = list(manynodes)\n", "    manyvalues = tuple(manyvalues)\n", "TUPLE-MUTATE", "find_roots", "samples kept as tuples and popped"),
    V("rev-F46", ["C10"], CA, "            abscurve_vals = tuple(np.sqrt(float(val @ val)) for val in curve_vals)", "            abscurve_vals = tuple(np.sqrt(val @ val) for val in curve_vals)", "UFUNC-FLOAT", "Integrate.density", "np.sqrt of an unconverted inner product"),
    V("rev-F47", ["C19"], A, "        if not np.isfinite(float(initparam)):\n", "        if not np.isfinite(initparam):\n", "UFUNC-FLOAT", "newton_point_on_curve", "np.isfinite of an unconverted parameter"),
    V("twin-density-float-array", ["C10"], CA, "            abscurve_vals = tuple(np.sqrt(float(val @ val)) for val in curve_vals)", "            abscurve_vals = tuple(np.linalg.norm(np.array(val, dtype=\"float64\")) for val in curve_vals)", None, None, "norm of a float array", twin=True),
    V("insert-divide-by-umax", ["C04"], H, "        one = knotvector[-1] - knotvector[0]\n", "        one = knotvector[-1]\n", "D", "one_knot_insert_once", "unit made from the last knot alone (0 for an interval ending at 0)", near=908),
    V("increase-in-place-kv", ["C06"], C, "        nodes = self.knotvector.knots\n        newnodes = times * nodes\n        newvector = self.knotvector + newnodes\n        oldvector = tuple(self.knotvector)\n        matrix = heavy.Operations.degree_increase(oldvector, times)\n", "        oldvector = tuple(self.knotvector)\n        matrix = heavy.Operations.degree_increase(oldvector, times)\n        newvector = KnotVector(self.knotvector)\n        newvector.degree += times\n", "SHARED-KV", "degree_increase", "the stored KnotVector object is elevated in place"),
]


# ---- round 7 (DESIGN §22)
VARIANTS += [
    V("eval-absolute-denominator", ["C01"], H, "        denom = np.inner(rationalvals[:, j], weights)\n        for i, weight in enumerate(weights):\n", "        denom = np.inner(rationalvals[:, j], weights)\n        if not abs(denom) > 1e-12:\n            raise ValueError\n        for i, weight in enumerate(weights):\n", "WEIGHT-SCALE", "eval_rational_nodes", "denominator compared with an absolute tolerance"),
    V("twin-eval-zero-denominator", ["C01"], H, "        denom = np.inner(rationalvals[:, j], weights)\n        for i, weight in enumerate(weights):\n", "        denom = np.inner(rationalvals[:, j], weights)\n        if denom == 0:\n            raise ZeroDivisionError\n        for i, weight in enumerate(weights):\n", None, None, "denominator compared with exactly 0 (scale-free)", twin=True),
    V("fit-poly-basis-low-degree", ["C12"], H, "        if weights is None:\n            funcvals = eval_spline_nodes(knotvector, nodes, degree)\n        else:\n            funcvals = eval_rational_nodes(knotvector, weights, nodes, degree)\n        return Linalg.lstsq(np.transpose(funcvals))", "        if weights is None or degree < 2:\n            funcvals = eval_spline_nodes(knotvector, nodes, degree)\n        else:\n            funcvals = eval_rational_nodes(knotvector, weights, nodes, degree)\n        return Linalg.lstsq(np.transpose(funcvals))", "POLY-ONLY", "LeastSquare.fit_function", "polynomial basis for rational curves of degree < 2"),
    V("twin-fit-rational-first", ["C12"], H, "        if weights is None:\n            funcvals = eval_spline_nodes(knotvector, nodes, degree)\n        else:\n            funcvals = eval_rational_nodes(knotvector, weights, nodes, degree)\n        return Linalg.lstsq(np.transpose(funcvals))", "        if weights is not None:\n            funcvals = eval_rational_nodes(knotvector, weights, nodes, degree)\n        else:\n            funcvals = eval_spline_nodes(knotvector, nodes, degree)\n        return Linalg.lstsq(np.transpose(funcvals))", None, None, "branches the other way round", twin=True),
    V("gram-spans-intersection", ["C11", "C13"], H, "        allknots = list(set(oldknots + newknots))\n        allknots.sort()\n", "        allknots = sorted(set(oldknots) & set(newknots))\n", "SPANS-UNION", "func2func", "quadrature over the common knots only"),
    V("twin-gram-spans-union-operator", ["C11", "C13", "C05"], H, "        allknots = list(set(oldknots + newknots))\n        allknots.sort()\n", "        allknots = sorted(set(oldknots) | set(newknots))\n", None, None, "union written with |", twin=True),
    V("limits-from-knots", ["C03"], H, "        return (self[self.degree], self[self.npts])\n", "        knots = self.knots\n        return (knots[0], knots[-1])\n", "LIMITS-RAW", "limits", "limits taken from the tolerance-merged knots"),
    V("twin-limits-from-the-back", ["C03", "C01"], H, "        return (self[self.degree], self[self.npts])\n", "        return (self[self.degree], self[-self.degree - 1])\n", None, None, "upper end indexed from the back", twin=True),
    V("newton-return-before-step", ["C20"], A, "            deltapair = np.linalg.solve(ggrad, grad)\n            pair -= deltapair\n", "            deltapair = np.linalg.solve(ggrad, grad)\n            if np.linalg.norm(deltapair) < 1e-9:\n                return tuple(pair)\n            pair -= deltapair\n", "STEP-APPLIED", "newton_bcurve_and_bcurve", "converged iterate returned before the last step is applied"),
    V("twin-newton-flag-before-step", ["C20"], A, "            deltapair = np.linalg.solve(ggrad, grad)\n            pair -= deltapair\n", "            deltapair = np.linalg.solve(ggrad, grad)\n            small = np.linalg.norm(deltapair) < 1e-9\n            pair -= deltapair\n", None, None, "size of the step measured before it is applied (unused flag)", twin=True),
    V("evaluator-negative-index-short-table", ["C02"], F, "        self.__first_index = i\n", "        if isinstance(i, int) and i < 0:\n            i += len(vector) - j - 1\n        self.__first_index = i\n", "ROW-INDEX", "FunctionEvaluator.__init__", "negative index resolved with len(U) - j - 1"),
    V("twin-evaluator-negative-index-npts", ["C02"], F, "        self.__first_index = i\n", "        if isinstance(i, int) and i < 0:\n            i += vector.npts\n        self.__first_index = i\n", None, None, "negative index resolved with npts", twin=True),
    V("transformation-repeats-limits", ["C08"], H, "        knotvectora = knotvectora + (degreeb - degreea) * knotsa\n", "        knotvectora = knotvectora + (degreeb - degreea) * knotvectora.limits\n", "ELEVATED-VECTOR", "matrix_transformation", "elevated vector repeats the two ends only"),
    V("twin-transformation-inline-knots", ["C08"], H, "        knotvectora = knotvectora + (degreeb - degreea) * knotsa\n", "        knotvectora = knotvectora + (degreeb - degreea) * knotvectora.knots\n", None, None, "distinct knots read in place", twin=True),
    V("twin-find-roots-matmul", ["C15"], H, "    manyvalues = np.dot(np.transpose(matrixeval), ctrlvalues)\n", "    manyvalues = np.transpose(matrixeval) @ ctrlvalues\n", None, None, "contraction written with @", twin=True),
    V("twin-random-item", ["C18"], K, "        weights = [cls(int(weight)) for weight in weights]\n", "        weights = [cls(weight.item()) for weight in weights]\n", None, None, "numpy scalar converted with .item()", twin=True),
    V("twin-derivate-rebind-scaled", ["C19", "C09"], H, "        matrix /= knotvector[-1] - knotvector[0]\n", "        matrix = matrix / (knotvector[-1] - knotvector[0])\n", None, None, "division rebinds the matrix instead of working in place", twin=True),
    V("twin-apply-sum-with-start", ["C04", "C16"], C, "                    newpoint = 0 * numerators[0]\n                    for j, point in enumerate(numerators):\n                        newpoint = newpoint + (line[j] * invweight) * point\n", "                    newpoint = sum(((coef * invweight) * point for coef, point in zip(line, numerators)), start=0 * numerators[0])\n", None, None, "sum() started from a zero point", twin=True),
]


# ---- round 8 (DESIGN §25): twins of the new rules (the seeds themselves are the faults)
VARIANTS += [
    V("twin-limits-guard-unpacked", ["C17", "C03"], H, "        other = ImmutableKnotVector(other)\n        if self.limits != other.limits:\n            raise ValueError\n        all_knots = list(self.knots) + list(other.knots)\n", "        other = ImmutableKnotVector(other)\n        umin, umax = self.limits\n        vmin, vmax = other.limits\n        if umin != vmin or umax != vmax:\n            raise ValueError\n        all_knots = list(self.knots) + list(other.knots)\n", None, None, "interval test written end by end", twin=True),
    V("twin-newton-candidates-list", ["C19"], A, "        tvalues = {umin, umax}", "        tvalues = set([umin, umax])", None, None, "candidate set built from a list", twin=True),
    V("twin-gate-tolerance-le", ["C05", "C16"], C, "        if tolerance is not None and error > tolerance:\n", "        if tolerance is not None and not error <= tolerance:\n", None, None, "refusal written as not error <= tolerance", twin=True),
    V("twin-remove-guard-new-degree-first", ["C05"], C, "        newknotvec = self.knotvector - tuple(nodes)\n        knots = newknotvec.knots if newknotvec.degree != 0 else None\n", "        newknotvec = self.knotvector - tuple(nodes)\n        knots = None if newknotvec.degree == 0 else newknotvec.knots\n", None, None, "guard on the new degree, other way round", twin=True),
    V("twin-or-default-ones-list", ["C07"], C, "            if weights1 is None:\n                weights1 = (1,) * npts1\n", "            if weights1 is None:\n                weights1 = [1] * othercopy.npts\n", None, None, "stand-in weights as a list sized by the same operand", twin=True),
    V("twin-fit-error-max-abs-inline", ["C14", "C05"], C, "            error = np.max(np.abs(error))\n            error += abs(np.dot(oldweights, np.dot(materror, oldweights)))\n", "            error = np.abs(error).max()\n            error += abs(np.dot(oldweights, np.dot(materror, oldweights)))\n", None, None, "largest absolute entry with the method form", twin=True),
    V("twin-scalar-nodes-renamed", ["C10"], CA, "            nodes = tuple((1 - node) * start + node * end for node in nodes_0to1)\n            curve_vals = tuple(piece.eval(node) for node in nodes)\n            function_vals = tuple(function(node) for node in nodes)\n", "            spannodes = tuple((1 - node) * start + node * end for node in nodes_0to1)\n            curve_vals = tuple(piece.eval(node) for node in spannodes)\n            function_vals = tuple(function(node) for node in spannodes)\n", None, None, "mapped nodes renamed", twin=True, near=169),
]


# ---- round 9 (DESIGN §28): reverted repairs and twins of the new rules (the seeds themselves are the faults)
VARIANTS += [
    V("rev-F48", ["C09"], H, "        rows = [\n            i\n            for i in range(knotvector.npts)\n            if knotvector[i + degree] != knotvector[i]\n        ]\n        matrix = np.transpose(matrix)[rows]\n", "        matrix = np.transpose(matrix)[1:]\n", "COUNT-PAIR", "Derivate.nonrational_spline", "fixed number of derivative rows for a data-dependent number of removed knots"),
    V("rev-F49", ["C08"], C, "            matrix2d = [\n                [pt0 * pt1 for pt1 in other.ctrlpoints] for pt0 in self.ctrlpoints\n            ]\n            matrix3d = np.array(matrix3d)\n            matrix2d = np.array(matrix2d)\n            ctrlpoints = [\n                np.tensordot(matrix3d[:, i, :], matrix2d, axes=2)\n                for i in range(matrix3d.shape[1])\n            ]\n            curve = Curve(vectmul, ctrlpoints)\n", "            ctrlpoints = np.tensordot(\n                np.moveaxis(self.ctrlpoints, 0, -1), matrix3d, axes=1\n            )\n            ctrlpoints = ctrlpoints @ other.ctrlpoints\n            curve = Curve(vectmul, ctrlpoints)\n", "AXIS-FIRST", "__mul__", "coordinate axis of the left operand first"),
    V("mul-table-transposed", ["C08"], C, "                [pt0 * pt1 for pt1 in other.ctrlpoints] for pt0 in self.ctrlpoints\n", "                [pt0 * pt1 for pt0 in self.ctrlpoints] for pt1 in other.ctrlpoints\n", "AXIS-ORDER", "__mul__", "table of pairwise products of A * B transposed"),
    V("twin-mul-moveaxis-back", ["C08"], C, "            matrix2d = [\n                [pt0 * pt1 for pt1 in other.ctrlpoints] for pt0 in self.ctrlpoints\n            ]\n            matrix3d = np.array(matrix3d)\n            matrix2d = np.array(matrix2d)\n            ctrlpoints = [\n                np.tensordot(matrix3d[:, i, :], matrix2d, axes=2)\n                for i in range(matrix3d.shape[1])\n            ]\n", "            table = np.array([[pt0 * pt1 for pt1 in other.ctrlpoints] for pt0 in self.ctrlpoints])\n            cube = np.array(matrix3d)\n            ctrlpoints = [np.tensordot(cube[:, j, :], table, axes=2) for j in range(cube.shape[1])]\n", None, None, "the same table with other local names", twin=True),
    V("rev-F50", ["C15"], C, "        nodes = tuple(nodes)\n        for node in nodes:\n            float(node)  # Verify if it's a number, before any removal\n        nodes = tuple(set(nodes) - set(self.knotvector.limits))\n", "        nodes = tuple(set(nodes) - set(self.knotvector.limits))\n", "COMMIT-LOOP", "knot_clean", "elements of nodes validated between commits"),
    V("twin-knot-clean-valid-first", ["C15", "C14"], C, "        nodes = tuple(nodes)\n        for node in nodes:\n            float(node)  # Verify if it's a number, before any removal\n        nodes = tuple(set(nodes) - set(self.knotvector.limits))\n", "        nodes = list(nodes)\n        [float(node) for node in nodes]\n        nodes = tuple(set(nodes) - set(self.knotvector.limits))\n", None, None, "all nodes probed by a comprehension before the loop", twin=True),
    V("twin-degree-setter-raise-valueerror", ["C15", "C03"], K, "        diff = int(value) - self.degree\n", "        if int(value) < 0:\n            raise ValueError(\"negative degree\")\n        diff = int(value) - self.degree\n", None, None, "negative degree refused with ValueError", twin=True),
    V("twin-insert-guard-swapped", ["C04"], C, "        if self.ctrlpoints is None and self.weights is None:\n            self.knotvector = newvector\n            return\n", "        if self.weights is None and self.ctrlpoints is None:\n            self.knotvector = newvector\n            return\n", None, None, "conjuncts of the no-control-points shortcut swapped", twin=True),
    V("twin-evaluator-weights-local", ["C02"], F, "        self.__weights = func.weights\n", "        weights = func.weights\n        self.__weights = weights\n", None, None, "weights through a local", twin=True),
    V("twin-fit-poly-error-method-max", ["C11", "C05"], C, "        error = np.max(np.abs(error))\n        self.ctrlpoints = ctrlpoints\n", "        error = np.abs(error).max()\n        self.ctrlpoints = ctrlpoints\n", None, None, "maximum of absolute values as a method call", twin=True),
    V("twin-random-count-local", ["C18"], K, "        weights = np.random.randint(1, 1000, npts - degree)\n", "        nspans = npts - degree\n        weights = np.random.randint(1, 1000, size=nspans)\n", None, None, "count through a local and a keyword", twin=True),
    V("twin-min-distance-explicit-default", ["C20"], A, "        pairs = Intersection.pairs_min_distance(pairs, curvea, curveb)\n        return pairs\n", "        pairs = Intersection.pairs_min_distance(pairs, curvea, curveb, 0.000000001)\n        return pairs\n", None, None, "the default tolerance written out", twin=True),
    V("twin-fit-weights-error-inline", ["C06", "C19", "C05", "C14"], C, "            error += abs(np.dot(oldweights, np.dot(materror, oldweights)))\n", "            error += abs(np.dot(other.weights, np.dot(materror, other.weights)))\n", None, None, "the weights term written with other.weights", twin=True),
    V("twin-lstsq-normal-local", ["C12"], H, "        return Linalg.solve(matrix.T @ matrix, matrix.T)\n", "        transposed = matrix.T\n        normal = transposed @ matrix\n        return Linalg.solve(normal, transposed)\n", None, None, "normal equations through locals", twin=True),
    V("twin-knot-remove-nodes-list", ["C05"], C, "        nodes = tuple(nodes)\n        for node in nodes:\n            float(node)\n        newknotvec = self.knotvector - tuple(nodes)\n", "        nodes = list(nodes)\n        for node in nodes:\n            float(node)\n        newknotvec = self.knotvector - tuple(nodes)\n", None, None, "nodes materialised as a list", twin=True),
    V("twin-union-own-knots-attr", ["C17", "C08"], H, "            for knot in vector:\n                index = all_knots.index(knot)\n", "            for knot in vector.knots:\n                index = all_knots.index(knot)\n", None, None, "the operand's distinct knots walked instead of all its entries", twin=True),
    V("lstsq-row-scaling", ["C12"], H, "        return Linalg.solve(matrix.T @ matrix, matrix.T)\n", "        scale = np.abs(matrix).max(axis=1)\n        matrix = matrix / scale[:, None]\n        return Linalg.solve(matrix.T @ matrix, matrix.T) / scale\n", "LSTSQ-ROWS", "lstsq", "rows normalised before the normal equations"),
    V("eval-zero-from-last-node", ["C01"], H, "    result = np.zeros((npts, len(nodes)), dtype=\"object\")\n", "    result = np.zeros((npts, len(nodes)), dtype=\"object\") + 0 * nodes[-1]\n", "NODE-EACH", "eval_spline_nodes", "typed zero taken from the last node"),
    V("rev-F51", ["C03"], H, "        try:\n            nodes = tuple(nodes)  # A one-pass iterable is walked only here\n        except TypeError:\n            pass\n        if not self.valid(nodes):\n            raise ValueError\n        try:\n            return tuple(map(self.span, nodes))\n", "        if not self.valid(nodes):\n            raise ValueError\n        try:\n            return tuple(map(self.span, nodes))\n", "WALK-ONCE", "span", "nodes walked by valid() and again by map()"),
    V("twin-span-materialise-list", ["C03", "C01"], H, "        try:\n            nodes = tuple(nodes)  # A one-pass iterable is walked only here\n        except TypeError:\n            pass\n        if not self.valid(nodes):\n            raise ValueError\n        try:\n            return tuple(map(self.span, nodes))\n", "        try:\n            nodes = list(nodes)\n        except TypeError:\n            pass\n        if not self.valid(nodes):\n            raise ValueError\n        try:\n            return tuple(map(self.span, nodes))\n", None, None, "nodes materialised as a list", twin=True),
    V("rev-F52", ["C08", "C16"], C, "            ctrlpoints = np.array(matra, dtype=\"object\") @ self.ctrlpoints\n", "            ctrlpoints = np.array(matra) @ self.ctrlpoints\n", "INT-MATRIX", "__add__", "transformation matrix of A + B converted without dtype=object"),
    V("rev-F52-heavy", ["C08"], H, "        finalresult = np.array(matrix_knotins, dtype=\"object\") @ matrix_deginc\n", "        finalresult = np.array(matrix_knotins) @ matrix_deginc\n", "INT-MATRIX", "matrix_transformation", "matrix product of the two transformations in int64"),
    V("twin-add-object-matrices-local", ["C08", "C16"], C, "            ctrlpoints = np.array(matra, dtype=\"object\") @ self.ctrlpoints\n            ctrlpoints = ctrlpoints + np.array(matrb, dtype=\"object\") @ other.ctrlpoints\n", "            matra = np.array(matra, dtype=object)\n            matrb = np.array(matrb, dtype=object)\n            ctrlpoints = matra @ self.ctrlpoints\n            ctrlpoints = ctrlpoints + matrb @ other.ctrlpoints\n", None, None, "object matrices through locals", twin=True),
    V("twin-derivative-rows-generator", ["C09"], H, "        rows = [\n            i\n            for i in range(knotvector.npts)\n            if knotvector[i + degree] != knotvector[i]\n        ]\n        matrix = np.transpose(matrix)[rows]\n", "        rows = list(i for i in range(1, knotvector.npts) if knotvector[i] < knotvector[i + degree])\n        matrix = np.transpose(matrix)[rows]\n", None, None, "rows selected with a generator and a strict comparison", twin=True),
]


def _sources(src_dir: str, v: dict) -> Optional[dict]:
    edits = v.get("edits") or [(v["module"], v["old"], v["new"])]
    out: Dict[str, str] = {}
    for ed in edits:
        module, old, new = ed[:3]
        hint = ed[3] if len(ed) > 3 else v.get("near")
        if module not in out:
            with open(os.path.join(src_dir, module + ".py"), encoding="utf-8") as fh:
                out[module] = fh.read()
        text = out[module]
        cnt = text.count(old)
        if cnt == 0 or (cnt > 1 and hint is None):
            return None
        if cnt == 1:
            pos = text.index(old)
        else:
            # several identical fragments (e.g. the same hunk in three sibling functions): take the one nearest to the hinted line
            cands, start = [], 0
            while True:
                i = text.find(old, start)
                if i < 0:
                    break
                cands.append(i)
                start = i + 1
            pos = min(cands, key=lambda i: abs(text.count("\n", 0, i) + 1 - hint))
        out[module] = text[:pos] + new + text[pos + len(old):]
    return out


def _hunks(diff_text: str):
    """(module, old block, new block) for every hunk of a unified diff (context lines included in both)"""
    out = []
    module = None
    old: List[str] = []
    new: List[str] = []

    hint = [None]

    def flush():
        if module and (old or new) and old != new:
            out.append((module, "".join(old), "".join(new), hint[0]))

    for line in diff_text.splitlines(keepends=True):
        if line.startswith("+++ "):
            flush()
            old, new = [], []
            path = line[4:].strip()
            module = os.path.splitext(os.path.basename(path))[0] if path.endswith(".py") else None
        elif line.startswith(("diff --git", "index ", "--- ")):
            continue
        elif line.startswith("@@"):
            flush()
            old, new = [], []
            try:
                hint[0] = int(line.split()[1].lstrip("-").split(",")[0])
            except (ValueError, IndexError):
                hint[0] = None
        elif line.startswith("-"):
            old.append(line[1:])
        elif line.startswith("+"):
            new.append(line[1:])
        elif line.startswith(" "):
            old.append(line[1:])
            new.append(line[1:])
    flush()
    return out


def seeded_variants() -> List[dict]:
    """the independently seeded changes kept under /verif/seeded (those a check is expected to report)"""
    import json

    base = os.path.join(os.path.dirname(os.path.dirname(os.path.abspath(__file__))), "seeded")
    out = []
    if not os.path.isdir(base):
        return out
    for d in sorted(os.listdir(base)):
        mp, pp = os.path.join(base, d, "meta.json"), os.path.join(base, d, "patch.diff")
        if not (os.path.exists(mp) and os.path.exists(pp)):
            continue
        meta = json.load(open(mp))
        if not meta.get("detected_by_checks") or meta.get("superseded_by"):
            continue
        edits = _hunks(open(pp).read())
        if meta.get("rebased"):
            rbs = meta["rebased"] if isinstance(meta["rebased"], list) else [meta["rebased"]]
            edits = [(rb["module"], rb["old"], rb["new"], rb.get("near")) for rb in rbs]
        exp = meta["expected_report"]
        out.append(dict(id="seeded-" + d, props=meta["detected_by_checks"], module=edits[0][0] if edits else "?", edits=edits, rule=exp["rule"], func=exp["function_contains"], what="independently seeded: " + meta["needs_to_manifest"][:140], twin=False))
    return out


def refactor_variants() -> List[dict]:
    """behaviour-preserving refactorings written by independent sub-agents (/verif/refactors): twins for every property"""
    import json

    base = os.path.join(os.path.dirname(os.path.dirname(os.path.abspath(__file__))), "refactors")
    out = []
    if not os.path.isdir(base):
        return out
    for d in sorted(os.listdir(base)):
        mp, pp = os.path.join(base, d, "meta.json"), os.path.join(base, d, "patch.diff")
        if not (os.path.exists(mp) and os.path.exists(pp)):
            continue
        meta = json.load(open(mp))
        edits = _hunks(open(pp).read())
        out.append(dict(id="refactor-" + d, props=[f"C{i:02d}" for i in range(1, 21)], module=edits[0][0] if edits else "?", edits=edits, rule=None, func=None, what="independent refactoring of: " + meta["area"][:120], twin=True, optional=True))
    return out


def _eval(args) -> dict:
    prop, v, src_dir, base_keys = args
    t0 = time.time()
    try:
        from . import model

        srcs = _sources(src_dir, v)
        if srcs is None:
            return dict(id=v["id"], status="skipped", why="anchor text not found (or not unique) in the current sources", wall=0)
        import ast as _ast
        import warnings

        with warnings.catch_warnings():
            warnings.simplefilter("ignore")
            for _m, _t in srcs.items():
                _ast.parse(_t)
        mod = importlib.import_module(f"nv.rules.{prop.lower()}")
        m = model.load(src_dir, sources=srcs, need=getattr(mod, "NEED", ("generic",)), cache=False)
        chk = Check(prop, "thorough")
        try:
            mod.run(m, chk)
        except AnalysisError as e:
            # the variant removed an anchor / emptied a floor: for a seeded fault that *is* a detection
            return dict(id=v["id"], status="detected" if not v["twin"] else "twin-analysis-error", how=f"ANALYSIS-ERROR: {e}", wall=round(time.time() - t0, 1))
        keys = {f.key() for f in chk.findings}
        new = [k for k in keys if list(k) not in base_keys]
        if v["twin"]:
            return dict(id=v["id"], status="silent" if not new else "twin-alarm", new=[list(k) for k in new][:4], wall=round(time.time() - t0, 1))
        hit = [k for k in new if k[1] == v["rule"] and v["func"] in k[2]]
        other = [k for k in new if k not in hit]
        return dict(id=v["id"], status="detected" if hit else ("detected (by another rule of this property)" if other else "MISSED"), how=[list(k) for k in (hit or other)][:3], wall=round(time.time() - t0, 1))
    except Exception as e:  # noqa
        import traceback

        return dict(id=v["id"], status="error", why=traceback.format_exc()[-600:], wall=round(time.time() - t0, 1))


def run(prop: str, chk: Check, src_dir: str = REPO_SRC, jobs: int = 16):
    mine = [v for v in VARIANTS + seeded_variants() + refactor_variants() if prop in v["props"]]
    base_keys = [list(f.key()) for f in chk.findings]
    results = []
    if mine:
        with ProcessPoolExecutor(max_workers=min(jobs, len(mine))) as ex:
            results = list(ex.map(_eval, [(prop, v, src_dir, base_keys) for v in mine]))
    by = {r["id"]: r for r in results}
    faults = [v for v in mine if not v["twin"]]
    twins = [v for v in mine if v["twin"]]
    missed = [v for v in faults if by[v["id"]]["status"] in ("MISSED", "error")]
    alarms = [v for v in twins if by[v["id"]]["status"] in ("twin-alarm", "twin-analysis-error", "error")]
    applicable = [v for v in mine if by[v["id"]]["status"] != "skipped"]
    chk.selftest = {
        "variants": len(mine),
        "applicable": len(applicable),
        "seeded_faults": len(faults),
        "seeded_faults_detected": sum(1 for v in faults if by[v["id"]]["status"].startswith("detected")),
        "twins": len(twins),
        "twins_silent": sum(1 for v in twins if by[v["id"]]["status"] == "silent"),
        "results": [dict(by[v["id"]], what=v["what"], expect=[v["rule"], v["func"]]) for v in mine],
    }
    for v in faults:
        r = by[v["id"]]
        if r["status"] == "skipped":
            chk.note(f"selftest: seeded fault {v['id']} skipped: {r['why']}")
            continue
        ok = r["status"].startswith("detected")
        chk.obligations.append({"rule": "SELFTEST-FAULT", "instance": f"{v['id']}: {v['what']} -> {v['rule']} names {v['func']}", "ok": ok, "loc": v["module"] + ".py", "detail": str(r.get("how", r.get("why", "")))[:300], "nontrivial": True})
    for v in twins:
        r = by[v["id"]]
        if r["status"] == "skipped":
            chk.note(f"selftest: twin {v['id']} skipped: {r['why']}")
            continue
        ok = r["status"] == "silent"
        chk.obligations.append({"rule": "SELFTEST-TWIN", "instance": f"{v['id']}: {v['what']} stays silent", "ok": ok, "loc": v["module"] + ".py", "detail": str(r.get("new", r.get("why", "")))[:300], "nontrivial": True})
    if missed or alarms:
        # the rules are not doing their job on this tree: that is a broken checker, not a property violation
        raise AnalysisError(
            f"{prop}: self-validation failed — seeded faults not detected: {[v['id'] for v in missed]}; twins raising an alarm: {[v['id'] for v in alarms]}; "
            + "; ".join(str(by[v['id']].get('why', by[v['id']].get('new', '')))[:200] for v in missed + alarms)
        )
    core = [v for v in mine if not v.get("optional")]
    if core and len([v for v in core if by[v["id"]]["status"] != "skipped"]) * 2 < len(core):
        raise AnalysisError(f"{prop}: fewer than half of the self-validation variants apply to the current sources ({len(applicable)}/{len(mine)}): the corpus no longer matches the code")
