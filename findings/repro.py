"""Failing inputs for the findings F1..F21, F36, F37 (F18 is open), run against the real code (not part of any check).
usage: /venv/bin/python findings/repro.py     -> prints DEFECT / ok per finding"""
import signal, sys
from fractions import Fraction as F

import numpy as np
from compmec.nurbs import Curve, KnotVector, GeneratorKnotVector, Projection, Intersection
from compmec.nurbs import heavy


def t(name, fn):
    try:
        r = fn()
        print(f"{name}: {'ok' if r is True else 'DEFECT ' + str(r)}")
    except BaseException as e:  # noqa
        print(f"{name}: DEFECT raised {type(e).__name__}: {str(e)[:80]}")


def f1():
    A = Curve([0, 0, 1, 1], [F(0), F(1)])
    B = Curve([0, 0, 1, 1], [F(0), F(1)])
    B.knot_insert([F(1, 2)])
    return True if (A == B) and (B == A) else f"A==B is {A == B}, B==A is {B == A} for B = A with a knot inserted"


def f2():
    R1 = Curve([0, 0, 0, 1, 1, 1], [F(0), F(1), F(2)], [1, 1, 1])
    R2 = Curve([0, 0, 0, 1, 1, 1], [F(0), F(1), F(2)], [1, 5, 1])
    return True if R1 != R2 else f"curves with values {R1(F(1,4))} / {R2(F(1,4))} at 1/4 compare equal"


def f3():
    pts = np.array([[0, 0], [1, 1], [2, 0]])
    C = Curve([0, 0, 0, 1, 1, 1], pts, [1, 2, 1])
    try:
        C.knot_insert([F(1, 2)])
    except Exception as e:
        return True if C.ctrlpoints is not None else f"knot_insert raised {type(e).__name__} and left ctrlpoints = None"
    ptsf = np.array([[0.0, 0.0], [1.0, 1.0], [2.0, 0.0]])
    keep = ptsf.copy()
    C = Curve([0, 0, 0, 1, 1, 1], ptsf, [1, 2, 1])
    C.knot_insert([0.5])
    return True if np.array_equal(ptsf, keep) else "the caller's point array was overwritten by knot_insert"


def f4():
    try:
        KnotVector([0, 0, 1, 1]).insert([-1, -1])
        return "KnotVector([0,0,1,1]).insert([-1,-1]) accepted"
    except ValueError:
        pass
    try:
        Curve([0, 0, 1, 1], [1, 2]).knot_insert([2])
        return "knot_insert([2]) accepted"
    except ValueError:
        return True
    except AssertionError:
        return "knot_insert([2]) raised AssertionError instead of ValueError"


def f5():
    C = Curve([0, 0, 0, 1, 1, 1])
    before = tuple(C.knotvector)
    try:
        C.knot_insert([F(1, 2), F(1, 2), F(1, 2), F(1, 2)])
    except Exception:
        pass
    C2 = Curve([0, 0, 1, 1])
    b2 = tuple(C2.knotvector)
    try:
        C2.knot_insert([2])
    except Exception:
        pass
    return True if tuple(C2.knotvector) == b2 else f"failed knot_insert changed the knot vector {b2} -> {tuple(C2.knotvector)}"


def f6():
    def alarm(*a):
        raise TimeoutError("no return within 5 s")
    signal.signal(signal.SIGALRM, alarm)
    signal.alarm(5)
    try:
        C = Curve(GeneratorKnotVector.uniform(1, 4), np.array([[0.0, 0.0], [1.0, 0.0], [1.0, 0.0], [2.0, 1.0]]))
        Projection.point_on_curve((0.5, 1.0), C)
        return True
    finally:
        signal.alarm(0)


def f7():
    A = Curve([0, 0, 1, 1], [(0.0, 0.0), (1.0, 0.0)])
    B = Curve([0, 0, 1, 1], [(5.0, 5.0), (6.0, 7.0)])
    r = Intersection.curve_and_curve(A, B)
    return True if tuple(r) == () else f"returned {r}"


def f8():
    A = Curve([0, 0, 0, 1, 1, 1], [(0.0, 0.5), (0.5, 0.0), (1.0, 0.5)])  # parabola, min height 0.25
    B = Curve([0, 0, 1, 1], [(0.0, 0.0), (1.0, 0.0)])
    r = Intersection.curve_and_curve(A, B)
    return True if len(r) == 0 else f"curves at distance 0.25 'intersect' at {r}"


def f9():
    C = Curve([0, 0, F(1, 2), 1, 1], [F(0), F(3), F(1)])
    try:
        C.knot_remove([F(1, 2)], tolerance=0)
    except ValueError:
        return True
    return "non-removable knot removed with tolerance=0"


def f10():
    A = Curve([0, 0, 1, 1], [F(1), F(2)])
    return True if (2 / A)(0) == 2 else f"(2/A)(0) = {(2 / A)(0)}"


def f11():
    R = Curve([0, 0, 0, 1, 1, 1], [F(0), F(1), F(2)], [1, 2, 1])
    a, b = R.split([F(1, 4)])
    return True if (a | b).weights is not None else "(a|b).weights is None for the pieces of a rational curve"


def f12():
    k = GeneratorKnotVector.uniform(1, 50, float)
    return True if k.limits[1] == 1 else f"uniform(1, 50, float) ends at {k.limits[1]!r}"


def f13():
    C = Curve([-1, -1, 0, 1, 1], [F(1), F(2), F(3)])
    C.knot_insert([0])
    return True


def f14():
    try:
        KnotVector([1, 1, 1, 1])
    except ValueError:
        return True
    return "accepted"


def f15():
    r = heavy.Linalg.solve([[1, 0], [0, 1]], [[2**70, 0], [0, 1]])
    return True if r[0][0] == 2**70 else f"got {r[0][0]}"


def f16():
    C = Curve([0, 0, 0, F(1, 2), 1, 1, 1], [F(1), F(2), F(0), F(3)])
    C.weights = [F(1), F(2), F(1), F(3)]
    left, right = C.split([F(1, 4)])
    return True if left(F(1, 8)) == C(F(1, 8)) and right(F(5, 8)) == C(F(5, 8)) else f"piece(1/8) = {left(F(1, 8))}, curve(1/8) = {C(F(1, 8))}"


def f17():
    J = Curve([0, 0, 1, 1], [F(0), F(1)]) | Curve([1, 1, 2, 2], [F(5), F(6)])
    return True if J(F(3, 2)) == F(11, 2) else f"(A|B)(3/2) = {J(F(3, 2))}, B(3/2) = 11/2"


def f18():
    from compmec.nurbs.calculus import Integrate

    a = Curve([0, 0, 0, F(1, 10), 1, 1, 1], [F(1), F(5), F(-2), F(3)])
    b = Curve([0, 0, 0, 1, 1, 1])
    b.fit_curve(a)
    res = a - b
    worst = max(abs(Integrate.scalar(res * Curve([0, 0, 0, 1, 1, 1], [F(int(i == j)) for j in range(3)]))) for i in range(3))
    return True if worst < 1e-12 else f"residual of fit_curve is not L2-orthogonal to the target basis on non-uniform knots: max |<r, N_i>| = {float(worst):.3g}"


def f19():
    c = Curve([0, 0, 1, 2, 2], [F(1), F(2), F(4)])
    try:
        c.knot_insert([0, 2])
    except ValueError:
        pass
    return True if c.ctrlpoints is not None and tuple(c.knotvector) == (0, 0, 1, 2, 2) else f"after the refused knot_insert([0, 2]): knotvector {tuple(c.knotvector)}, ctrlpoints {c.ctrlpoints}"


def f20():
    def mk(scale):
        c = Curve([F(0), F(0), F(0), F(1, 2), F(1), F(1), F(1)], [F(1), F(2), F(0), F(3)])
        c.weights = [scale * w for w in (F(1), F(2), F(1), F(3))]
        return c

    us = [F(i, 8) for i in range(9)]
    ref = [mk(1)(u) for u in us]
    b = mk(1)
    b.knot_insert([F(1, 4)])
    b.knot_remove([F(1, 4)])
    if [b(u) for u in us] != ref:
        return f"insert then remove 1/4 moved the rational curve by {float(max(abs(x - y) for x, y in zip([b(u) for u in us], ref))):.3g}"
    c = mk(2)
    c.degree_increase(1)
    c.degree_decrease(1)
    return True if [c(u) for u in us] == ref else "elevate + reduce changed the rational curve"


def f21():
    U = [F(0), F(0), F(0), F(1, 3), F(2, 3), F(2, 3), F(1), F(1), F(1)]
    A = Curve(U, [F(0), F(1), F(0), F(3), F(-1), F(2)])
    B = Curve([F(0), F(0), F(1), F(1)], [F(1), F(2)])
    C = A * B
    bad = [u for u in [F(i, 12) for i in range(13)] if C(u) != A(u) * B(u)]
    return True if not bad else f"(A*B)(u) != A(u)*B(u) at {len(bad)} of 13 nodes, e.g. u = {bad[0]}: {C(bad[0])} vs {A(bad[0]) * B(bad[0])}"



def f36():
    """C20: crossing segments, the first over an interval with a + (b - a) > b: ValueError before 28f8659"""
    a, b = -1.9687140472456057, 1.0365926484812507
    A = Curve([a, a, b, b], np.array([(0.0, 0.0), (1.0, 1.0)]))
    B = Curve([0.0, 0.0, 1.0, 1.0], np.array([(0.0, 1.0), (1.0, 0.0)]))
    pairs = Intersection.curve_and_curve(A, B)
    return True if len(pairs) == 1 else pairs


def f37():
    """C03 / C01: valid(nan) was True and span(nan) never returned, before fe9c32a"""
    kv = KnotVector([0.0, 0.0, 0.5, 1.0, 1.0])
    return True if kv.valid(float("nan")) is False else "valid(nan) is True: Curve(kv, ...)(nan) hangs"


for i, fn in enumerate([f1, f2, f3, f4, f5, f6, f7, f8, f9, f10, f11, f12, f13, f14, f15, f16, f17, f18, f19, f20, f21], 1):
    if len(sys.argv) > 1 and f"F{i}" not in sys.argv[1:]:
        continue
    t(f"F{i}", fn)
def f38():
    """C11: projection of a hat function onto the Bezier space of degree 4 (degrees differ by 3): residual not orthogonal before 8f7c956"""
    from compmec.nurbs.heavy import IntegratorArray, NodeSample

    C = Curve([F(0), F(0), F(1, 2), F(1), F(1)], [F(0), F(1), F(0)])
    D = Curve([F(0)] * 5 + [F(1)] * 5)
    D.fit_curve(C)
    nodes, w = NodeSample.closed_linspace(11), IntegratorArray.closed_newton_cotes(11)
    B0 = Curve([F(0)] * 5 + [F(1)] * 5, [F(1), F(0), F(0), F(0), F(0)])
    tot = F(0)
    for a, b in ((F(0), F(1, 2)), (F(1, 2), F(1))):
        for t_, wt in zip(nodes, w):
            u = (1 - t_) * a + t_ * b
            tot += (b - a) * wt * (C(u) - D(u)) * B0(u)
    return True if tot == 0 else f"<C - D, B_0> = {tot}"


def f39():
    """C08: product of two float curves over [0.03, 0.33] raised ValueError before the repair"""
    a, b = 0.03, 0.33
    A, B = Curve([a, a, b, b], [1.0, 2.0]), Curve([a, a, b, b], [3.0, -1.0])
    C = A * B
    u = (a + b) / 2
    return True if abs(C(u) - A(u) * B(u)) < 1e-12 else C(u)


def f40():
    """C08: A @ B on different knot vectors (shape error / silently wrong before 7c3b050)"""
    A3 = Curve([F(0), F(0), F(1, 2), F(1), F(1)], np.array([[F(1), F(2)], [F(3), F(-1)], [F(0), F(4)]], dtype=object))
    B = Curve([F(0), F(0), F(0), F(1), F(1), F(1)], np.array([[F(1), F(0)], [F(2), F(5)], [F(-3), F(1)]], dtype=object))
    C = A3 @ B
    bad = [u for u in (F(0), F(1, 3), F(1, 2), F(3, 4), F(1)) if C(u) != A3(u) @ B(u)]
    return True if not bad else f"(A@B)(u) != A(u)@B(u) at {bad}"


def f41():
    """C05: knot_remove of a removable knot of a float curve of degree 0 raised UFuncTypeError before the repair"""
    c = Curve([0.0, 0.5, 1.0], [1.0, 1.0])
    c.knot_remove([0.5])
    return True if tuple(c.knotvector) == (0.0, 1.0) else tuple(c.knotvector)


def f42():
    """C17 / C08: union of knot vectors of different degrees; A + B raised, A / B was wrong before d7b0e30"""
    A = Curve([F(0), F(0), F(1, 2), F(1), F(1)], [F(0), F(1), F(0)])
    B = Curve([F(0)] * 3 + [F(1)] * 3, [F(1), F(3), F(2)])
    if tuple(A.knotvector | B.knotvector) != (0, 0, 0, F(1, 2), F(1, 2), 1, 1, 1):
        return tuple(A.knotvector | B.knotvector)
    S, Q = A + B, A / B
    bad = [u for u in (F(0), F(1, 4), F(1, 2), F(3, 4), F(1)) if S(u) != A(u) + B(u) or Q(u) != A(u) / B(u)]
    return True if not bad else f"wrong at {bad}"


def f43():
    """C08: int points + float points raised UFuncTypeError before the repair"""
    A, B = Curve([0, 0, 1, 1], [1, 2]), Curve([0, 0, 1, 1], [1.5, 2.5])
    C = A + B
    return True if C(F(1, 2)) == A(F(1, 2)) + B(F(1, 2)) else C(F(1, 2))


def f44():
    """C03: insertion of an iterator of nodes outside the interval was accepted before the repair"""
    kv = KnotVector([0, 0, 1, 1])
    try:
        kv.insert(iter([2, 2]))
    except ValueError:
        return True if tuple(kv) == (0, 0, 1, 1) else tuple(kv)
    return f"accepted: {tuple(kv)}"


def f45():
    """C15: weights whose weight function is exactly 0 at an end raised AttributeError before the repair"""
    try:
        Curve([0, 0, 1, 1], [1, 2], [0, 1])
    except ValueError:
        return True
    return "accepted"


def f46():
    """C10: length of a one-segment polyline with Fraction knots raised TypeError before 983fc55"""
    from compmec.nurbs.calculus import Integrate

    c = Curve(KnotVector([F(0), F(0), F(2), F(2)]), np.array([(0, 0), (3, 4)]))
    return True if abs(Integrate.lenght(c) - 5) < 1e-12 else Integrate.lenght(c)


def f47():
    """C19: projection onto a polyline with Fraction knots and points raised TypeError before ecefb7b"""
    c = Curve([F(0), F(0), F(1), F(2), F(2)], np.array([[F(0), F(0)], [F(2), F(0)], [F(2), F(2)]], dtype=object))
    res = Projection.point_on_curve((F(1), F(1)), c)
    return True if tuple(float(x) for x in res) == (0.5, 1.5) else res


def f48():
    """C09: Derivate of a spline with a jump (interior knot of multiplicity degree + 1) raised ValueError before 3fee622"""
    from compmec.nurbs.calculus import Derivate

    c = Curve([F(k) for k in (0, 0, 0, 1, 1, 1, 2, 3, 3, 3)], [F(p) for p in (1, 3, 2, 5, -1, 4, 2)])
    d = Derivate(c)
    return True if (d(F(1, 3)), d(F(2, 3)), d(F(5, 2))) == (2, 0, 0.5) else d.ctrlpoints


def f49():
    """C08 (C09): A * B with vector-valued A, the sum of vector-valued rational curves and Derivate of the circle raised ValueError before d5d1313"""
    from compmec.nurbs.calculus import Derivate

    A = Curve([F(0), F(0), F(0), F(1, 2), F(1), F(1), F(1)], np.array([(F(1), F(2)), (F(3), F(1)), (F(0), F(5)), (F(2), F(2))], dtype=object))
    B = Curve([F(0), F(0), F(1, 3), F(1), F(1)], [F(1), F(2), F(3)])
    u = F(1, 24)
    if tuple((A * B)(u)) != tuple(A(u) * B(u)) or tuple((A * A)(u)) != tuple(A(u) * A(u)):
        return "wrong product"
    Ar = Curve(A.knotvector, A.ctrlpoints, [F(1), F(2), F(3), F(1)])
    if tuple((Ar + Ar)(u)) != tuple(2 * Ar(u)):
        return "wrong sum"
    s = np.sqrt(2) / 2
    C = Curve([0, 0, 0, 0.25, 0.25, 0.5, 0.5, 0.75, 0.75, 1, 1, 1], np.array([(1, 0), (1, 1), (0, 1), (-1, 1), (-1, 0), (-1, -1), (0, -1), (1, -1), (1, 0)], dtype=float), [1, s, 1, s, 1, s, 1, s, 1])
    D = Derivate(C)
    num = (C(0.1 + 1e-6) - C(0.1 - 1e-6)) / 2e-6
    return True if np.allclose(np.array(D(0.1), dtype=float), num, atol=1e-5) else D(0.1)


def f50():
    """C15: knot_clean with a non-number among the nodes raised after removing the knots before it (fixed in /repo)"""
    for _ in range(4):
        c = Curve([0, 0, F(1, 4), F(1, 2), 1, 1], [F(0), F(1), F(2), F(3)])
        before = (tuple(c.knotvector), tuple(c.ctrlpoints))
        try:
            c.knot_clean([F(1, 4), F(1, 2), None])
            return "no error"
        except TypeError:
            if (tuple(c.knotvector), tuple(c.ctrlpoints)) != before:
                return "raised and changed the curve"
    return True


def f51():
    """C03: span / mult / split with a generator of nodes answered for no node at all before the repair"""
    U = KnotVector([0, 0, 1, 2, 2])
    if U.span(x for x in [0.5, 1.5]) != (1, 2) or U.mult(map(float, [0, 1, 1.5])) != (2, 1, 0):
        return "span / mult of a generator"
    if len(U.split(iter([0.5, 1.5]))) != 3:
        return "split of an iterator"
    return True


def f52():
    """C08 (C16): the sum of two curves on the same knot vector with control points 2**62 wrapped around in int64 before the repair"""
    U = [F(0), F(0), F(1), F(1)]
    S = Curve(U, [2**62, 1]) + Curve(U, [2**62, 1])
    return True if tuple(S.ctrlpoints) == (2**63, 2) else tuple(S.ctrlpoints)


for name, fn in (("F36", f36), ("F37", f37), ("F38", f38), ("F39", f39), ("F40", f40), ("F41", f41), ("F42", f42), ("F43", f43), ("F44", f44), ("F45", f45), ("F46", f46), ("F47", f47), ("F48", f48), ("F49", f49), ("F50", f50), ("F51", f51), ("F52", f52)):
    if len(sys.argv) > 1 and name not in sys.argv[1:]:
        continue
    t(name, fn)
