"""TOL-HOMOG — homogeneity degree ("dimension") of a quantity that is compared with a numeric tolerance.

A tolerance stated on a distance between control points is a bound on a quantity that is homogeneous of degree 1 in the
point difference.  If the compared quantity has degree d (a squared distance has d = 2) the literal c bounds the distance by
c ** (1/d): the rule computes d by a small abstract evaluation over the syntax (local definitions, the repository's own
`norm` helper followed interprocedurally) and requires c ** (1/d) to be the stated tolerance.  Unknown degree ⇒ nothing is
decided (no report)."""
from __future__ import annotations

import ast
import math
from fractions import Fraction
from typing import Dict, Optional

from .common import R, seg

ANY = "any"  # the zero constant is homogeneous of every degree
SAME = {"abs", "float", "max", "min", "sum", "np.sum", "np.max", "np.min", "np.abs", "np.absolute", "np.amax", "np.linalg.norm", "np.array", "tuple", "list", "np.mean", "np.ravel", "np.asarray", "np.fabs", "math.fabs", "np.hypot", "math.hypot", "math.fsum"}
HALF = {"np.sqrt", "math.sqrt"}
DOUBLE = {"np.square"}
PRODUCT = {"np.dot", "np.inner", "np.vdot", "np.multiply"}


class Homog:
    def __init__(self, r: R, ctx, seeds: Dict[str, Fraction]):
        self.r, self.ctx, self.fi = r, ctx, ctx.fi
        self.seeds = dict(seeds)
        self.defs: Dict[str, list] = {}
        for a in ast.walk(self.fi.node):
            if isinstance(a, ast.Assign) and len(a.targets) == 1 and isinstance(a.targets[0], ast.Name):
                self.defs.setdefault(a.targets[0].id, []).append(a.value)
            elif isinstance(a, ast.AugAssign) and isinstance(a.target, ast.Name):
                self.defs.setdefault(a.target.id, []).append(ast.BinOp(left=ast.Name(id=a.target.id, ctx=ast.Load()), op=a.op, right=a.value))
        self._busy = set()

    # -- degree algebra ------------------------------------------------------
    @staticmethod
    def _add(a, b):
        if a is None or b is None:
            return None
        if a == ANY:
            return b
        if b == ANY:
            return a
        return a if a == b else None

    @staticmethod
    def _mul(a, b):
        if a is None or b is None:
            return None
        if a == ANY or b == ANY:
            return ANY
        return a + b

    def const(self, e) -> Optional[float]:
        if isinstance(e, ast.Constant) and isinstance(e.value, (int, float)) and not isinstance(e.value, bool):
            return e.value
        if isinstance(e, ast.UnaryOp) and isinstance(e.op, ast.USub):
            c = self.const(e.operand)
            return None if c is None else -c
        if isinstance(e, ast.BinOp):
            a, b = self.const(e.left), self.const(e.right)
            if a is None or b is None:
                return None
            try:
                if isinstance(e.op, ast.Div):
                    return a / b
                if isinstance(e.op, ast.Mult):
                    return a * b
                if isinstance(e.op, ast.Add):
                    return a + b
                if isinstance(e.op, ast.Sub):
                    return a - b
                if isinstance(e.op, ast.Pow):
                    return a**b
            except (ZeroDivisionError, OverflowError, ValueError):
                return None
        if isinstance(e, ast.Name) and e.id in self.seeds and isinstance(self.seeds[e.id], tuple):
            return self.seeds[e.id][1]
        return None

    def deg(self, e):
        c = self.const(e)
        if c is not None:
            return ANY if c == 0 else Fraction(0)
        if isinstance(e, ast.Name):
            if e.id in self.seeds:
                s = self.seeds[e.id]
                return Fraction(0) if isinstance(s, tuple) else s
            if e.id in self._busy:
                return ANY  # accumulator on its own right-hand side: neutral
            ds = self.defs.get(e.id)
            if not ds:
                return None
            self._busy.add(e.id)
            try:
                out = ANY
                for d in ds:
                    out = self._add(out, self.deg(d))
                    if out is None:
                        return None
                return out
            finally:
                self._busy.discard(e.id)
        if isinstance(e, ast.UnaryOp) and isinstance(e.op, (ast.USub, ast.UAdd)):
            return self.deg(e.operand)
        if isinstance(e, ast.BinOp):
            if isinstance(e.op, (ast.Add, ast.Sub)):
                return self._add(self.deg(e.left), self.deg(e.right))
            if isinstance(e.op, (ast.Mult, ast.MatMult)):
                return self._mul(self.deg(e.left), self.deg(e.right))
            if isinstance(e.op, ast.Div):
                a, b = self.deg(e.left), self.deg(e.right)
                if a is None or b is None or b == ANY:
                    return None
                return ANY if a == ANY else a - b
            if isinstance(e.op, ast.Pow):
                k = self.const(e.right)
                a = self.deg(e.left)
                if k is None or a is None:
                    return None
                return ANY if a == ANY else a * Fraction(k).limit_denominator(64)
            return None
        if isinstance(e, ast.IfExp):
            t = self.truth(e.test)
            if t is True:
                return self.deg(e.body)
            if t is False:
                return self.deg(e.orelse)
            return self._add(self.deg(e.body), self.deg(e.orelse))
        if isinstance(e, (ast.Tuple, ast.List)):
            out = ANY
            for x in e.elts:
                out = self._add(out, self.deg(x))
            return out
        if isinstance(e, (ast.GeneratorExp, ast.ListComp)):
            sub = Homog(self.r, self.ctx, self.seeds)
            sub.defs = self.defs
            for g in e.generators:
                d = self.deg(g.iter)
                for x in ast.walk(g.target):
                    if isinstance(x, ast.Name) and d is not None and d != ANY:
                        sub.seeds[x.id] = d
            return sub.deg(e.elt)
        if isinstance(e, ast.Subscript):
            return self.deg(e.value)
        if isinstance(e, ast.Call):
            fn = seg(e.func)
            if fn in SAME and e.args:
                out = ANY
                for a in e.args:
                    out = self._add(out, self.deg(a))
                return out
            if fn in HALF and e.args:
                a = self.deg(e.args[0])
                return a if a in (None, ANY) else a / 2
            if fn in DOUBLE and e.args:
                a = self.deg(e.args[0])
                return a if a in (None, ANY) else a * 2
            if fn in PRODUCT and len(e.args) == 2:
                return self._mul(self.deg(e.args[0]), self.deg(e.args[1]))
            if fn == "zip":
                out = ANY
                for a in e.args:
                    out = self._add(out, self.deg(a))
                return out
            # a function of the repository: follow it
            crs = [c for c in self.ctx.calls if c.node is e and c.callees]
            if crs and len(crs[0].callees) == 1:
                return self.follow(crs[0].callees[0], e)
            return None
        return None

    def truth(self, t) -> Optional[bool]:
        if isinstance(t, ast.Compare) and len(t.ops) == 1:
            a, b = self.const(t.left), self.const(t.comparators[0])
            if a is not None and b is not None:
                op = t.ops[0]
                if isinstance(op, ast.Eq):
                    return a == b
                if isinstance(op, ast.NotEq):
                    return a != b
        return None

    def follow(self, callee, call: ast.Call):
        """degree of the callee's result: parameters take the degrees / constants of the arguments (defaults when omitted);
        a directly recursive call is assumed to return the degree of its first argument, which every return then has to confirm"""
        key = callee.qual
        if key in _FOLLOWING:
            a = self.deg(call.args[0]) if call.args else None
            return a
        params = [p for p in callee.params if p not in ("self", "cls")]
        seeds = {}
        for i, p in enumerate(params):
            arg = call.args[i] if i < len(call.args) else next((k.value for k in call.keywords if k.arg == p), None)
            if arg is None:
                d = callee.defaults.get(p)
                if d is None:
                    return None
                c = Homog(self.r, self.ctx, {}).const(d)
                if c is None:
                    return None
                seeds[p] = ("const", c)
            else:
                c = self.const(arg)
                if c is not None:
                    seeds[p] = ("const", c)
                else:
                    a = self.deg(arg)
                    if a is None:
                        return None
                    seeds[p] = a if a != ANY else Fraction(0)
        if callee.qual not in self.r.A.roots:
            return None
        _FOLLOWING.add(key)
        try:
            sub = Homog(self.r, self.r.root(callee.qual), seeds)
            # loop variables over a seeded parameter inherit its degree
            for f in ast.walk(callee.node):
                if isinstance(f, ast.For):
                    d = sub.deg(f.iter)
                    if d is not None and d != ANY:
                        for x in ast.walk(f.target):
                            if isinstance(x, ast.Name):
                                sub.seeds[x.id] = d
            out = ANY
            for ret in [x for x in ast.walk(callee.node) if isinstance(x, ast.Return) and x.value is not None]:
                out = self._add(out, sub.deg(ret.value))
                if out is None:
                    return None
            return out
        finally:
            _FOLLOWING.discard(key)


_FOLLOWING = set()


def tol_homog(r: R, chk, qual: str, point_fields, stated: float, rule="TOL-HOMOG"):
    """every comparison of a point-derived quantity with a small literal in `qual` bounds the point distance by `stated`"""
    ctx = r.root(qual)
    fi = ctx.fi
    seeds: Dict[str, Fraction] = {}
    # loop variables over control points have degree 1
    for f in ast.walk(fi.node):
        if isinstance(f, (ast.For, ast.comprehension)):
            it = f.iter
            v = ctx.val(it)
            if v is None:
                continue
            deps = v.all_dep()
            if any(d[0] == "PF" and d[2] in point_fields for d in deps) and ("ctrlpoints" in seg(it)):
                for x in ast.walk(f.target):
                    if isinstance(x, ast.Name):
                        seeds[x.id] = Fraction(1)
    h = Homog(r, ctx, seeds)
    n = und = 0
    for c in ast.walk(fi.node):
        if not (isinstance(c, ast.Compare) and len(c.ops) == 1 and isinstance(c.ops[0], (ast.Gt, ast.GtE, ast.Lt, ast.LtE))):
            continue
        l, rt = c.left, c.comparators[0]
        for q, lit in ((l, rt), (rt, l)):
            cv = h.const(lit)
            if cv is None or not (0 < cv < 1e-3) or h.const(q) is not None:
                continue
            d = h.deg(q)
            if d is None or d == ANY or d == 0:
                und += 1
                continue
            n += 1
            eff = cv ** (1 / float(d))
            ok = abs(math.log10(eff) - math.log10(stated)) < 0.05
            chk.ob(rule, f"{qual}: `{seg(c, 50)}` bounds the point distance by {stated:g}", ok, loc=r.loc(ctx, c),
                   detail="" if ok else f"{qual}: `{seg(q, 40)}` is homogeneous of degree {d} in the control-point difference (a {'squared ' if d == 2 else ''}distance{'' if d == 2 else ' to the power ' + str(d)}) but is compared with {cv:g}: control points up to {eff:.2g} apart are treated as equal instead of {stated:g}",
                   func=qual, construct=f"degree-{d} quantity compared with {cv:g}")
    chk.note(f"{rule}: {n} tolerance comparison(s) of a point-derived quantity decided in {qual}, {und} of unknown degree left undecided")
    return n
