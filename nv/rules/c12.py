"""C12 — fit_points / fit_function solve the discrete least-squares problem."""
from __future__ import annotations

import ast

from .common import CURVE_FIELDS, R, seg
from .c04 import committed_deps
from .c05 import arg_flow

NEED = ("generic",)
FP = "curves.Curve.fit_points"
FF = "curves.Curve.fit_function"
HF = "heavy.LeastSquare.fit_function"


def count_gate(r: R, chk, qual: str, what: str, targets):
    from .common import expand_locals

    ctx = r.root(qual)

    def text(e):
        return seg(expand_locals(ctx.fi, e), 400) if isinstance(e, ast.expr) else seg(e, 400)

    gates = [n for n in r.stmt_nodes(ctx) if isinstance(n.ast, ast.Assert) and "len(" in text(n.ast.test) and "npts" in text(n.ast.test)]
    gates += [g[0] for g in r.raise_guards(ctx, ("ValueError", "AssertionError")) if "len(" in text(g[0].ast) and "npts" in text(g[0].ast)]
    chk.floor("GATE-COUNT", f"`len(...) >= npts` check in {qual}", len(gates), 1)

    def counts_the_data(n):
        t = n.ast.test if isinstance(n.ast, ast.Assert) else n.ast
        t = expand_locals(ctx.fi, t) if isinstance(t, ast.expr) else t
        return any(isinstance(c, ast.Call) and isinstance(c.func, ast.Name) and c.func.id == "len" and c.args and any(isinstance(x, ast.Name) and x.id == what for x in ast.walk(c.args[0])) for c in ast.walk(t))

    right = [g for g in gates if counts_the_data(g)]
    chk.ob("GATE-COUNT", f"{qual}: the count check counts the {what}", bool(right), loc=r.loc(ctx, gates[0].ast),
           detail="" if right else f"{qual}: `{seg(gates[0].ast, 60)}` compares npts with the length of something else than `{what}`: when the two lengths differ (more nodes than points) fewer {what} than control points are accepted",
           func=qual, construct=f"count check not on {what}")
    gates = right or gates
    for t in targets(ctx):
        ok = any(ctx.cfg.dominates(g.id, t.id) for g in gates)
        chk.ob("GATE-COUNT", f"{qual}: `{seg(t.ast, 40)}` only after the {what} check", ok, loc=r.loc(ctx, t.ast), detail="" if ok else f"{qual}: `{seg(t.ast, 50)}` is reachable without the check that there are at least npts {what}: an under-determined fit is accepted", func=qual, construct="count check bypassed")


def run(m, chk):
    r = R(m, chk)
    chk.explanation = (
        "Static discharge of structural clauses of C12: the 'fewer points than control points' rejection dominates the state write of fit_points (and LeastSquare.fit_function's own check dominates its result); the single "
        "commit is last; the committed points depend on points, nodes, knot vector and weights (rational bases included, ARG-FLOW at the fitfunc call); fit_function samples the function at exactly the nodes it passes on. "
        "The normal equations, interpolation and reproduction are not decided."
    )
    chk.decides = ["LSTSQ-ROWS (the normal equations of Linalg.lstsq are formed from the caller's matrix through conversions only: no equation is rescaled, every residual has weight 1)", "POLY-ONLY (LeastSquare.fit_function builds its collocation matrix from the polynomial basis only where weights is None)", "NO-REORDER (nodes and points keep the caller's order)", "END-EXACT (closed reference nodes are mapped onto a span with an expression that is exact at both ends)", "SEARCH-ALL (the pivot search and every other conditional loop of the solver can go on to the next candidate)", "MEMO-KEY (no function on the path is memoised by the value of numbers / knot vectors)", "GATE-COUNT", "COMMIT-LAST", "DEP-MAY", "ARG-FLOW", "SAME-NODES", "PURE", "ONE-NODE-FAMILY (the default nodes of fit_points do not depend on the number type)", "PRECOND-LB (len(points) = 1 does not trip the node generator's assertion)"]
    chk.not_decided = ["residual orthogonal to the collocation columns", "interpolation when len(points) = npts", "reproduction of curves of the same space"]
    count_gate(r, chk, FP, "points", lambda ctx: [ctx.cfg.nodes[w] for w in r.write_nodes(ctx, 0)])
    count_gate(r, chk, HF, "nodes", lambda ctx: [n for n in r.stmt_nodes(ctx) if isinstance(n.ast, ast.Return)])
    r.commit_last("COMMIT-LAST", FP)
    from .extra import lstsq_rows

    lstsq_rows(r, chk)
    from .extra import one_node_family, precond_lb

    one_node_family(r, chk, FP)
    precond_lb(r, chk, [FP, FF])
    committed_deps(r, chk, FP, CURVE_FIELDS[1], ["points", "nodes", "self.knotvector", "self.weights"])
    arg_flow(r, chk, "ARG-FLOW", FP, "LeastSquare.fit_function", "weights", ["self.weights"], what="a rational curve must be fitted with its rational basis")
    arg_flow(r, chk, "ARG-FLOW", FP, "LeastSquare.fit_function", "nodes", ["nodes"])
    arg_flow(r, chk, "ARG-FLOW", FP, "LeastSquare.fit_function", "knotvector", ["self.knotvector"])
    # fit_function: same nodes for sampling and fitting
    ctx = r.root(FF)
    calls = [c for c in r.calls_in(ctx, ".fit_points") if c.kind == "call"]
    chk.floor("SAME-NODES", "fit_points call in fit_function", len(calls), 1)
    for cr in calls:
        a_nodes = cr.node.args[1] if len(cr.node.args) > 1 else next((k.value for k in cr.node.keywords if k.arg == "nodes"), None)
        a_vals = cr.node.args[0] if cr.node.args else None
        ok = False
        why = "the nodes argument is missing"
        if isinstance(a_nodes, ast.Name) and isinstance(a_vals, ast.Name):
            defs = [n for n in r.stmt_nodes(ctx) if isinstance(n.ast, ast.Assign) and any(isinstance(t, ast.Name) and t.id == a_vals.id for t in n.ast.targets)]
            for d in defs:
                comp = d.ast.value
                if isinstance(comp, (ast.ListComp, ast.GeneratorExp)) or (isinstance(comp, ast.Call) and comp.args and isinstance(comp.args[0], (ast.ListComp, ast.GeneratorExp))):
                    c = comp if isinstance(comp, (ast.ListComp, ast.GeneratorExp)) else comp.args[0]
                    it = c.generators[0].iter
                    tv = c.generators[0].target
                    calls_f = any(isinstance(x, ast.Call) and isinstance(x.func, ast.Name) and x.func.id == ctx.fi.params[1] and x.args and seg(x.args[0]) == seg(tv) for x in ast.walk(c.elt))
                    same = isinstance(it, ast.Name) and it.id == a_nodes.id
                    between = [n for n in r.stmt_nodes(ctx) if n.id in ctx.cfg.reachable_from_succ(d.id, exc=False) and cr.cfgnode in ctx.cfg.reachable(n.id, exc=False) and n.id != cr.cfgnode and isinstance(n.ast, (ast.Assign, ast.AugAssign)) and any(isinstance(t, ast.Name) and t.id == a_nodes.id for t in (n.ast.targets if isinstance(n.ast, ast.Assign) else [n.ast.target]))]
                    ok = calls_f and same and not between
                    why = f"samples are taken over `{seg(it, 20)}` but `{a_nodes.id}` is passed on" if not same else ("the nodes are rebound between sampling and fitting" if between else "the samples are not function(node)")
            if not ok:
                # the same sampling written as a loop: `vals = []` ... `for x in nodes: vals.append(function(x))`
                fname = ctx.fi.params[1]
                for lp in ast.walk(ctx.fi.node):
                    if not (isinstance(lp, ast.For) and isinstance(lp.iter, ast.Name) and isinstance(lp.target, ast.Name)):
                        continue
                    apps = [x for x in ast.walk(lp) if isinstance(x, ast.Call) and isinstance(x.func, ast.Attribute) and x.func.attr == "append" and isinstance(x.func.value, ast.Name) and x.func.value.id == a_vals.id and x.args]
                    if not apps:
                        continue
                    calls_f = all(isinstance(x.args[0], ast.Call) and isinstance(x.args[0].func, ast.Name) and x.args[0].func.id == fname and x.args[0].args and seg(x.args[0].args[0]) == lp.target.id for x in apps)
                    same = lp.iter.id == a_nodes.id
                    lpn = next((n for n in ctx.cfg.nodes if n.ast is lp), None)
                    between = [] if lpn is None else [n for n in r.stmt_nodes(ctx) if n.id in ctx.cfg.reachable_from_succ(lpn.id, exc=False) and cr.cfgnode in ctx.cfg.reachable(n.id, exc=False) and n.id != cr.cfgnode and isinstance(n.ast, (ast.Assign, ast.AugAssign)) and any(isinstance(t, ast.Name) and t.id == a_nodes.id for t in (n.ast.targets if isinstance(n.ast, ast.Assign) else [n.ast.target]))]
                    ok = calls_f and same and not between
                    why = f"samples are taken over `{lp.iter.id}` but `{a_nodes.id}` is passed on" if not same else ("the nodes are rebound between sampling and fitting" if between else "the samples are not function(node)")
                    break
        chk.ob("SAME-NODES", f"{FF}: the function is sampled at exactly the nodes handed to fit_points", ok, loc=r.loc(ctx, cr.node), detail="" if ok else f"{FF}: {why}: the data are attached to the wrong parameters", func=FF, construct="sampling nodes differ from fitting nodes")
        v = ctx.val(a_vals) if a_vals is not None else None
        have = v.all_dep() if v is not None else set()
        okd = R.dep_has(have, ("P", 1))
        chk.ob("DEP-MAY", f"{FF}: the sampled values depend on the function", okd, loc=r.loc(ctx, cr.node), detail="" if okd else f"{FF}: the values passed to fit_points do not depend on `{ctx.fi.params[1]}`", func=FF, construct="samples ignore the function")
    r.pure("PURE", FP, ["points", "nodes"])
    r.pure("PURE", HF, ["knotvector", "nodes", "weights"])
    from .extra import memo_key

    nm = memo_key(r, chk, entries=['curves.Curve.fit_points', 'curves.Curve.fit_function'])
    chk.floor("MEMO-KEY", "functions reachable from the entry points examined for value-keyed memoisation", nm, 3)
    from .extra import search_all

    search_all(r, chk, ["curves.Curve.fit_points", "curves.Curve.fit_function", "heavy.Linalg.invert_integer_matrix", "heavy.Linalg.solve", "heavy.Linalg.lstsq"], floor=3)
    from .extra import poly_only_param

    poly_only_param(r, chk, HF)
    from .extra import end_exact

    nee = end_exact(r, chk, [FP])
    chk.floor("END-EXACT", "maps of reference nodes onto an interval examined", nee, 1)
    from .extra import no_reorder

    no_reorder(r, chk, HF, "nodes")
    no_reorder(r, chk, FP, "nodes")
    no_reorder(r, chk, FP, "points")
