"""C02 — basis functions obey the Cox-de Boor definition for every index and sub-degree."""
from __future__ import annotations

import ast

from ..cfg import raised_type
from ..vals import fmt_obj
from .common import R, seg
from .c01 import escapes

NEED = ("generic",)
F = "functions."
GI = F + "IndexableFunction.__getitem__"
FE = F + "FunctionEvaluator."


def index_range(r: R, chk, qual: str, param_hint: str, want, rule="INDEX-RANGE"):
    """the index validator is folded by the checker (tests, early returns, raises) for npts = 1..6, degree = 0..3 and every integer
    index around the ends: an index is accepted — the validator returns — exactly when it is in `want(npts, degree)` (Python's
    convention for the first index: -npts .. npts-1; 0 .. degree for the second).  A guard of a raise that the folder cannot
    evaluate leaves the rule undecided."""
    from .extra import UNK, fold_outcome

    fi = r.prog.func(qual)
    if not any(isinstance(x, ast.Raise) and raised_type(x) == "IndexError" for x in ast.walk(fi.node)):
        chk.ob(rule, f"{qual} refuses an index outside the table with IndexError", False, loc=f"{fi.module}.py:{fi.node.lineno}",
               detail=f"{qual}: no `raise IndexError` is left in the validator: an index outside the table builds an evaluator", func=qual, construct="validator never raises IndexError")
        return
    idx = next((p for p in fi.params if p not in ("self", "cls")), param_hint)
    bad = None
    undecided = False
    for npts in range(1, 7):
        for degree in range(0, min(npts, 4)):
            for i in range(-npts - 2, npts + 3):
                out = fold_outcome(fi.node.body, {idx: i, ".npts": npts, ".degree": degree}, degree, stop_at_work=False)
                if out is UNK:
                    undecided = True
                    continue
                accepted = out[0] in ("return", "end")
                if accepted != (i in want(npts, degree)) and bad is None:
                    bad = (npts, degree, i, accepted)
    if undecided and bad is None:
        chk.note(f"{rule}: {qual}: a guard of `raise IndexError` could not be folded: not decided")
        return
    chk.ob(rule, f"{qual}: exactly the indices of the table are accepted (npts = 1..6)", bad is None, loc=f"{fi.module}.py:{fi.node.lineno}",
           detail="" if bad is None else f"{qual}: with npts = {bad[0]}, degree = {bad[1]} the index {bad[2]} is {'accepted' if bad[3] else 'refused'}, but the rows of the table are {min(want(bad[0], bad[1]))} .. {max(want(bad[0], bad[1]))}: " + ("an index outside the table builds an evaluator" if bad[3] else "a valid (negative / last) index cannot select its row"),
           func=qual, construct="index range of the validator")


def row_index(r: R, chk, qual: str, rule="ROW-INDEX"):
    """The table of every sub-degree j has npts rows (the library pads it), and the validator lets -npts .. npts-1 through.  The
    constructor of the evaluator is folded for npts = 1..6, degree = 0..3, every j and every admissible integer first index: what
    it stores as first index has to select row `i mod npts` of an npts-row table (the index itself, or the index normalised with
    npts — not with the number len(U) - j - 1 of functions of degree j)."""
    from .extra import UNK, _ev, _run_block

    fi = r.prog.func(qual)
    params = [p for p in fi.params if p not in ("self", "cls")]
    store = next((a for a in ast.walk(fi.node) if isinstance(a, ast.Assign) and any(isinstance(t, ast.Attribute) and t.attr.endswith("first_index") for t in a.targets)), None)
    chk.floor(rule, f"store of the first index in {qual}", 1 if store is not None and len(params) >= 3 else 0, 1)
    fp, ip, jp = params[0], params[1], params[2]
    bad = None
    undecided = False
    for npts in range(1, 7):
        for degree in range(0, min(npts, 4)):
            for j in range(0, degree + 1):
                for i in range(-npts, npts):
                    kv = tuple(range(npts + degree + 1))
                    env = {ip: i, jp: j, ".npts": npts, ".degree": degree, ".knotvector": kv, ".internal": kv}
                    if not _run_block(fi.node.body, env, degree, store):
                        undecided = True
                        continue
                    v = _ev(store.value, env, degree)
                    if v is UNK or not isinstance(v, int):
                        undecided = True
                        continue
                    ok = -npts <= v < npts and v % npts == i % npts
                    if not ok and bad is None:
                        bad = (npts, degree, j, i, v)
    if undecided and bad is None:
        chk.note(f"{rule}: {qual}: the stored first index could not be folded: not decided")
        return
    chk.ob(rule, f"{qual}: the stored first index selects row i mod npts (npts = 1..6, every j)", bad is None, loc=f"{fi.module}.py:{store.lineno}",
           detail="" if bad is None else f"{qual}: with npts = {bad[0]}, degree = {bad[1]}, j = {bad[2]} the first index {bad[3]} is stored as {bad[4]}: row {bad[4]} of the npts-row table is " + ("outside the table (IndexError at evaluation)" if not (-bad[0] <= bad[4] < bad[0]) else f"not row {bad[3] % bad[0]}") + " — a negative index of a sub-degree table selects a neighbouring basis function",
           func=qual, construct="negative first index resolved with the wrong length")


def run(m, chk):
    r = R(m, chk)
    chk.explanation = (
        "Static discharge of structural clauses of C02: IndexableFunction.__getitem__ reaches FunctionEvaluator(...) only through both index validators, which raise IndexError / TypeError; f(u) is f[:, degree](u) "
        "(the second index of the evaluator built in eval depends on self.degree); the evaluator's result depends on nodes, knot vector, both indices and weights; span(nodes) precedes the table lookup so outside nodes raise "
        "ValueError which escapes. The values (non-negativity, support, partition of unity) and negative-index / slice semantics are not decided."
    )
    chk.decides = ["WEIGHTS-EVERY-DEGREE (the evaluator of f[i, j] keeps the weights of f whatever j is: the stored value is not chosen by a test on the sub-degree)", "ROW-INDEX (what the evaluator stores for an integer first index selects row i mod npts of the npts-row table, for every j)", "SLICE-REBUILD (a slice index resolved against npts is never rebuilt with slice(*s.indices(n)), which loses negative steps)", "INDEX-RANGE (the validators accept exactly -npts .. npts-1 and 0 .. degree)", "GATE(index validators)", "DEP-MAY", "GATE-SPAN", "X-ESCAPE", "PURE", "FRESH-EVALUATOR (f(u) applies an evaluator built in the same call, never a kept one)"]
    chk.not_decided = ["Function(U)[i, j](u) = N_i,j(u) as values", "partition of unity", "negative indices / slices select the right rows"]
    ctx = r.root(GI)
    build = [c for c in ctx.calls if any(f.qual == FE + "__init__" for f in c.callees)]
    chk.floor("GATE-INDEX", "construction of the evaluator in __getitem__", len(build), 1)
    for name, excs in (("__valid_first_index", ("IndexError", "TypeError")), ("__valid_second_index", ("IndexError", "TypeError"))):
        vs = [c for c in ctx.calls if any(f.name.endswith(name[2:]) for f in c.callees)]
        for b in build:
            ok = any(ctx.cfg.dominates(v.cfgnode, b.cfgnode) for v in vs)
            chk.ob("GATE-INDEX", f"{GI}: the evaluator is built only after {name}", ok, loc=r.loc(ctx, b.node), detail="" if ok else f"{GI}: `{seg(b.node, 40)}` is reachable without {name}: an index out of range builds an evaluator instead of raising IndexError / TypeError", func=GI, construct=f"{name} bypassed")
        for v in vs[:1]:
            fi = v.callees[0]
            raised = {raised_type(n) for n in ast.walk(fi.node) if isinstance(n, ast.Raise)}
            ok = set(excs) <= raised
            chk.ob("GATE-INDEX", f"{fi.qual} raises {' and '.join(excs)}", ok, loc=f"functions.py:{fi.node.lineno}", detail="" if ok else f"{fi.qual} raises only {sorted(x for x in raised if x)}", func=fi.qual, construct="validator exception types")
    row_index(r, chk, FE + "__init__")
    from .extra import weights_every_degree

    weights_every_degree(r, chk, "functions.FunctionEvaluator.__init__")
    from .extra import slice_rebuild

    slice_rebuild(r, chk, ["functions"])
    # f(u) = f[:, degree](u)
    eq = F + "IndexableFunction.eval"
    c2 = r.root(eq)
    subs = [c for c in c2.calls if c.kind == "subscript" and any(f.qual == GI for f in c.callees)]
    chk.floor("DEP-MAY", "self[:, self.degree] in IndexableFunction.eval", len(subs), 1)
    for s in subs:
        sl = s.node.slice
        ok = isinstance(sl, ast.Tuple) and len(sl.elts) == 2
        if ok:
            v = c2.val(sl.elts[1])
            ok = v is not None and any(d[0] == "PF" and d[1] == 0 and "knotvector" in d[2] for d in v.all_dep()) and isinstance(sl.elts[0], ast.Slice) and sl.elts[0].lower is None and sl.elts[0].upper is None
        chk.ob("DEP-MAY", f"{eq}: f(u) is built as f[:, self.degree]", ok, loc=r.loc(c2, s.node), detail="" if ok else f"{eq}: `{seg(s.node, 40)}` does not select all rows at the function's own degree", func=eq, construct="f(u) is not f[:, degree](u)")
    # the evaluator applied by f(u) is built in the same call: an evaluator kept from an earlier call is a snapshot of a knot
    # vector object that callers can change in place (insert, shift, scale, degree) without the function object noticing
    evs = [c for c in c2.calls if any(f.qual == FE + "__call__" for f in c.callees)]
    chk.floor("FRESH-EVALUATOR", "applications of an evaluator in IndexableFunction.eval", len(evs), 1)
    for c in evs:
        kept = sorted(fmt_obj(o) for o in (c.recv.pts if c.recv is not None else ()) if o[0] != "N")
        revalidated = False
        if kept:
            for t in c2.cfg.nodes:
                if t.kind == "test" and c2.cfg.dominates(t.id, c.cfgnode):
                    tv = c2.val(t.ast)
                    if tv is not None and any(d[0] == "PF" and d[1] == 0 and "knotvector" in d[2] for d in tv.all_dep()) and any(d[0] == "PF" and d[1] == 0 and "knotvector" not in d[2] and "weights" not in d[2] for d in tv.all_dep()):
                        revalidated = True
        ok = not kept or revalidated
        chk.ob("FRESH-EVALUATOR", f"{eq}: `{seg(c.node, 40)}` applies an evaluator built in this call", ok, loc=r.loc(c2, c.node),
               detail="" if ok else f"{eq}: `{seg(c.node, 40)}` may apply an evaluator kept from an earlier call ({', '.join(kept)}) without comparing it with the current knot vector: the KnotVector object is shared by reference and mutable in place (insert / shift / scale / degree), so after such a change f(u) is computed from the old coefficient tables and f(u) != f[:, p](u)",
               func=eq, construct="stale evaluator reused")
    for nid, v in sorted(c2.ret_sites.items()):
        have = r.deep_dep(c2, v, heap=c2.ret_states[nid].heap)
        miss = [w for w in (("P", 1), ("PF", 0, "_BaseFunction__knotvector"), ("PF", 0, "_BaseFunction__weights")) if not R.dep_has(have, w)]
        chk.ob("DEP-MAY", f"{eq}: f(u) depends on nodes, knot vector and weights", not miss, loc=r.loc(c2, c2.cfg.nodes[nid].ast), detail="" if not miss else f"{eq}: f(u) does not depend on {r.fmt_deps(c2.fi, miss)}", func=eq, construct=f"f(u) ignores {r.fmt_deps(c2.fi, miss)}")
    # evaluator result
    q = FE + "eval"
    c3 = r.root(q)
    # `knots`, `spans`, `matrix` are caches derived from the knot vector: any of them stands for it
    FE_ = "_FunctionEvaluator__"
    need = [("nodes", [("P", 1)]), ("the knot vector", [("PF", 0, FE_ + f) for f in ("knotvector", "knots", "spans", "matrix")]), ("weights", [("PF", 0, FE_ + "weights")]),
            ("the first index", [("PF", 0, FE_ + "first_index")]), ("the second index (coefficient table)", [("PF", 0, FE_ + "matrix"), ("PF", 0, FE_ + "second_index")])]
    for nid, v in sorted(c3.ret_sites.items()):
        have = r.deep_dep(c3, v, heap=c3.ret_states[nid].heap)
        miss = [n for n, ws in need if not any(R.dep_has(have, w) for w in ws)]
        chk.ob("DEP-MAY", f"{q}: the value depends on nodes, knot vector, weights, both indices (table)", not miss, loc=r.loc(c3, c3.cfg.nodes[nid].ast), detail="" if not miss else f"{q}: the basis value does not depend on {', '.join(miss)}", func=q, construct=f"ignores {', '.join(miss)}")
    c4 = r.root(FE + "__init__")
    hv = c4.summary.heap.get((("P", 0), "_FunctionEvaluator__matrix"))
    okm = hv is not None and R.dep_has(hv.all_dep(), ("P", 3)) and R.dep_has(hv.all_dep(), ("P", 1))
    chk.ob("DEP-MAY", f"{FE}__init__: the coefficient table depends on the knot vector and the second index", okm, loc=r.loc(c4, c4.fi.node), detail="" if okm else f"{FE}__init__: the table ignores the requested sub-degree or the knot vector", func=FE + "__init__", construct="table ignores j")
    # span precedes the table lookup
    gate = FE + "__eval" if r.has(FE + "__eval") else FE + "eval"  # the private step may be written inside eval
    c5 = r.root(gate)
    sp = [c for c in c5.calls if any(f.name == "span" for f in c.callees)]
    cm = [c for c in c5.calls if any(f.name.endswith("compute_matrix") for f in c.callees)]
    chk.floor("GATE-SPAN", "table lookup in FunctionEvaluator.__eval", len(cm), 1)
    for c in cm:
        ok = any(c5.cfg.dominates(s.cfgnode, c.cfgnode) for s in sp)
        chk.ob("GATE-SPAN", f"{gate}: span(nodes) precedes the table lookup", ok, loc=r.loc(c5, c.node), detail="" if ok else f"{gate}: basis values are computed without span(nodes): nodes outside the interval are not rejected", func=gate, construct="lookup without span")
    escapes(r, chk, [(FE + "__call__", ".eval")] + ([(FE + "eval", ".__eval")] if gate.endswith("__eval") else []) + [(gate, ".span"), (F + "BaseFunction.__call__", ".eval")])
    r.pure("PURE", q, ["self", "nodes"])
    r.pure("PURE", GI, ["self", "index"])
    r.pure("PURE", F + "BaseFunction.__eq__", ["self", "other"])
    index_range(r, chk, F + "IndexableFunction.__valid_first_index", "index", lambda n, p: range(-n, n))
    index_range(r, chk, F + "IndexableFunction.__valid_second_index", "index", lambda n, p: range(0, p + 1))
