"""E1 — index of the program: modules, classes, functions, imports, name mangling."""
from __future__ import annotations

import ast
import os
from dataclasses import dataclass, field
from typing import Dict, List, Optional

from . import MODULES, REPO_SRC, AnalysisError

BUILTIN_EXC = {
    "BaseException": None,
    "Exception": "BaseException",
    "ArithmeticError": "Exception",
    "ZeroDivisionError": "ArithmeticError",
    "OverflowError": "ArithmeticError",
    "AssertionError": "Exception",
    "AttributeError": "Exception",
    "LookupError": "Exception",
    "IndexError": "LookupError",
    "KeyError": "LookupError",
    "NotImplementedError": "RuntimeError",
    "RuntimeError": "Exception",
    "TypeError": "Exception",
    "ValueError": "Exception",
    "StopIteration": "Exception",
}


def exc_is_sub(a: str, b: str) -> bool:
    """a is b or a subclass of b in the builtin hierarchy (unknown names: only equal)."""
    while a is not None:
        if a == b:
            return True
        a = BUILTIN_EXC.get(a)
    return False


def mangle(clsname: Optional[str], name: str) -> str:
    if clsname and name.startswith("__") and not name.endswith("__"):
        return "_" + clsname.lstrip("_") + name
    return name


@dataclass
class FuncInfo:
    module: str
    cls: Optional["ClassInfo"]
    name: str
    node: ast.FunctionDef
    kind: str  # function | method | static | classmethod | getter | setter | new
    params: List[str] = field(default_factory=list)
    defaults: Dict[str, ast.expr] = field(default_factory=dict)
    annots: Dict[str, ast.expr] = field(default_factory=dict)
    prop: Optional[str] = None  # property name for getter/setter

    @property
    def qual(self) -> str:
        base = f"{self.module}.{self.cls.name}." if self.cls else f"{self.module}."
        nm = self.name
        if self.kind == "setter":
            nm = nm + ".setter"
        return base + nm

    @property
    def clsname(self) -> Optional[str]:
        return self.cls.name if self.cls else None

    @property
    def has_self(self) -> bool:
        return self.kind in ("method", "getter", "setter")

    def loc(self, node: Optional[ast.AST] = None) -> str:
        n = node if node is not None and hasattr(node, "lineno") else self.node
        return f"{self.module}.py:{n.lineno}"

    def __hash__(self):
        return hash(self.qual)

    def __eq__(self, o):
        return isinstance(o, FuncInfo) and o.qual == self.qual


@dataclass
class ClassInfo:
    module: str
    name: str
    node: ast.ClassDef
    bases: List[str]
    methods: Dict[str, FuncInfo] = field(default_factory=dict)
    getters: Dict[str, FuncInfo] = field(default_factory=dict)
    setters: Dict[str, FuncInfo] = field(default_factory=dict)
    attrs: Dict[str, ast.expr] = field(default_factory=dict)  # mangled class-level names

    def __hash__(self):
        return hash((self.module, self.name))

    def __eq__(self, o):
        return isinstance(o, ClassInfo) and (o.module, o.name) == (self.module, self.name)


@dataclass
class ModuleInfo:
    name: str
    path: str
    tree: ast.Module
    source: str
    functions: Dict[str, FuncInfo] = field(default_factory=dict)
    classes: Dict[str, ClassInfo] = field(default_factory=dict)
    imports: Dict[str, str] = field(default_factory=dict)  # local alias -> dotted target


class Program:
    """Parsed program. `sources` may override file contents (module name -> text or ast.Module)
    so that seeded variants can be analysed in memory without touching the disk."""

    def __init__(self, src_dir: str = REPO_SRC, sources: Optional[dict] = None):
        self.src_dir = src_dir
        self.modules: Dict[str, ModuleInfo] = {}
        self.classes: Dict[str, ClassInfo] = {}
        self.funcs: Dict[str, FuncInfo] = {}
        sources = sources or {}
        for m in MODULES:
            path = os.path.join(src_dir, m + ".py")
            if m in sources:
                s = sources[m]
                if isinstance(s, ast.Module):
                    tree, text = s, ast.unparse(s)
                    # make sure positions exist
                    ast.fix_missing_locations(tree)
                    tree = ast.parse(text)
                else:
                    import warnings

                    with warnings.catch_warnings():
                        warnings.simplefilter("ignore")
                        text, tree = s, ast.parse(s)
            else:
                if not os.path.exists(path):
                    raise AnalysisError(f"module vanished: {path}")
                with open(path, encoding="utf-8") as fh:
                    text = fh.read()
                import warnings

                with warnings.catch_warnings():
                    warnings.simplefilter("ignore")
                    tree = ast.parse(text, filename=path)
            from .inline import inline_private_helpers

            tree, inlined = inline_private_helpers(tree)
            mi = ModuleInfo(m, path, tree, text)
            mi.inlined_helpers = inlined
            self.modules[m] = mi
            self._index_module(mi)
        self.subclasses: Dict[str, List[str]] = {}
        for c in self.classes.values():
            for b in c.bases:
                self.subclasses.setdefault(b, []).append(c.name)

    # ------------------------------------------------------------------
    def _index_module(self, mi: ModuleInfo):
        for st in mi.tree.body:
            if isinstance(st, ast.Import):
                for a in st.names:
                    mi.imports[a.asname or a.name.split(".")[0]] = a.name
            elif isinstance(st, ast.ImportFrom):
                mod = st.module or ""
                for a in st.names:
                    mi.imports[a.asname or a.name] = (mod + "." + a.name) if mod else a.name
            elif isinstance(st, ast.FunctionDef):
                fi = self._mk_func(mi, None, st)
                mi.functions[st.name] = fi
                self.funcs[fi.qual] = fi
            elif isinstance(st, ast.ClassDef):
                ci = ClassInfo(mi.name, st.name, st, [self._base_name(b) for b in st.bases])
                mi.classes[st.name] = ci
                if st.name in self.classes:
                    raise AnalysisError(f"duplicate class name {st.name}")
                self.classes[st.name] = ci
                for cs in st.body:
                    if isinstance(cs, ast.FunctionDef):
                        fi = self._mk_func(mi, ci, cs)
                        if fi.kind == "getter":
                            ci.getters[fi.name] = fi
                        elif fi.kind == "setter":
                            ci.setters[fi.name] = fi
                        else:
                            ci.methods[fi.name] = fi
                        self.funcs[fi.qual] = fi
                    elif isinstance(cs, ast.Assign):
                        for t in cs.targets:
                            if isinstance(t, ast.Name):
                                ci.attrs[mangle(ci.name, t.id)] = cs.value

    @staticmethod
    def _base_name(b: ast.expr) -> str:
        if isinstance(b, ast.Name):
            return b.id
        if isinstance(b, ast.Attribute):
            return b.attr
        return "?"

    def _mk_func(self, mi: ModuleInfo, ci: Optional[ClassInfo], st: ast.FunctionDef) -> FuncInfo:
        kind = "function"
        prop = None
        a = st.args
        params = [x.arg for x in a.posonlyargs + a.args]
        if ci is not None:
            kind = "method"
            for d in st.decorator_list:
                if isinstance(d, ast.Name) and d.id == "staticmethod":
                    kind = "static"
                elif isinstance(d, ast.Name) and d.id == "classmethod":
                    kind = "classmethod"
                elif isinstance(d, ast.Name) and d.id == "property":
                    kind, prop = "getter", st.name
                elif isinstance(d, ast.Attribute) and d.attr in ("abstractproperty",):
                    kind, prop = "getter", st.name
                elif isinstance(d, ast.Attribute) and d.attr == "setter":
                    kind, prop = "setter", st.name
            if kind == "method":
                if st.name == "__new__":
                    kind = "new"
                elif not params or params[0] not in ("self",):
                    # defined without @staticmethod and without self: always called through
                    # the class in this repository (Operations.*, Linalg.invert_integer_matrix ...)
                    kind = "static"
        fi = FuncInfo(mi.name, ci, st.name, st, kind, params, prop=prop)
        nd = len(a.defaults)
        allp = a.posonlyargs + a.args
        for p, d in zip(allp[len(allp) - nd :], a.defaults):
            fi.defaults[p.arg] = d
        for p in allp + a.kwonlyargs:
            if p.annotation is not None:
                fi.annots[p.arg] = p.annotation
        for p, d in zip(a.kwonlyargs, a.kw_defaults):
            fi.params.append(p.arg)
            if d is not None:
                fi.defaults[p.arg] = d
        fi.vararg = a.vararg.arg if a.vararg else None
        return fi

    # ------------------------------------------------------------------
    def mro(self, clsname: str) -> List[ClassInfo]:
        out, seen, todo = [], set(), [clsname]
        while todo:
            c = todo.pop(0)
            if c in seen or c not in self.classes:
                continue
            seen.add(c)
            ci = self.classes[c]
            out.append(ci)
            todo.extend(ci.bases)
        return out

    def is_subclass(self, a: str, b: str) -> bool:
        if a == b:
            return True
        return any(c.name == b for c in self.mro(a)) or (a in self.classes and b in self._all_bases(a))

    def _all_bases(self, a: str):
        out, todo = set(), [a]
        while todo:
            c = todo.pop()
            if c in self.classes:
                for b in self.classes[c].bases:
                    if b not in out:
                        out.add(b)
                        todo.append(b)
        return out

    def all_subclasses(self, a: str) -> List[str]:
        out, todo = [], [a]
        while todo:
            c = todo.pop()
            for s in self.subclasses.get(c, []):
                if s not in out:
                    out.append(s)
                    todo.append(s)
        return out

    def _is_abstract(self, fi: FuncInfo) -> bool:
        return fi.module == "__classes__"

    def lookup(self, clsname: str, name: str, what: str = "method", down: bool = True) -> List[FuncInfo]:
        """Resolve attribute `name` on an instance of clsname: first hit in the MRO
        (concrete preferred), plus — when `down` — overrides / definitions in subclasses
        (the static receiver type may be a base class)."""
        res: List[FuncInfo] = []
        table = {"method": "methods", "getter": "getters", "setter": "setters"}[what]
        for ci in self.mro(clsname):
            fi = getattr(ci, table).get(name)
            if fi is not None and not self._is_abstract(fi):
                res.append(fi)
                break
        if down:
            for s in self.all_subclasses(clsname):
                fi = getattr(self.classes[s], table).get(name)
                if fi is not None and not self._is_abstract(fi) and fi not in res:
                    res.append(fi)
        return res

    def func(self, qual: str) -> FuncInfo:
        if qual not in self.funcs:
            raise AnalysisError(f"anchor vanished: function {qual} no longer exists")
        return self.funcs[qual]

    def has_func(self, qual: str) -> bool:
        return qual in self.funcs

    def cls(self, name: str) -> ClassInfo:
        if name not in self.classes:
            raise AnalysisError(f"anchor vanished: class {name} no longer exists")
        return self.classes[name]

    def all_functions(self) -> List[FuncInfo]:
        return list(self.funcs.values())

    def seg(self, fi: FuncInfo, node: ast.AST) -> str:
        """normalised source text of a node (keys findings; independent of position/format)."""
        try:
            return ast.unparse(node)
        except Exception:
            return "<?>"
