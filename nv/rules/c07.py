"""C07 — splitting restricts the curve exactly; joining adjacent pieces restores it."""
from __future__ import annotations

import ast

from ..vals import fmt_obj, root_of
from .common import CURVE_FIELDS, R, limits_guards, seg
from .c04 import x_assert
from .divisions import rule_d

NEED = ("generic",)
SPLIT = "curves.Curve.split"
OR = "curves.BaseCurve.__or__"


def weights_component(r: R, ctx, v, heap, must=True):
    """dependences of the weights field of the curve objects designated by v"""
    out = None
    objs = [o for o in v.all_pts() if o[0] == "N" and "obj:" in str(o[1][3])]
    for o in objs:
        hv = heap.get((o, CURVE_FIELDS[2]))
        if hv is None:
            continue
        d = r.deep_dep(ctx, hv, must=must, heap=heap)
        out = set(d) if out is None else (out & d if must else out | d)
    return out or set(), objs


def run(m, chk):
    r = R(m, chk)
    chk.explanation = (
        "Static discharge of structural clauses of C07: Curve.split does not modify the curve and returns fresh curves; every piece of a rational curve gets weights that "
        "must-depend on the curve's weights; A|B works on copies, raises ValueError when max(A) != min(B) before anything else, and the weights of the joined curve must-depend on the "
        "weights of both operands; the ValueError interval test of KnotVector.split precedes the asserting heavy layer; no divisor on the split path is a bare node parameter (cut at 0). "
        "Equality of each piece with the original and the junction multiplicity are not decided."
    )
    chk.decides = ["DEFAULT-SAME-OPERAND (the stand-in weights of a polynomial operand of | are sized by that operand)", "MIN-POINT (split uses nothing of a control point but scalar * point and point + point)", "CUTS-DISTINCT (pieces are made between consecutive members of a de-duplicated list of cut points)", "NONE-DEFAULT (split() without argument is recognised by `nodes is None`)", "DEHOMOG-PAIR (points divided by a list of weights are stored with exactly those weights)", "JOIN-HOMOG (both sides of the junction are scaled alike, so the weight function can be continuous there)", "MEMO-KEY (no function on the path is memoised by the value of numbers / knot vectors)", "PURE/FRESH(split, |)", "DEP-MUST weights of the pieces / of the joined curve", "GATE(max(A) = min(B))", "X-ASSERT(split)", "D", 'INTERVAL (pieces / join built on the operand knot values)', 'MULT-KEEP', 'DEP-MAY(pieces depend on the weights)', 'ELEM-COVER (the join reads the first control point of the right operand)', 'CLEAN-JUNCTION (every joined curve passes through knot_clean at the junction)']
    chk.not_decided = ["each piece equals the original on its sub-interval", "that knot_clean reaches the minimal junction multiplicity (C14)"]
    r.pure("PURE", SPLIT, ["self", "nodes"])
    r.fresh_result("FRESH", SPLIT)
    r.pure("PURE", OR, ["self", "other"])
    r.fresh_result("FRESH", OR)
    # split: weights of every piece
    ctx = r.root(SPLIT)
    fi = ctx.fi
    n = 0
    for nid, v in sorted(ctx.ret_sites.items()):
        heap = ctx.ret_states[nid].heap
        have, objs = weights_component(r, ctx, v, heap, must=True)
        if not objs:
            continue
        n += 1
        want = ("PF", 0, CURVE_FIELDS[2])
        ok = want in have
        chk.ob("DEP-MUST", f"{SPLIT}: weights of each piece must-depend on self.weights", ok, loc=r.loc(ctx, ctx.cfg.nodes[nid].ast),
               detail="" if ok else f"{SPLIT}: the weights of the returned pieces do not depend on `self.weights` on every path: pieces of a rational curve come back polynomial", func=SPLIT, construct="pieces lose weights")
        cp, _ = set(), None
        hv_ok = True
        for o in objs:
            hv = heap.get((o, CURVE_FIELDS[1]))
            d = r.deep_dep(ctx, hv, heap=heap) if hv is not None else set()
            need = r.srcs(fi, ["self.ctrlpoints", "self.knotvector", "nodes"])
            miss = [w for w in need if not R.dep_has(d, w)]
            if miss:
                hv_ok = False
                cp = miss
        # rational curve: P'_j = sum_i M_ji w_i P_i / sum_i M_ji w_i — the pieces' control points are a function of the weights
        wmiss = [o for o in objs if not R.dep_has(r.deep_dep(ctx, heap.get((o, CURVE_FIELDS[1])), heap=heap), ("PF", 0, CURVE_FIELDS[2]))]
        chk.ob("DEP-MAY", f"{SPLIT}: control points of each piece depend on self.weights (rational curve)", not wmiss, loc=r.loc(ctx, ctx.cfg.nodes[nid].ast),
               detail="" if not wmiss else f"{SPLIT}: the control points of the returned pieces are computed from `self.ctrlpoints` alone (matrix @ ctrlpoints) and never from `self.weights`: for a rational curve with non-constant weights the pieces are not the original curve on their sub-interval (the weighted numerators w_i*P_i have to be transformed and divided by the new weights)",
               func=SPLIT, construct="pieces' control points ignore self.weights")
        chk.ob("DEP-MAY", f"{SPLIT}: control points of each piece depend on the curve's points, knot vector and the cut nodes", hv_ok, loc=r.loc(ctx, ctx.cfg.nodes[nid].ast),
               detail="" if hv_ok else f"{SPLIT}: control points of the pieces do not depend on {r.fmt_deps(fi, cp)}", func=SPLIT, construct="pieces ignore an input")
    chk.floor("DEP-MUST", "return sites of split that return curves", n, 1)
    nx = x_assert(r, chk, SPLIT, ("Operations.split_curve",))
    chk.floor("X-ASSERT", "split_curve call site in Curve.split", nx, 1)
    # join
    ctx = r.root(OR)
    fi = ctx.fi
    kv = CURVE_FIELDS[0]
    guards = limits_guards(r, ctx, {("PF", 0, kv)}, {("PF", 1, kv), ("P", 1)})
    chk.floor("GATE-JOIN", "max(A) != min(B) ⇒ ValueError guard", len(guards), 1)
    first_work = [x for x in r.stmt_nodes(ctx) if any(c.kind in ("copy", "setter", "call") and c.cfgnode == x.id and any(f.name in ("__copy__", "__deepcopy__", "knot_clean", "__init__") or f.kind == "setter" for f in c.callees) for c in ctx.calls)]
    chk.floor("GATE-JOIN", "copies / mutations in __or__", len(first_work), 3)
    for x in first_work:
        ok = any(r.guard_dominates(ctx, g, x.id) for g in guards)
        chk.ob("GATE-JOIN", f"{OR}: `{seg(x.ast, 50)}` only after the junction test", ok, loc=r.loc(ctx, x.ast), detail="" if ok else f"{OR}: `{seg(x.ast, 60)}` happens before `max(A) != min(B)` ⇒ ValueError has been tested", func=OR, construct="work before junction test")
    def consulted_at(nid):
        """what the tests whose outcome is fixed on every path to node nid have read"""
        out = set()
        for t in ctx.cfg.nodes:
            if t.kind != "test":
                continue
            for lab in ("t", "f"):
                if not ctx.cfg.edge_dominates(t.id, lab, nid):
                    continue
                # `a or b` came out false / `a and b` came out true: every operand was evaluated
                allops = isinstance(t.ast, ast.BoolOp) and ((isinstance(t.ast.op, ast.Or) and lab == "f") or (isinstance(t.ast.op, ast.And) and lab == "t"))
                for e in (t.ast.values if allops else [t.ast]):
                    tv = ctx.val(e)
                    if tv is not None:
                        out |= set(tv.all_mdep())
        return out

    # the weights the join itself gives to the new curve (before the junction is cleaned): value and the tests on the way to the store
    stores = [n_ for n_ in r.stmt_nodes(ctx) if isinstance(n_.ast, ast.Assign) and any(isinstance(t_, ast.Attribute) and t_.attr == "weights" for t_ in n_.ast.targets)]
    for nid, v in sorted(ctx.ret_sites.items()):
        heap = ctx.ret_states[nid].heap
        have, objs = weights_component(r, ctx, v, heap, must=True)
        may, _ = weights_component(r, ctx, v, heap, must=False)
        consulted = consulted_at(nid)
        for who, idx in (("self", 0), (fi.params[1], 1)):
            want = ("PF", idx, CURVE_FIELDS[2])
            at_store = bool(stores) and all(ctx.val(n_.ast.value) is not None and (R.dep_has(set(ctx.val(n_.ast.value).all_dep()), want) or want in consulted_at(n_.id)) for n_ in stores)
            # the must-dependence can be lost in the fit behind the degree setter / knot_clean (a branch of fit_curve that keeps the
            # weights the target already has is merged into the summary although the target there is a fresh curve): then every
            # store of weights in the join itself has to depend on the operand, and so have the weights that are returned
            ok = want in have or want in consulted or (at_store and R.dep_has(may, want))
            chk.ob("DEP-MUST", f"{OR}: weights of the joined curve must-depend on {who}.weights", ok, loc=r.loc(ctx, ctx.cfg.nodes[nid].ast),
                   detail="" if ok else f"{OR}: the joined curve is built without reading `{who}.weights` (the result's weights are the constant None on every path): joining the pieces of a rational curve silently gives a polynomial curve",
                   func=OR, construct=f"{'self' if idx == 0 else 'other'}.weights not consulted")
        mayd = set()
        for o in objs:
            hv = heap.get((o, CURVE_FIELDS[1]))
            if hv is not None:
                mayd |= r.deep_dep(ctx, hv, heap=heap)
        need = r.srcs(fi, ["self.ctrlpoints", f"{fi.params[1]}.ctrlpoints"])
        miss = [w for w in need if not R.dep_has(mayd, w)]
        chk.ob("DEP-MAY", f"{OR}: control points of the joined curve depend on both operands", not miss, loc=r.loc(ctx, ctx.cfg.nodes[nid].ast), detail="" if not miss else f"{OR}: joined control points ignore {r.fmt_deps(fi, miss)}", func=OR, construct="joined points ignore an operand")
    # ELEM-COVER: the first control point of the right operand is read somewhere (it is B(min B): dropping it is only right when
    # the junction is continuous, and then it has to be compared with A's last point first)
    reads = []
    par = {}
    for pnode in ast.walk(fi.node):
        for ch in ast.iter_child_nodes(pnode):
            par[ch] = pnode
    for a in ast.walk(fi.node):
        if isinstance(a, ast.Attribute) and a.attr == "ctrlpoints" and isinstance(a.ctx, ast.Load):
            v = ctx.val(a)
            if v is None:
                continue
            d = v.all_dep()
            if ("PF", 1, CURVE_FIELDS[1]) in d and ("PF", 0, CURVE_FIELDS[1]) not in d:
                p_ = par.get(a)
                dropped = isinstance(p_, ast.Subscript) and p_.value is a and isinstance(p_.slice, ast.Slice) and isinstance(p_.slice.lower, ast.Constant) and isinstance(p_.slice.lower.value, int) and p_.slice.lower.value >= 1
                reads.append((a, dropped))
    chk.floor("ELEM-COVER", f"reads of the right operand's control points in {OR}", len(reads), 1)
    okc = any(not dr for _, dr in reads)
    chk.ob("ELEM-COVER", f"{OR}: the first control point of `{fi.params[1]}` is read", okc, loc=r.loc(ctx, reads[0][0]) if reads else r.loc(ctx, fi.node),
           detail="" if okc else f"{OR}: every read of the right operand's control points is `…ctrlpoints[k:]` with k >= 1 — its first control point B(min B) never reaches the result and is never compared with A's last point: for a junction that is not continuous (A | B)(u) differs from B(u) on the first span of B",
           func=OR, construct="first control point of the right operand dropped")
    # every joined curve goes through knot_clean at the junction (polynomial AND rational): the join is assembled with
    # multiplicity degree+1 there, which is only what the curve needs when the junction is discontinuous
    cleans = [c.cfgnode for c in ctx.calls if any(f.name == "knot_clean" for f in c.callees)]
    for nid in sorted(ctx.ret_sites):
        okc = any(ctx.cfg.dominates(c, nid) for c in cleans)
        chk.ob("CLEAN-JUNCTION", f"{OR}: `{seg(ctx.cfg.nodes[nid].ast, 30)}` only after knot_clean at the junction", okc, loc=r.loc(ctx, ctx.cfg.nodes[nid].ast),
               detail="" if okc else f"{OR}: a joined curve is returned at {r.loc(ctx, ctx.cfg.nodes[nid].ast)} without `knot_clean([junction])`: the junction keeps the multiplicity degree+1 it is assembled with, so joining the pieces of a split does not give back the original knot vector", func=OR, construct="join returned without cleaning the junction")
    from .homog import weight_homog

    weight_homog(r, chk, [SPLIT])
    rule_d(r, chk, [SPLIT], floor=4)
    from .extra import interval_from_operand, mult_keep

    interval_from_operand(r, chk, [SPLIT, OR], floor=2)
    from .c16 import min_point

    min_point(r, chk, ["curves.Curve.split"], floor=2)
    from .extra import default_same_operand

    default_same_operand(r, chk, OR)
    from .extra import cuts_distinct

    cuts_distinct(r, chk, ["heavy.ImmutableKnotVector.split"], floor=1)
    mult_keep(r, chk, ["heavy.ImmutableKnotVector.split", "heavy.Operations.split_curve", "knotspace.KnotVector.split", SPLIT, OR], floor=3)
    from .extra import memo_key

    nm = memo_key(r, chk, entries=['curves.Curve.split', 'curves.BaseCurve.__or__'])
    chk.floor("MEMO-KEY", "functions reachable from the entry points examined for value-keyed memoisation", nm, 3)
    from .homog import join_homog

    join_homog(r, chk, OR)
    from .extra import dehomog_pair

    dehomog_pair(r, chk, ["curves.Curve.split"], floor=1)
    from .extra import none_default

    none_default(r, chk, [SPLIT])
