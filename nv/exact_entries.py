"""A3 — entries of the exact context (sinks = every return and every state write reachable from them)."""
from . import AnalysisError

ENTRIES = [
    "curves.BaseCurve.__call__", "curves.Curve.eval",
    "functions.IndexableFunction.__getitem__", "functions.FunctionEvaluator.eval", "functions.IndexableFunction.eval", "functions.FunctionEvaluator.__init__",
    "curves.Curve.knot_insert", "curves.Curve.knot_remove", "curves.Curve.knot_clean", "curves.Curve.degree_increase", "curves.Curve.degree_decrease",
    "curves.Curve.degree_clean", "curves.Curve.clean", "curves.Curve.split", "curves.BaseCurve.fraction", "curves.BaseCurve.__or__",
    "curves.BaseCurve.__neg__", "curves.BaseCurve.__add__", "curves.BaseCurve.__radd__", "curves.BaseCurve.__sub__", "curves.BaseCurve.__rsub__",
    "curves.BaseCurve.__mul__", "curves.BaseCurve.__rmul__", "curves.BaseCurve.__matmul__", "curves.BaseCurve.__rmatmul__", "curves.BaseCurve.__truediv__", "curves.BaseCurve.__rtruediv__",
    "curves.BaseCurve.update", "curves.BaseCurve.apply", "curves.BaseCurve.degree.setter", "curves.BaseCurve.knotvector.setter",
    "curves.Curve.fit_curve", "curves.Curve.fit_points", "curves.Curve.fit_function", "curves.Curve.fit",
    "calculus.Integrate.scalar", "calculus.Integrate.function",
    "knotspace.KnotVector.shift", "knotspace.KnotVector.scale", "knotspace.KnotVector.normalize", "knotspace.KnotVector.insert", "knotspace.KnotVector.remove", "knotspace.KnotVector.split",
    "knotspace.KnotVector.__or__", "knotspace.KnotVector.__and__", "knotspace.KnotVector.__add__", "knotspace.KnotVector.__sub__", "knotspace.KnotVector.__mul__", "knotspace.KnotVector.__truediv__",
    "knotspace.KnotVector.degree.setter", "knotspace.KnotVector.span", "knotspace.KnotVector.mult",
    "knotspace.GeneratorKnotVector.bezier", "knotspace.GeneratorKnotVector.integer", "knotspace.GeneratorKnotVector.uniform", "knotspace.GeneratorKnotVector.random", "knotspace.GeneratorKnotVector.weight",
    "heavy.Linalg.solve", "heavy.Linalg.invert", "heavy.Linalg.lstsq", "heavy.LeastSquare.func2func", "heavy.LeastSquare.spline2spline", "heavy.LeastSquare.fit_function",
    "heavy.eval_spline_nodes", "heavy.eval_rational_nodes", "heavy.BasisFunction.speval_matrix", "heavy.BasisFunction.horner_method",
    "heavy.Operations.knot_insert", "heavy.Operations.one_knot_insert", "heavy.Operations.one_knot_insert_once", "heavy.Operations.split_curve", "heavy.Operations.knot_remove",
    "heavy.Operations.degree_increase", "heavy.Operations.degree_increase_bezier", "heavy.Operations.degree_increase_bezier_once", "heavy.Operations.matrix_transformation",
    "heavy.MathOperations.knotvector_mul", "heavy.MathOperations.add_spline_curve", "heavy.MathOperations.mul_spline_curve",
    "heavy.NodeSample.closed_linspace", "heavy.NodeSample.open_linspace", "heavy.IntegratorArray.closed_newton_cotes", "heavy.IntegratorArray.open_newton_cotes",
    "heavy.IntegratorArray.bezier_integrator_array", "heavy.IntegratorArray.interpolate_bezier",
]
# explicitly NOT entries (float by design): Derivate.*, Integrate.lenght / density (square root), Projection, Intersection,
# find_roots (used only as a predicate), NodeSample.chebyshev / gauss_legendre, IntegratorArray.chebyshev / gauss_legendre


# optional parameters bound to their default in the exact context ("the default integration")
BINDINGS = {
    "calculus.Integrate.scalar": {"method": None, "nnodes": None},
    "calculus.Integrate.function": {"method": None, "nnodes": None},
}


def entries(prog):
    missing = [q for q in ENTRIES if q not in prog.funcs]
    if missing:
        raise AnalysisError(f"anchor vanished: exact-context entries {missing}")
    return list(ENTRIES)
