"""Further rule templates added after the first round of independently seeded changes (DESIGN §10)."""
from __future__ import annotations

import ast
from typing import Dict, List, Optional, Set, Tuple

from ..vals import root_of
from .common import CURVE_FIELDS, R, reach_cut, seg
from .c08 import path_facts


# ------------------------------------------------------------------------------------------------
# MEMO-KEY: no value-keyed memoisation on the numeric layer (== conflates 1, 1.0 and Fraction(1))
def memo_key(r: R, chk, rule="MEMO-KEY", entries=None):
    n = 0
    only = None
    if entries is not None:
        from .divisions import reachable_functions

        only = set(reachable_functions(r, entries))
    for fi in r.prog.all_functions():
        if fi.module == "__classes__" or (only is not None and fi.qual not in only):
            continue
        n += 1
        bad = None
        for d in fi.node.decorator_list:
            t = seg(d)
            if "lru_cache" in t or t.split("(")[0].split(".")[-1] == "cache" or "memoize" in t.lower():
                params = [p for p in fi.params if p not in ("self", "cls")]
                typed = all(isinstance(fi.annots.get(p), ast.Name) and fi.annots[p].id in ("int", "str", "bool") for p in params)
                if params and not typed:
                    bad = t
        if bad is None and not fi.node.decorator_list:
            continue
        chk.ob(rule, f"{fi.qual}: no value-keyed memoisation (`{seg(fi.node.decorator_list[0], 30) if fi.node.decorator_list else ''}`)", bad is None, loc=f"{fi.module}.py:{fi.node.lineno}",
               detail="" if bad is None else f"{fi.qual} is memoised with `@{bad}` on arguments that are numbers / tuples of numbers: the cache key compares with ==, so 1, 1.0 and Fraction(1) share an entry — the result for exact input depends on whether a float (or int) call came first, and exact input can come back as float",
               func=fi.qual, construct=f"memoised by value: @{bad}" if bad else "")
    # hand-written tables: a module-level / class-level dict written under a key computed from number-valued parameters
    for fi in r.prog.all_functions():
        if fi.module == "__classes__" or (only is not None and fi.qual not in only):
            continue
        for st, table, key in _table_stores(r, fi):
            free = _reaching_params(fi, key)
            loose = sorted(p for p in free if not (isinstance(fi.annots.get(p), ast.Name) and fi.annots[p].id in ("int", "str", "bool")))
            chk.ob(rule, f"{fi.qual}: the table `{table}` is keyed by small integers / names only", not loose, loc=f"{fi.module}.py:{st.lineno}",
                   detail="" if not loose else f"{fi.qual} stores into the shared table `{table}` under `{seg(key, 50)}`, computed from {loose}: numbers and tuples of numbers compare with ==, so 1, 1.0 and Fraction(1) (and equal knot vectors of different number types) share an entry — the answer for exact input depends on which call came first, and exact input can come back as float",
                   func=fi.qual, construct=f"table {table} keyed by value" if loose else "")
    return n


def _is_dict_literal(v) -> bool:
    return isinstance(v, ast.Dict) or (isinstance(v, ast.Call) and isinstance(v.func, ast.Name) and v.func.id in ("dict", "OrderedDict", "defaultdict"))


def _table_stores(r: R, fi):
    """(statement, table name, key expression) for every store into a module-level or class-level dict"""
    from ..index import mangle

    mod = r.prog.modules.get(fi.module)
    mod_tables = set()
    if mod is not None:
        for st in mod.tree.body:
            if isinstance(st, (ast.Assign, ast.AnnAssign)) and st.value is not None and _is_dict_literal(st.value):
                for t in (st.targets if isinstance(st, ast.Assign) else [st.target]):
                    if isinstance(t, ast.Name):
                        mod_tables.add(t.id)
    local = {t.id for a in ast.walk(fi.node) if isinstance(a, ast.Assign) for t in a.targets if isinstance(t, ast.Name)}
    declared_global = {n for g in ast.walk(fi.node) if isinstance(g, ast.Global) for n in g.names}

    def table_of(b):
        if isinstance(b, ast.Name) and b.id in mod_tables and (b.id not in local or b.id in declared_global):
            return b.id
        if isinstance(b, ast.Attribute):
            base = b.value
            cn = None
            if isinstance(base, ast.Name) and base.id in ("self", "cls"):
                cn = fi.clsname
            elif isinstance(base, ast.Name) and r.prog.classes.get(base.id) is not None:
                cn = base.id
            elif isinstance(base, ast.Call) and isinstance(base.func, ast.Name) and base.func.id == "type":
                cn = fi.clsname
            elif isinstance(base, ast.Attribute) and base.attr == "__class__":
                cn = fi.clsname
            if cn:
                ci = r.prog.classes.get(cn)
                m = mangle(fi.clsname, b.attr) if fi.clsname else b.attr
                for cand in (m, mangle(cn, b.attr), b.attr):
                    if ci is not None and cand in ci.attrs and _is_dict_literal(ci.attrs[cand]):
                        return f"{cn}.{b.attr}"
        return None

    out = []
    for n in ast.walk(fi.node):
        if isinstance(n, ast.Subscript) and isinstance(n.ctx, ast.Store):
            t = table_of(n.value)
            if t:
                out.append((n, t, n.slice))
        elif isinstance(n, ast.Call) and isinstance(n.func, ast.Attribute) and n.func.attr == "setdefault" and n.args:
            t = table_of(n.func.value)
            if t:
                out.append((n, t, n.args[0]))
    return out


def _reaching_params(fi, e) -> Set[str]:
    """parameters the expression is computed from, through the local assignments of the function"""
    defs: Dict[str, List[ast.expr]] = {}
    for a in ast.walk(fi.node):
        if isinstance(a, ast.Assign):
            for t in a.targets:
                for nm in ast.walk(t):
                    if isinstance(nm, ast.Name):
                        defs.setdefault(nm.id, []).append(a.value)
        elif isinstance(a, (ast.AugAssign, ast.AnnAssign)) and isinstance(a.target, ast.Name) and a.value is not None:
            defs.setdefault(a.target.id, []).append(a.value)
        elif isinstance(a, (ast.For, ast.comprehension)):
            for nm in ast.walk(a.target):
                if isinstance(nm, ast.Name):
                    defs.setdefault(nm.id, []).append(a.iter)
    seen, work, out = set(), [e], set()
    while work:
        x = work.pop()
        for nm in ast.walk(x):
            if isinstance(nm, ast.Name) and nm.id not in seen:
                seen.add(nm.id)
                if nm.id in fi.params:
                    out.add(nm.id)
                work.extend(defs.get(nm.id, []))
    return out


# ------------------------------------------------------------------------------------------------
# POLY-ONLY: polynomial-only helpers are called only where the path established `weights is None`
POLY_ONLY = ("LeastSquare.spline2spline", "heavy.eval_spline_nodes", "MathOperations.add_spline_curve", "MathOperations.mul_spline_curve", "MathOperations.knotvector_mul", "Operations.matrix_transformation")


def _homogeneous_numerators(fi, name: str) -> bool:
    """the function forms `w * P` for every pair of zip(<name>.weights, <name>.ctrlpoints)"""
    objs = {name}
    for a in ast.walk(fi.node):
        if isinstance(a, ast.Assign) and len(a.targets) == 1 and isinstance(a.targets[0], ast.Name) and isinstance(a.value, ast.Name) and a.value.id in objs:
            objs.add(a.targets[0].id)  # `_inl3_other = other`: the operand under the parameter name of an inlined helper
    wnames = {o + ".weights" for o in objs}
    pnames = {o + ".ctrlpoints" for o in objs}
    for a in ast.walk(fi.node):
        if isinstance(a, ast.Assign) and len(a.targets) == 1 and isinstance(a.targets[0], ast.Name) and seg(a.value) in wnames:
            wnames.add(a.targets[0].id)
    for c in ast.walk(fi.node):
        if isinstance(c, (ast.ListComp, ast.GeneratorExp)) and len(c.generators) == 1:
            g = c.generators[0]
            if isinstance(g.iter, ast.Call) and seg(g.iter.func) == "zip" and len(g.iter.args) == 2 and isinstance(g.target, ast.Tuple) and len(g.target.elts) == 2:
                a0, a1 = (seg(x) for x in g.iter.args)
                t0, t1 = (seg(x) for x in g.target.elts)
                pairs = {a0: t0, a1: t1}
                wt = next((t for a, t in pairs.items() if a in wnames), None)
                pt = next((t for a, t in pairs.items() if a in pnames), None)
                if wt and pt and isinstance(c.elt, ast.BinOp) and isinstance(c.elt.op, ast.Mult) and {seg(c.elt.left), seg(c.elt.right)} == {wt, pt}:
                    return True
    return False


def poly_only(r: R, chk, quals: List[str], rule="POLY-ONLY", floor: int = 1):
    n = 0
    for q in quals:
        ctx = r.root(q)
        fi = ctx.fi
        for cr in ctx.calls:
            for callee, bound in zip(cr.callees, cr.args):
                if not any(callee.qual.endswith(s) for s in POLY_ONLY):
                    continue
                facts = path_facts(ctx, cr.cfgnode)
                ops = set()
                for pn, av in bound.items():
                    if av is None:
                        continue
                    for d in av.all_dep():
                        if d[0] == "PF" and d[2] == CURVE_FIELDS[0]:
                            ops.add(d[1])
                for i in sorted(ops):
                    n += 1
                    name = fi.params[i]
                    ok = (f"{name}.weights is None", True) in facts
                    if not ok and _homogeneous_numerators(fi, name):
                        # the function works in homogeneous coordinates for `name`: the polynomial operator is applied to the weighted
                        # points w_i*P_i and to the weights (WEIGHT-HOMOG decides that what is stored is divided back correctly)
                        ok = True
                    chk.ob(rule, f"{q}: `{seg(cr.node, 40)}` (polynomial basis of `{name}`) only where `{name}.weights is None`", ok, loc=r.loc(ctx, cr.node),
                           detail="" if ok else f"{q}: `{seg(cr.node, 60)}` works on the polynomial B-spline basis of `{name}`'s knot vector, but the path has not established `{name}.weights is None`: for a rational `{name}` the polynomial basis is used with the weights ignored",
                           func=q, construct=f"{callee.name} reached with rational {('self' if i == 0 else 'other')}")
    chk.floor(rule, "call sites of polynomial-only helpers", n, floor)


# ------------------------------------------------------------------------------------------------
# PRECHECK-WEIGHTS: a weights setter reached after the commit began has had its zero-test done before
def precheck_weights(r: R, chk, quals: List[str], rule="PRECHECK"):
    for q in quals:
        ctx = r.root(q)
        writes = r.write_nodes(ctx, 0)
        for cr in ctx.calls:
            if cr.kind != "setter" or not any(f.qual == "curves.BaseCurve.weights.setter" for f in cr.callees):
                continue
            tgt = cr.node
            stmt = ctx.cfg.nodes[cr.cfgnode].ast
            val = stmt.value if isinstance(stmt, ast.Assign) else None
            if val is None or (isinstance(val, ast.Constant) and val.value is None):
                continue
            recv = cr.args[0].get("self") if cr.args else None
            if recv is None or not any(root_of(o) == 0 for o in recv.pts):
                continue
            if isinstance(val, ast.Attribute) and isinstance(val.value, ast.Name) and val.attr == "weights":
                continue  # taken unchanged from another curve object: validated by that object's own setter
            before = [w for w in writes if w != cr.cfgnode and cr.cfgnode in ctx.cfg.reachable_from_succ(w, exc=False)]
            if not before:
                continue  # the setter is the first write: its refusal leaves the curve untouched
            # the value and the names it is a plain copy of (`newweights = computed`): a test of any of them is a test of the value
            aliases = {x.id for x in ast.walk(val) if isinstance(x, ast.Name)}
            grow = True
            while grow:
                grow = False
                for a_ in ast.walk(ctx.fi.node):
                    if isinstance(a_, ast.Assign) and len(a_.targets) == 1 and isinstance(a_.targets[0], ast.Name) and isinstance(a_.value, ast.Name) and a_.targets[0].id in aliases and a_.value.id not in aliases:
                        aliases.add(a_.value.id)
                        grow = True
            guards = []
            for g in r.raise_guards(ctx, ("ValueError",)):
                exprs = [g[0].ast]
                for nm in {x.id for x in ast.walk(g[0].ast) if isinstance(x, ast.Name)}:
                    dd = [a for a in ast.walk(ctx.fi.node) if isinstance(a, ast.Assign) and any(isinstance(tt, ast.Name) and tt.id == nm for tt in a.targets)]
                    if len(dd) == 1 and nm not in ctx.fi.params:
                        exprs.append(dd[0].value)  # the test goes through a local with one definition
                calls = [c for e_ in exprs for c in ast.walk(e_) if isinstance(c, ast.Call) and seg(c.func).endswith("find_roots")]
                for c in calls:
                    names = {x.id for a in c.args for x in ast.walk(a) if isinstance(x, ast.Name)}
                    if names & aliases:
                        guards.append(g)
            # every path from a (non-None) definition of the value to a state write traverses the passing edge of the test
            from .common import reach_cut

            vnames = aliases
            defs = [n for n in r.stmt_nodes(ctx) if isinstance(n.ast, ast.Assign) and any(isinstance(t, ast.Name) and t.id in vnames for t in n.ast.targets) and not (isinstance(n.ast.value, ast.Constant) and n.ast.value.value is None) and not (isinstance(n.ast.value, ast.Name) and n.ast.value.id in vnames)]
            cut = {(g[0].id, g[1]) for g in guards}
            ok = bool(guards) and bool(defs)
            for d in defs:
                free = reach_cut(ctx, ctx.cfg.succs(d.id, exc=False), cut_edges=cut)
                if any(w in free for w in before):
                    ok = False
            chk.ob(rule, f"{q}: `{seg(stmt, 40)}` after the commit began — zero-test of the new weights done before the first write", ok, loc=r.loc(ctx, stmt),
                   detail="" if ok else f"{q}: `{seg(stmt, 50)}` runs after state has already been written ({r.loc(ctx, ctx.cfg.nodes[min(before)].ast)}); the weights setter refuses weights whose weight function has a zero (ValueError) and no `find_roots` test of that value precedes the first write: the refusal leaves the curve with cleared control points / weights",
                   func=q, construct="weights setter may refuse after the commit began")


# ------------------------------------------------------------------------------------------------
# REFINE-BOTH (C13)
def refine_both(r: R, chk, qual: str, rule="REFINE-BOTH"):
    from .common import expand_locals

    ctx = r.root(qual)

    class _Site:
        def __init__(self, node, it):
            self.id, self.ast, self.iter = node.id, node.ast, it

    loops = [_Site(n, n.ast.iter) for n in r.stmt_nodes(ctx) if n.kind == "for" and "zip(" in seg(n.ast.iter) and seg(n.ast.iter).count("ctrlpoints") >= 2]
    # the same comparison written as any(... for a, b in zip(...)) / all(...), possibly over a local holding the zip
    for n in r.stmt_nodes(ctx):
        if n.kind == "for" or not isinstance(n.ast, ast.stmt):
            continue
        for comp in ast.walk(n.ast):
            if isinstance(comp, (ast.GeneratorExp, ast.ListComp)) and len(comp.generators) == 1:
                it = expand_locals(ctx.fi, comp.generators[0].iter)
                if "zip(" in seg(it, 400) and seg(it, 400).count("ctrlpoints") >= 2:
                    loops.append(_Site(n, it))
    chk.floor(rule, f"point-by-point comparison loop in {qual}", len(loops), 1)
    for lp in loops:
        names = [x.value.id for x in ast.walk(lp.iter) if isinstance(x, ast.Attribute) and x.attr == "ctrlpoints" and isinstance(x.value, ast.Name)]
        for var in names:
            sets = [n for n in r.stmt_nodes(ctx) if isinstance(n.ast, ast.Assign) and any(isinstance(t, ast.Attribute) and t.attr == "knotvector" and isinstance(t.value, ast.Name) and t.value.id == var for t in n.ast.targets)]
            avoid = {n.id for n in sets}
            unrefined = lp.id in ctx.cfg.reachable(ctx.cfg.entry, exc=False, avoid=avoid)
            ok = not unrefined
            if unrefined:
                # allowed only where the two knot vectors were found equal
                for txt, pol in path_facts_avoiding(ctx, lp.id, avoid):
                    t = txt.replace(" ", "")
                    if pol and t in ("self.knotvector==other.knotvector", "other.knotvector==self.knotvector"):
                        ok = True
            chk.ob(rule, f"{qual}: `{var}` is compared only after refinement to the common knot vector (or where both knot vectors are equal)", ok, loc=r.loc(ctx, lp.ast),
                   detail="" if ok else f"{qual}: a path reaches the point-by-point comparison with `{var}` not refined to the common knot vector and without `self.knotvector == other.knotvector` having been established: control points over different knot vectors (e.g. the same knots with different multiplicities) are zipped and truncated",
                   func=qual, construct=f"{var} compared unrefined")


def path_facts_avoiding(ctx, nid: int, avoid: Set[int]):
    """facts (condition text, polarity) that hold on every path from the entry to nid that avoids `avoid`"""
    cfg = ctx.cfg
    from .common import local_aliases, unalias

    _al = local_aliases(ctx.fi.node)
    facts = set()
    for t in cfg.nodes:
        if t.kind != "test" or t.id in avoid:
            continue
        for lab, pol in (("t", True), ("f", False)):
            if not any(l == lab for _, l in t.succ):
                continue
            # does every avoiding path traverse this edge?
            seen, todo = set(), [cfg.entry]
            while todo:
                x = todo.pop()
                if x in seen or x in avoid:
                    continue
                seen.add(x)
                for s, l2 in cfg.nodes[x].succ:
                    if l2 == "exc" or (x == t.id and l2 == lab):
                        continue
                    todo.append(s)
            if nid not in seen:
                c = unalias(t.ast, _al)
                parts = [c]
                if isinstance(c, ast.BoolOp) and ((isinstance(c.op, ast.And) and pol) or (isinstance(c.op, ast.Or) and not pol)):
                    parts = c.values
                elif isinstance(c, ast.BoolOp):
                    parts = []
                for p in parts:
                    pp, q = p, pol
                    while isinstance(pp, ast.UnaryOp) and isinstance(pp.op, ast.Not):
                        pp, q = pp.operand, not q
                    from .c08 import norm_fact

                    facts.add(norm_fact(pp, q))
    return facts


# ------------------------------------------------------------------------------------------------
# BOTH-MULTS (C17): the multiplicities of both operands are consulted
def both_mults(r: R, chk, qual: str, rule="BOTH-MULTS"):
    ctx = r.root(qual)
    seen = set()
    for cr in ctx.calls:
        for callee, bound in zip(cr.callees, cr.args):
            if callee.name in ("mult", "__mult_single", "count") or callee.name.endswith("mult_single"):
                rv = bound.get("self")
                if rv is not None:
                    seen |= {root_of(o) for o in rv.pts}
    for n in ast.walk(ctx.fi.node):
        if isinstance(n, ast.Call) and isinstance(n.func, ast.Attribute) and n.func.attr == "count":
            v = ctx.val(n.func.value)
            if v is not None:
                seen |= {root_of(o) for o in v.pts}
        if isinstance(n, (ast.For, ast.comprehension)):
            v = ctx.val(n.iter)
            if v is not None and any(t.startswith("inst:ImmutableKnotVector") for t in v.ty):
                pass  # iteration over a whole vector alone does not count multiplicities
    for i, who in ((0, "self"), (1, ctx.fi.params[1])):
        ok = i in seen
        chk.ob(rule, f"{qual}: the multiplicities of `{who}` are consulted", ok, loc=r.loc(ctx, ctx.fi.node),
               detail="" if ok else f"{qual}: no `mult()` / `count()` is taken on `{who}`: its multiplicities cannot influence the result (only its distinct knots / degree do), so the per-knot minimum / maximum is wrong whenever `{who}` has the decisive multiplicity",
               func=qual, construct=f"multiplicities of {'self' if i == 0 else 'other'} not consulted")
    # every return site: the value either is computed from both operands, or the path established that the operands are equal as
    # whole vectors (`self == other`); equal distinct knots / equal degree / equal limits do not say anything about multiplicities
    other = ctx.fi.params[1]
    nret = 0
    for node in ctx.cfg.nodes:
        if not (isinstance(node.ast, ast.Return) and node.ast.value is not None and node.id in ctx.cfg.live_nodes()):
            continue
        nret += 1
        v = ctx.val(node.ast.value)
        have = v.all_dep() if v is not None else set()
        miss = [w for w in (("P", 0), ("P", 1)) if not R.dep_has(have, w)]
        facts = path_facts(ctx, node.id)
        whole = {f"self == {other}", f"{other} == self", f"tuple(self) == tuple({other})", f"tuple({other}) == tuple(self)"}
        eq = any(t in whole and pol for t, pol in facts)
        ok = not miss or eq
        chk.ob(rule, f"{qual}: `{seg(node.ast, 40)}` is computed from both operands (or returned where they are equal as whole vectors)", ok, loc=r.loc(ctx, node.ast),
               detail="" if ok else f"{qual}: `{seg(node.ast, 50)}` does not depend on {r.fmt_deps(ctx.fi, miss)} and the tests on the way ({', '.join(sorted(t for t, pol in facts if pol)) or 'none'}) do not establish that the operands are equal as whole vectors: the multiplicities of {r.fmt_deps(ctx.fi, miss)} cannot influence the result on this path",
               func=qual, construct=f"return ignores the multiplicities of {r.fmt_deps(ctx.fi, miss)}")
    chk.floor(rule, f"return sites of {qual}", nret, 1)


# ------------------------------------------------------------------------------------------------
# NORMALIZE-PATHS (C18)
def normalize_paths(r: R, chk, qual="knotspace.KnotVector.normalize", rule="NORMALIZE-PATHS"):
    ctx = r.root(qual)
    shifts = {c.cfgnode for c in ctx.calls if any(f.name in ("shift", "__iadd__", "__isub__") for f in c.callees)}
    scales = {c.cfgnode for c in ctx.calls if any(f.name in ("scale", "__imul__", "__itruediv__") or f.qual.endswith("internal.setter") for f in c.callees)} - shifts
    # a single validated rebuild `self.internal = IKV((k - umin) / length for k in self)` is shift and scale at once
    defs = {}
    for a in ast.walk(ctx.fi.node):
        if isinstance(a, ast.Assign) and len(a.targets) == 1 and isinstance(a.targets[0], ast.Name):
            defs.setdefault(a.targets[0].id, []).append(a.value)

    def ops_in(e, depth=0):
        out = {type(x.op) for x in ast.walk(e) if isinstance(x, ast.BinOp)}
        if depth < 3:
            for x in ast.walk(e):
                if isinstance(x, ast.Name):
                    for d in defs.get(x.id, []):
                        out |= ops_in(d, depth + 1)
        return out

    for c in ctx.calls:
        if c.kind == "setter" and any(f.qual.endswith("internal.setter") for f in c.callees):
            st = ctx.cfg.nodes[c.cfgnode].ast
            if isinstance(st, ast.Assign) and {ast.Sub, ast.Div} <= ops_in(st.value):
                shifts.add(c.cfgnode)
    chk.floor(rule, "shift step in normalize", len(shifts), 1)
    chk.floor(rule, "scale step in normalize", len(scales), 1)
    rets = [n for n in r.stmt_nodes(ctx) if isinstance(n.ast, ast.Return)]
    for R_ in rets:
        for what, steps, fact in (("shift to 0", shifts, "self[0]==0"), ("scale to 1", scales, "self[-1]==1")):
            skipped = R_.id in ctx.cfg.reachable(ctx.cfg.entry, exc=False, avoid=steps)
            ok = not skipped
            if skipped:
                fs = {(t.replace(" ", ""), p) for t, p in path_facts_avoiding(ctx, R_.id, steps)}
                alt = {fact, fact.replace("==", "==").split("==")[1] + "==" + fact.split("==")[0]}
                ok = any((a, True) in fs for a in alt)
            chk.ob(rule, f"{qual}: `{seg(R_.ast, 30)}` is reached only after the {what} (or where `{fact}` already holds)", ok, loc=r.loc(ctx, R_.ast),
                   detail="" if ok else f"{qual}: a path returns at {r.loc(ctx, R_.ast)} without the {what} and without having established `{fact}`: the vector is returned on another interval than [0, 1]",
                   func=qual, construct=f"returns without {what}")


# ------------------------------------------------------------------------------------------------
# INTERVAL-FROM-OPERAND (C09 / C08 / C07): a result curve lives on a knot vector built from the operand's knot values
def kv_taint(fi, seeds: Set[str], pre: Optional[Set[str]] = None):
    """names holding (something built from) the knot values of an operand: flow-insensitive fixpoint; `pre`: names that hold
    knot values on entry (parameters of a private helper, judged at its call site)"""
    tainted = set(pre or ())
    # names that hold (something derived from) an operand: the operands themselves, their copies, fractions ...
    derived = set(seeds)
    ch = True
    while ch:
        ch = False
        for n in ast.walk(fi.node):
            if isinstance(n, ast.Assign) and any(isinstance(x, ast.Name) and x.id in derived for x in ast.walk(n.value)):
                for t in n.targets:
                    for x in ast.walk(t):
                        if isinstance(x, ast.Name) and isinstance(x.ctx, ast.Store) and x.id not in derived:
                            derived.add(x.id)
                            ch = True
            elif isinstance(n, (ast.For, ast.comprehension)) and any(isinstance(x, ast.Name) and x.id in derived for x in ast.walk(n.iter)):
                for x in ast.walk(n.target):
                    if isinstance(x, ast.Name) and x.id not in derived:
                        derived.add(x.id)
                        ch = True

    def is_kv(e) -> bool:
        if isinstance(e, ast.Attribute):
            if e.attr in ("knotvector", "limits", "knots", "internal") and (isinstance(e.value, ast.Name) and (e.value.id in derived or e.value.id in tainted) or is_kv(e.value)):
                return True
            return False
        if isinstance(e, ast.Name):
            return e.id in tainted
        if isinstance(e, ast.Subscript):
            return is_kv(e.value)
        if isinstance(e, ast.BinOp):
            return is_kv(e.left) or is_kv(e.right)
        if isinstance(e, (ast.Tuple, ast.List)):
            return any(is_kv(x) for x in e.elts)
        if isinstance(e, ast.Call):
            fn = seg(e.func)
            if fn in ("tuple", "list", "sorted", "copy", "deepcopy", "KnotVector", "ImmutableKnotVector", "zip", "enumerate", "reversed") or fn.endswith((".split", "knotvector_mul", ".normalize")):
                return any(is_kv(a) for a in e.args) or (isinstance(e.func, ast.Attribute) and is_kv(e.func.value))
            return False
        if isinstance(e, ast.IfExp):
            return is_kv(e.body) or is_kv(e.orelse)
        return False

    changed = True
    while changed:
        changed = False
        for n in ast.walk(fi.node):
            if isinstance(n, ast.Assign):
                for t in n.targets:
                    names = [t] if isinstance(t, ast.Name) else [x for x in getattr(t, "elts", []) if isinstance(x, ast.Name)]
                    if isinstance(t, ast.Subscript) and isinstance(t.value, ast.Name):
                        names = [t.value]  # v[a:b] = <knot values>
                    if is_kv(n.value):
                        for x in names:
                            if x.id not in tainted:
                                tainted.add(x.id)
                                changed = True
            elif isinstance(n, ast.AugAssign) and isinstance(n.target, ast.Name) and is_kv(n.value) and n.target.id not in tainted:
                tainted.add(n.target.id)
                changed = True
            elif isinstance(n, (ast.For, ast.comprehension)) and is_kv(n.iter):
                for x in ast.walk(n.target):
                    if isinstance(x, ast.Name) and x.id not in tainted:
                        tainted.add(x.id)
                        changed = True
    return tainted, is_kv


def interval_from_operand(r: R, chk, quals: List[str], rule="INTERVAL", floor: int = 1):
    n = 0
    work = []
    for q in quals:
        ctx = r.root(q)
        fi = ctx.fi
        tainted, is_kv = kv_taint(fi, {p for p in fi.params})
        work.append((q, ctx, fi, is_kv))
        # a private helper of the same class that builds the result (`self.__restrict(newvector, matrix)` inside a comprehension
        # cannot be inlined into the view): its parameters are judged at the call site
        for cr in ctx.calls:
            for callee in cr.callees:
                if not (callee.name.startswith("_") and not callee.name.endswith("__") and callee.qual in r.A.roots and isinstance(cr.node, ast.Call)):
                    continue
                ps = [p for p in callee.params if p not in ("self", "cls")]
                pre = {p for p, a in zip(ps, cr.node.args) if is_kv(a)}
                hctx = r.root(callee.qual)
                _, h_is_kv = kv_taint(callee, {p for p in callee.params if p in ("self", "cls")}, pre)
                if not any(w[0] == callee.qual for w in work):
                    work.append((callee.qual, hctx, callee, h_is_kv))
    for q, ctx, fi, is_kv in work:
        for c in ast.walk(fi.node):
            if not isinstance(c, ast.Call) or not c.args:
                continue
            fn = seg(c.func)
            if not (fn in ("Curve",) or fn.endswith(".__class__")):
                continue
            v = ctx.val(c)
            if v is None or not any(t.startswith("inst:") and "Curve" in t for t in v.ty):
                continue
            n += 1
            ok = is_kv(c.args[0])
            chk.ob(rule, f"{q}: `{seg(c, 50)}` is built on a knot vector made from the operand's knot values", ok, loc=r.loc(ctx, c),
                   detail="" if ok else f"{q}: the result curve `{seg(c, 60)}` is built on `{seg(c.args[0], 40)}`, which is not derived from the knot values of the operand (only from its degree / a generator / literals): the result lives on another parameter interval than the operand",
                   func=q, construct=f"result knot vector not from the operand: {seg(c.args[0], 40)}")
    chk.floor(rule, "result curves constructed", n, floor)


# ------------------------------------------------------------------------------------------------
# MULT-KEEP (C03 / C04 / C07): distinct-knot values do not become knot-vector elements without their multiplicity
DEDUP_CALLS = ("set", "frozenset", "np.unique", "dict.fromkeys")


def dedup_taint(fi, filtered: bool = False):
    """names holding de-duplicated knots / nodes (flow-insensitive): `.knots`, set(...), __get_unique(...), np.unique(...);
    with `filtered` also collections some of whose members were dropped by a comprehension filter / filter()"""
    conts, elems = set(), set()

    def is_dd(e) -> bool:
        if isinstance(e, ast.Attribute):
            return e.attr == "knots"
        if isinstance(e, ast.Name):
            return e.id in conts
        if isinstance(e, ast.Call):
            fn = seg(e.func)
            if fn in DEDUP_CALLS or fn.endswith("get_unique"):
                return True
            if filtered and fn == "filter":
                return True
            if fn in ("tuple", "list", "sorted") and e.args:
                return is_dd(e.args[0])
            return False
        if isinstance(e, ast.BinOp):
            if isinstance(e.op, ast.Mult):
                return False  # repetition restores a multiplicity
            if isinstance(e.op, (ast.Add,)):
                return is_dd(e.left) or is_dd(e.right)
            if isinstance(e.op, (ast.Sub, ast.BitOr, ast.BitAnd)):
                return is_dd(e.left) or is_dd(e.right)
            return False
        if isinstance(e, (ast.ListComp, ast.GeneratorExp)):
            if filtered and any(g.ifs for g in e.generators):
                return True
            loc = set()
            for g in e.generators:
                if is_dd(g.iter):
                    loc |= {x.id for x in ast.walk(g.target) if isinstance(x, ast.Name)}
            return isinstance(e.elt, ast.Name) and (e.elt.id in loc or e.elt.id in elems)
        if isinstance(e, ast.List):
            return any(isinstance(x, ast.Name) and x.id in elems for x in e.elts)
        if isinstance(e, ast.Subscript):
            return is_dd(e.value) and isinstance(e.slice, ast.Slice)
        return False

    changed = True
    while changed:
        changed = False
        for n in ast.walk(fi.node):
            if isinstance(n, ast.Assign) and len(n.targets) == 1 and isinstance(n.targets[0], ast.Name):
                if is_dd(n.value) and n.targets[0].id not in conts:
                    conts.add(n.targets[0].id)
                    changed = True
            elif isinstance(n, ast.AugAssign) and isinstance(n.target, ast.Name) and isinstance(n.op, ast.Add) and is_dd(n.value) and n.target.id not in conts:
                conts.add(n.target.id)
                changed = True
            elif isinstance(n, ast.For) and is_dd(n.iter):
                for x in ast.walk(n.target):
                    if isinstance(x, ast.Name) and x.id not in elems:
                        elems.add(x.id)
                        changed = True
    return conts, elems, is_dd


def mult_keep(r: R, chk, quals: List[str], rule="MULT-KEEP", floor: int = 1, filtered: bool = False):
    """sinks: arguments of knot-vector constructors and of insertion requests"""
    n = 0
    for q in quals:
        ctx = r.root(q)
        fi = ctx.fi
        conts, elems, is_dd = dedup_taint(fi)
        is_flt = dedup_taint(fi, True)[2] if filtered else is_dd
        for c in ast.walk(fi.node):
            sink = None
            if isinstance(c, ast.Call) and c.args:
                fn = seg(c.func)
                if fn in ("ImmutableKnotVector", "KnotVector") or fn.endswith(".__class__") and any(t in ("inst:ImmutableKnotVector", "inst:KnotVector") for t in (ctx.val(c).ty if ctx.val(c) is not None else ())):
                    sink = (c.args[0], "a knot vector is built from")
                elif fn.endswith(("Operations.knot_insert", ".insert")) and len(c.args) >= 1:
                    sink = (c.args[-1], "an insertion is requested with")
            elif isinstance(c, ast.BinOp) and isinstance(c.op, ast.Add):
                lv = ctx.val(c.left)
                if lv is not None and any(t in ("inst:KnotVector", "inst:ImmutableKnotVector") for t in lv.ty):
                    # the knot vector's own `+` is what refuses an impossible request: it must see the whole request
                    sink = (c.right, "an insertion is requested with", True)
            if sink is None:
                continue
            n += 1
            e, what = sink[:2]
            ok = not (is_flt(e) if len(sink) > 2 else is_dd(e))
            chk.ob(rule, f"{q}: `{seg(c, 50)}` keeps multiplicities", ok, loc=r.loc(ctx, c),
                   detail="" if ok else f"{q}: {what} `{seg(e, 40)}`, a de-duplicated {'or filtered ' if filtered else ''}collection (distinct knots / a set{' / a comprehension that drops members' if filtered else ''}) used without its multiplicities: repeated knots / repeated nodes are silently collapsed{' or part of the request is silently ignored instead of being refused' if filtered else ''}",
                   func=q, construct=f"de-duplicated values become knots: {seg(e, 40)}")
    chk.floor(rule, "knot-vector constructions / insertion requests", n, floor)


# ------------------------------------------------------------------------------------------------
# REFLECTED: a reflected non-commutative operator is not the direct operator with the operands in the direct order
REFLECTED = (("__rsub__", "__sub__", ast.Sub), ("__rmatmul__", "__matmul__", ast.MatMult), ("__rtruediv__", "__truediv__", ast.Div))


def reflected_ops(r: R, chk, cls: str = "curves.BaseCurve", only=None, rule="REFLECTED"):
    """`x OP curve` must not be computed as `curve OP x` for OP in - @ /: the value returned by __rOP__(self, other) is not
    the unchanged result of self.__OP__(other) / `self OP other`; and for @ no product inside __rmatmul__ has the bare left
    operand `other` on the right of something computed from the curve's control points."""
    n = 0
    ci = r.prog.cls(cls.split(".")[-1])
    for rop, op, aop in REFLECTED:
        if only is not None and rop not in only:
            continue
        q = f"{cls}.{rop}"
        if not r.prog.has_func(q):
            alias = ci.attrs.get(rop)
            if alias is not None:
                n += 1
                ok = not (isinstance(alias, ast.Name) and alias.id == op)
                chk.ob(rule, f"{cls}: `{rop} = {seg(alias, 30)}` is not the direct operator", ok, loc=f"curves.py:{alias.lineno}",
                       detail="" if ok else f"{cls}: `{rop} = {op}` makes `x {_sym(aop)} curve` the same as `curve {_sym(aop)} x`, which is wrong for a non-commutative operator", func=q, construct=f"{rop} aliases {op}")
            continue
        ctx = r.root(q)
        fi = ctx.fi
        if len(fi.params) < 2:
            continue
        me, oth = fi.params[0], fi.params[1]
        rebound = any(isinstance(x, ast.Name) and x.id in (me, oth) and isinstance(x.ctx, ast.Store) for x in ast.walk(fi.node))
        for ret in [x for x in ast.walk(fi.node) if isinstance(x, ast.Return) and x.value is not None]:
            n += 1
            v = ret.value
            direct = False
            if isinstance(v, ast.BinOp) and isinstance(v.op, aop) and isinstance(v.left, ast.Name) and v.left.id == me and isinstance(v.right, ast.Name) and v.right.id == oth:
                direct = True
            if isinstance(v, ast.Call) and isinstance(v.func, ast.Attribute) and v.func.attr == op and isinstance(v.func.value, ast.Name) and v.func.value.id == me and len(v.args) == 1 and isinstance(v.args[0], ast.Name) and v.args[0].id == oth:
                direct = True
            ok = not (direct and not rebound)
            chk.ob(rule, f"{q}: `{seg(ret, 40)}` is not `{me} {_sym(aop)} {oth}` unchanged", ok, loc=r.loc(ctx, ret),
                   detail="" if ok else f"{q}: returns `{seg(v, 40)}`, i.e. computes `x {_sym(aop)} curve` as `curve {_sym(aop)} x`: for a non-commutative operator (a non-symmetric matrix on the left, a subtrahend, a dividend) the result is the wrong curve",
                   func=q, construct=f"{rop} delegates to {op} with the operands in the direct order")
        if aop is ast.MatMult:
            for b in [x for x in ast.walk(fi.node) if isinstance(x, ast.BinOp) and isinstance(x.op, ast.MatMult)]:
                n += 1
                lv = ctx.val(b.left)
                left_is_points = lv is not None and any(d[0] == "PF" and d[1] == 0 and d[2] == CURVE_FIELDS[1] for d in lv.all_dep())
                bad = isinstance(b.right, ast.Name) and b.right.id == oth and not rebound and left_is_points
                chk.ob(rule, f"{q}: `{seg(b, 40)}` keeps `{oth}` on the left", not bad, loc=r.loc(ctx, b),
                       detail="" if not bad else f"{q}: `{seg(b, 40)}` multiplies a control point by `{oth}` from the right although `{oth}` is the LEFT operand of `{oth} @ curve`: (M@A)(u) becomes A(u)@M",
                       func=q, construct="left operand applied from the right")
    chk.floor(rule, "reflected non-commutative operators examined", n, 1)


def _sym(aop):
    return {ast.Sub: "-", ast.MatMult: "@", ast.Div: "/"}[aop]


# ------------------------------------------------------------------------------------------------
# SAME-INTERVAL: "different intervals raise" is an equality of both ends, not a containment of one interval in the other
def same_interval(r: R, chk, ctx, guards, q: str, rule="SAME-INTERVAL"):
    """atoms of the ValueError guards that compare the two operands: an ==/!= between data of either operand decides equality;
    `a.valid(b...)` only decides that b lies inside a. One-directional containment alone accepts a narrower right (or left)
    operand, so U|V succeeds where V|U raises."""
    eq, cont, other_calls = False, set(), 0

    def roots(e):
        v = ctx.val(e)
        if v is None:
            return set()
        return {d[1] for d in v.all_dep() if d[0] in ("P", "PF") and d[1] in (0, 1)}

    for g in guards:
        for c in ast.walk(g[0].ast):
            if isinstance(c, ast.Compare) and len(c.ops) == 1 and isinstance(c.ops[0], (ast.Eq, ast.NotEq)):
                a, b = roots(c.left), roots(c.comparators[0])
                if (a == {0} and b == {1}) or (a == {1} and b == {0}):
                    eq = True
            elif isinstance(c, ast.Call):
                crs = [cr for cr in ctx.calls if cr.node is c]
                names = {f.name for cr in crs for f in cr.callees}
                if names and all(nm == "valid" for nm in names) and isinstance(c.func, ast.Attribute) and c.args:
                    a, b = roots(c.func.value), roots(c.args[0])
                    if len(a) == 1 and len(b) == 1 and a != b:
                        cont.add((next(iter(a)), next(iter(b))))
                        continue
                if names:
                    other_calls += 1
    onesided = bool(cont) and not ((0, 1) in cont and (1, 0) in cont)
    bad = not eq and onesided and other_calls == 0
    loc = r.loc(ctx, guards[0][0].ast) if guards else r.loc(ctx, ctx.fi.node)
    chk.ob(rule, f"{q}: the interval guard compares both ends for equality (or containment both ways)", not bad, loc=loc,
           detail="" if not bad else f"{q}: the only test between the operands' intervals is `{seg(guards[0][0].ast, 50)}` — a containment of one interval in the other, not an equality: an operand whose interval lies inside the other's is accepted, so different intervals do not raise ValueError (and the operation is accepted one way round but refused the other way round)",
           func=q, construct="interval guard is a one-sided containment")


# ------------------------------------------------------------------------------------------------
# FORM-SELECT: scalar argument -> one value, sequence argument -> a sequence, decided by the FORM of the argument
FORM_PROBES = ("tuple", "list", "iter", "len")
FORM_TESTS = ("isinstance", "hasattr", "np.ndim", "np.isscalar", "np.iterable")


def form_select(r: R, chk, qual: str, param: str, rule="FORM-SELECT", max_paths: int = 4000):
    """path-sensitive over the function's CFG: paths are grouped by the outcome of the first probe of the argument's form
    (`tuple(param)` raising TypeError, or an isinstance-like test on the parameter); along each path constants assigned to
    local flags are propagated so that `x[0] if flag else x` is resolved.  Obligation: inside one group every path returns the
    same shape (the whole evaluated container / one element of it), and for the try-probe the TypeError group returns one
    element and the other group the whole container."""
    ctx = r.root(qual)
    cfg, fi = ctx.cfg, ctx.fi
    CONT = {"tuple", "list", "ndarray", "inst:ndarray"}

    def is_probe(n):
        if n.kind != "stmt" or n.ast is None:
            return False
        hit = any(isinstance(c, ast.Call) and seg(c.func) in FORM_PROBES and len(c.args) == 1 and isinstance(c.args[0], ast.Name) and c.args[0].id == param for c in ast.walk(n.ast))
        if not hit:
            return False
        for t, lab in n.succ:
            if lab == "exc" and cfg.nodes[t].kind == "handler":
                from ..cfg import handler_types

                if "TypeError" in handler_types(cfg.nodes[t].ast) or any(x in ("Exception", "BaseException") for x in handler_types(cfg.nodes[t].ast)):
                    return True
        return False

    def is_formtest(n):
        return n.kind == "test" and any(isinstance(c, ast.Call) and seg(c.func) in FORM_TESTS and c.args and isinstance(c.args[0], ast.Name) and c.args[0].id == param for c in ast.walk(n.ast))

    probes = [n for n in cfg.nodes if is_probe(n)]
    tests = [n for n in cfg.nodes if is_formtest(n)]
    chk.floor(rule, f"probes of the form of `{param}` in {qual}", len(probes) + len(tests), 1)

    def shape(e, env):
        """set of shapes an expression may have: 'whole' | 'elem' | 'unk'"""
        if isinstance(e, ast.IfExp):
            t = truth(e.test, env)
            if t is True:
                return shape(e.body, env)
            if t is False:
                return shape(e.orelse, env)
            return shape(e.body, env) | shape(e.orelse, env)
        if isinstance(e, ast.Name):
            s = env.get(e.id)
            if isinstance(s, frozenset):
                return set(s)
        if isinstance(e, ast.Subscript) and not isinstance(e.slice, ast.Slice):
            idx = e.slice
            if isinstance(idx, ast.UnaryOp):
                idx = idx.operand
            if isinstance(idx, ast.Constant) and isinstance(idx.value, int) and "whole" in shape(e.value, env):
                return {"elem"}
        v = ctx.val(e)
        if v is not None and v.ty and v.ty <= CONT:
            return {"whole"}
        return {"unk"}

    def truth(t, env):
        if isinstance(t, ast.Name):
            s = env.get(t.id)
            if isinstance(s, tuple) and s[0] == "const":
                return bool(s[1])
            return None
        if isinstance(t, ast.UnaryOp) and isinstance(t.op, ast.Not):
            x = truth(t.operand, env)
            return None if x is None else not x
        if isinstance(t, ast.Constant):
            return bool(t.value)
        if isinstance(t, ast.Compare) and len(t.ops) == 1 and isinstance(t.ops[0], (ast.Is, ast.IsNot)) and isinstance(t.left, ast.Name) \
                and isinstance(t.comparators[0], ast.Constant) and t.comparators[0].value is None:
            # `flag is None` where the flag was bound on this path to None (handler) or to a container (the probe succeeded)
            s = env.get(t.left.id)
            isnone = None
            if isinstance(s, tuple) and s[0] == "const":
                isnone = s[1] is None
            elif isinstance(s, frozenset) and s and "unk" not in s:
                isnone = False
            if isnone is None:
                return None
            return isnone if isinstance(t.ops[0], ast.Is) else not isnone
        return None

    results = {}  # group -> {shape: example return node}
    count = [0]

    def step_env(n, env):
        a = n.ast
        if n.kind == "stmt" and isinstance(a, ast.Assign) and len(a.targets) == 1 and isinstance(a.targets[0], ast.Name):
            env = dict(env)
            if isinstance(a.value, ast.Constant):
                env[a.targets[0].id] = ("const", a.value.value)
            else:
                env[a.targets[0].id] = frozenset(shape(a.value, env))
        return env

    def walk(nid, env, group, seen):
        if count[0] > max_paths:
            return
        n = cfg.nodes[nid]
        if n.kind == "stmt" and isinstance(n.ast, ast.Return):
            count[0] += 1
            for s in (shape(n.ast.value, env) if n.ast.value is not None else {"unk"}):
                results.setdefault(group, {}).setdefault(s, n)
            return
        if n.kind == "test":
            t = truth(n.ast, env)
        else:
            t = None
        env2 = step_env(n, env)
        for tgt, lab in n.succ:
            if (nid, tgt) in seen:
                continue
            if lab == "exc" and cfg.nodes[tgt].kind != "handler":
                continue
            if n.kind == "test" and t is not None and lab in ("t", "f") and (lab == "t") != t:
                continue
            g = group
            if g is None:
                if n in probes:
                    g = ("probe", "TypeError" if lab == "exc" else "no TypeError")
                elif n in tests and lab in ("t", "f"):
                    g = ("test", f"`{seg(n.ast, 40)}` is {'true' if lab == 't' else 'false'}")
            # an assignment that raised did not happen
            walk(tgt, env if lab == "exc" else env2, g, seen | {(nid, tgt)})

    walk(cfg.entry, {}, None, frozenset())
    groups = {g: v for g, v in results.items() if g is not None}
    chk.floor(rule, f"return paths behind a form probe in {qual}", len(groups), 2)
    for g, shp in sorted(groups.items()):
        names = sorted(shp)
        want = None
        if g[0] == "probe":
            want = "elem" if g[1] == "TypeError" else "whole"
        if want == "elem":
            # a scalar became a one-node sequence: a length test cannot go wrong here, only never returning an element is
            ok = "elem" in names or names == ["unk"]
        else:
            ok = len(names) == 1 and (want is None or names[0] in (want, "unk"))
        badnode = next((shp[s] for s in names if s != want), next(iter(shp.values())))
        what = {"elem": "one element of the evaluated sequence", "whole": "the whole evaluated sequence", "unk": "a value of undetermined shape"}
        chk.ob(rule, f"{qual}: when {g[1]} ({'scalar' if want == 'elem' else 'sequence' if want == 'whole' else 'one form'} of `{param}`) the result has one shape", ok, loc=r.loc(ctx, badnode.ast),
               detail="" if ok else f"{qual}: on the paths where {g[1]} — `{param}` is a {'scalar' if want == 'elem' else 'sequence' if want == 'whole' else 'given form'} — `{seg(badnode.ast, 50)}` may return {' or '.join(what[s] for s in names)}: whether one point or a sequence comes back is not decided by the form of the argument (a one-node sequence and a scalar are confused)",
               func=qual, construct=f"result shape not decided by the form of {param} ({g[1]})")
    if len(groups) == 2 and all(len(v) == 1 for v in groups.values()):
        a, b = [next(iter(v)) for v in groups.values()]
        ok = a != b or "unk" in (a, b)
        chk.ob(rule, f"{qual}: the two forms of `{param}` give different shapes", ok, loc=r.loc(ctx, fi.node), detail="" if ok else f"{qual}: scalar and sequence arguments both return {a}", func=qual, construct="both forms return the same shape")


# ------------------------------------------------------------------------------------------------
# PRECHECK-LEN: the control-point setter refuses a list whose length is not npts of the (already rebound) knot vector
def precheck_len(r: R, chk, qual: str, rule="PRECHECK-LEN"):
    """`qual` rebinds the knot vector and then hands new control points to the validating setter.  The setter raises ValueError
    when len(points) != npts — after the commit began.  Obligation: every earlier state write on a path to that setter call is
    reached only through the passing edge of a ValueError guard whose condition depends on BOTH the new knot vector and the
    data the new points are computed from (a compatibility test done while the curve is still untouched)."""
    ctx = r.root(qual)
    fi = ctx.fi
    writes = r.write_nodes(ctx, 0)
    n = 0
    for cr in ctx.calls:
        if cr.kind != "setter" or not any(f.qual == "curves.BaseCurve.ctrlpoints.setter" for f in cr.callees):
            continue
        stmt = ctx.cfg.nodes[cr.cfgnode].ast
        val = stmt.value if isinstance(stmt, ast.Assign) else None
        if val is None or (isinstance(val, ast.Constant) and val.value is None):
            continue
        recv = cr.args[0].get("self") if cr.args else None
        if recv is None or not any(root_of(o) == 0 for o in recv.pts):
            continue
        before = [w for w in writes if w != cr.cfgnode and cr.cfgnode in ctx.cfg.reachable_from_succ(w, exc=False)]
        if not before:
            continue
        vv = ctx.val(val)
        vdeps = {d for d in (vv.all_dep() if vv is not None else ()) if d[0] == "P" and d[1] != 0}
        kv_params = {("P", i) for i, p in enumerate(fi.params) if "knotvector" in p or "vector" in p}
        data_params = vdeps - kv_params
        n += 1
        guards = []
        for g in r.raise_guards(ctx, ("ValueError",)):
            gv = ctx.val(g[0].ast)
            if gv is None:
                continue
            gd = gv.all_dep()
            if any(k in gd for k in kv_params) and any(d in gd for d in data_params):
                guards.append(g)
        cut = {(g[0].id, g[1]) for g in guards}
        free = reach_cut(ctx, [ctx.cfg.entry], cut_edges=cut)
        bad = [w for w in before if w in free]
        ok = bool(guards) and not bad
        chk.ob(rule, f"{qual}: `{seg(stmt, 40)}` after the commit began — compatibility of the new points with the new knot vector tested before the first write", ok, loc=r.loc(ctx, stmt),
               detail="" if ok else f"{qual}: `{seg(stmt, 50)}` runs after state has already been written ({r.loc(ctx, ctx.cfg.nodes[min(bad or before)].ast)}); the control-point setter raises ValueError when the number of points is not npts of the new knot vector, and no ValueError test relating `{', '.join(fi.params[d[1]] for d in sorted(kv_params))}` to `{', '.join(fi.params[d[1]] for d in sorted(data_params))}` precedes that write on every path: a transformation that does not fit the new vector (knot_insert([umin, umax]) raises the degree of the vector but not of the points) leaves the curve with its control points cleared",
               func=qual, construct="control-point setter may refuse after the commit began")
    chk.floor(rule, f"control-point commits after an earlier write in {qual}", n, 1)


# ------------------------------------------------------------------------------------------------
# JACOBIAN: a span-by-span quadrature with reference weights (sum 1 on [0, 1]) multiplies each span's sum by the span length
def jacobian(r: R, chk, quals: List[str], rule="JACOBIAN"):
    """in `for a, b in zip(knots[:-1], knots[1:])` loops that use reference quadrature weights, every accumulated term
    (`X += …`, `X.append(…)`) has a multiplicative factor computed from the difference of the loop's pair (directly, through a
    local of the loop body, or folded into the weights); the reference nodes being mapped with `a + (b - a) * node` is not that
    factor.  Without it every span counts the same whatever its length: for non-uniform knots the Gram matrices are not the L2
    inner products and the integral is not the integral."""
    from .c10 import IA, funcrefs

    total = 0
    for q in quals:
        ctx = r.root(q)
        fi = ctx.fi
        wnames = set()

        def is_weights(e) -> bool:
            calls = [c for c in ast.walk(e) if isinstance(c, ast.Call)]
            if any(any(f.startswith(IA) for f in funcrefs(ctx, c.func)) for c in calls):
                return True
            return isinstance(e, ast.Call) and seg(e.func) in ("np.array", "tuple", "list") and any(isinstance(x, ast.Name) and x.id in wnames for x in ast.walk(e))

        single = {}
        for a in ast.walk(fi.node):
            if isinstance(a, ast.Assign) and len(a.targets) == 1 and isinstance(a.targets[0], ast.Name):
                single.setdefault(a.targets[0].id, []).append(a.value)
        for _ in range(3):
            for a in ast.walk(fi.node):
                if not isinstance(a, ast.Assign) or len(a.targets) != 1:
                    continue
                t, v = a.targets[0], a.value
                if isinstance(t, ast.Name) and (is_weights(v) or (isinstance(v, ast.Name) and v.id in wnames)):
                    wnames.add(t.id)
                elif isinstance(t, ast.Tuple):
                    # `nodes, weights = (f(n), g(n))`, possibly through one local holding the tuple
                    if isinstance(v, ast.Name) and len(single.get(v.id, [])) == 1:
                        v = single[v.id][0]
                    if isinstance(v, ast.Tuple) and len(v.elts) == len(t.elts):
                        for tt, vv in zip(t.elts, v.elts):
                            if isinstance(tt, ast.Name) and (is_weights(vv) or (isinstance(vv, ast.Name) and vv.id in wnames)):
                                wnames.add(tt.id)
        loops = []
        for lp in ast.walk(fi.node):
            if isinstance(lp, ast.For) and isinstance(lp.target, ast.Tuple) and len(lp.target.elts) == 2 and all(isinstance(e, ast.Name) for e in lp.target.elts) and isinstance(lp.iter, ast.Call) and seg(lp.iter.func) == "zip" and len(lp.iter.args) == 2 and all(isinstance(x, ast.Subscript) and isinstance(x.slice, ast.Slice) for x in lp.iter.args):
                loops.append((lp, tuple(e.id for e in lp.target.elts)))
            elif isinstance(lp, ast.For):
                # `for piece in curve.split(): a, b = piece.knotvector.limits`
                for st in lp.body:
                    if isinstance(st, ast.Assign) and isinstance(st.targets[0], ast.Tuple) and len(st.targets[0].elts) == 2 and all(isinstance(e, ast.Name) for e in st.targets[0].elts) and seg(st.value).endswith(".limits"):
                        loops.append((lp, tuple(e.id for e in st.targets[0].elts)))
                        break
        for lp, (a_, b_) in loops:
            defs: Dict[str, List[ast.expr]] = {}
            for s in ast.walk(lp):
                if isinstance(s, ast.Assign) and len(s.targets) == 1 and isinstance(s.targets[0], ast.Name):
                    defs.setdefault(s.targets[0].id, []).append(s.value)
                elif isinstance(s, ast.For) and s is not lp:
                    # `for k, w in enumerate(weights)` / `for w in weights`: w stands for the weights
                    for x in ast.walk(s.target):
                        if isinstance(x, ast.Name):
                            defs.setdefault(x.id, []).append(s.iter)

            def uses_weights(e, depth=0) -> bool:
                for x in ast.walk(e):
                    if isinstance(x, ast.Name):
                        if x.id in wnames:
                            return True
                        if depth < 4 and any(uses_weights(d, depth + 1) for d in defs.get(x.id, [])):
                            return True
                return False

            def is_length(e, depth=0) -> bool:
                """computed from the loop pair only, with a subtraction"""
                names = {x.id for x in ast.walk(e) if isinstance(x, ast.Name)}
                if not names:
                    return False
                if names <= {a_, b_}:
                    return any(isinstance(x, ast.BinOp) and isinstance(x.op, ast.Sub) for x in ast.walk(e))
                if isinstance(e, ast.Name) and depth < 3:
                    return any(is_length(d, depth + 1) for d in defs.get(e.id, []))
                return False

            AGG = ("sum", "np.sum", "np.dot", "np.array", "tuple", "list", "map", "zip", "np.prod", "np.tensordot", "enumerate", "math.fsum", "np.multiply", "np.inner")

            def has_factor(e, depth=0) -> bool:
                """the span length enters e as a multiplicative factor (through arithmetic, aggregating calls and locals of the
                loop body) — NOT through the argument of an evaluated function: nodes mapped into the span do not count"""
                if depth > 6:
                    return False
                if isinstance(e, ast.BinOp):
                    if isinstance(e.op, ast.Mult):
                        return is_length(e.left) or is_length(e.right) or has_factor(e.left, depth + 1) or has_factor(e.right, depth + 1)
                    if isinstance(e.op, (ast.Add, ast.Sub)):
                        return has_factor(e.left, depth + 1) or has_factor(e.right, depth + 1)
                    if isinstance(e.op, ast.Div):
                        return has_factor(e.left, depth + 1)
                    return False
                if isinstance(e, ast.UnaryOp):
                    return has_factor(e.operand, depth + 1)
                if isinstance(e, ast.Name):
                    if e.id in (a_, b_):
                        return False
                    return any(has_factor(d, depth + 1) for d in defs.get(e.id, []))
                if isinstance(e, ast.Subscript):
                    return has_factor(e.value, depth + 1)
                if isinstance(e, (ast.GeneratorExp, ast.ListComp)):
                    return has_factor(e.elt, depth + 1)
                if isinstance(e, (ast.Tuple, ast.List)):
                    return any(has_factor(x, depth + 1) for x in e.elts)
                if isinstance(e, ast.Call) and seg(e.func) in AGG:
                    return any(has_factor(a, depth + 1) for a in e.args)
                return False

            accs = []
            for s in ast.walk(lp):
                if isinstance(s, ast.AugAssign) and isinstance(s.op, ast.Add):
                    accs.append((s, s.value))
                elif isinstance(s, ast.Expr) and isinstance(s.value, ast.Call) and isinstance(s.value.func, ast.Attribute) and s.value.func.attr == "append" and s.value.args:
                    accs.append((s, s.value.args[0]))
            accs = [(s, v) for s, v in accs if uses_weights(v)]
            if not accs:
                continue
            total += 1
            bad = [s for s, v in accs if not has_factor(v)]
            chk.ob(rule, f"{q}: span sums of the loop at line {lp.lineno} are multiplied by the span length `{b_} - {a_}`", not bad, loc=r.loc(ctx, bad[0] if bad else lp),
                   detail="" if not bad else f"{q}: `{seg(bad[0], 60)}` (and {len(bad) - 1} more) add reference-interval quadrature sums of the span [{a_}, {b_}] without the factor `{b_} - {a_}`: every span counts the same whatever its length, so for non-uniform knots the accumulated matrices are not the L2 inner products (the residual of the fit is not L2-orthogonal to the target space) and the error is not the integral of the squared residual",
                   func=q, construct="span quadrature without the span length")
    chk.floor(rule, "span-by-span quadrature loops", total, len(quals))


# ------------------------------------------------------------------------------------------------
# ZIP-ALIGN: two parallel sequences are zipped with the same slice
def zip_align(r: R, chk, entries: List[str], rule="ZIP-ALIGN"):
    """B is *parallel* to A when it is created with len(A) slots and filled by `for i, x in enumerate(A): B[i] = …`, or is a
    comprehension over A (B[i] describes A[i]).  `zip(A[s], B[t])` with different slices s, t pairs A[s0+k] with the description
    of another element: every element gets its neighbour's attribute (and the tail is silently dropped)."""
    from .divisions import reachable_functions

    n = 0
    for q in reachable_functions(r, entries):
        fi = r.prog.func(q)
        parallel = {}  # B -> A
        for s in ast.walk(fi.node):
            if isinstance(s, ast.Assign) and len(s.targets) == 1 and isinstance(s.targets[0], ast.Name):
                v = s.value
                if isinstance(v, (ast.ListComp, ast.GeneratorExp)) and len(v.generators) == 1 and isinstance(v.generators[0].iter, ast.Name) and not v.generators[0].ifs:
                    parallel[s.targets[0].id] = v.generators[0].iter.id
                if isinstance(v, ast.Call) and seg(v.func) in ("tuple", "list") and v.args and isinstance(v.args[0], (ast.ListComp, ast.GeneratorExp)) and len(v.args[0].generators) == 1 and isinstance(v.args[0].generators[0].iter, ast.Name) and not v.args[0].generators[0].ifs:
                    parallel[s.targets[0].id] = v.args[0].generators[0].iter.id
            if isinstance(s, ast.For) and isinstance(s.iter, ast.Call) and seg(s.iter.func) == "enumerate" and s.iter.args and isinstance(s.iter.args[0], ast.Name) and isinstance(s.target, ast.Tuple) and len(s.target.elts) == 2 and isinstance(s.target.elts[0], ast.Name):
                idx = s.target.elts[0].id
                for st in ast.walk(s):
                    if isinstance(st, ast.Assign) and len(st.targets) == 1 and isinstance(st.targets[0], ast.Subscript) and isinstance(st.targets[0].value, ast.Name) and isinstance(st.targets[0].slice, ast.Name) and st.targets[0].slice.id == idx:
                        parallel[st.targets[0].value.id] = s.iter.args[0].id
        if not parallel:
            continue
        ctx = r.A.roots.get(q)
        for c in ast.walk(fi.node):
            if not (isinstance(c, ast.Call) and seg(c.func) == "zip" and len(c.args) >= 2):
                continue

            def base_slice(e):
                if isinstance(e, ast.Name):
                    return e.id, ""
                if isinstance(e, ast.Subscript) and isinstance(e.value, ast.Name) and isinstance(e.slice, ast.Slice):
                    return e.value.id, seg(e.slice)
                return None, None

            parts = [base_slice(a) for a in c.args]
            for i in range(len(parts)):
                for j in range(len(parts)):
                    (a, sa), (b, sb) = parts[i], parts[j]
                    if a is None or b is None or parallel.get(b) != a:
                        continue
                    n += 1
                    ok = sa == sb
                    chk.ob(rule, f"{q}: `{seg(c, 50)}` zips `{a}` and its parallel list `{b}` with the same slice", ok, loc=f"{fi.module}.py:{c.lineno}",
                           detail="" if ok else f"{q}: `{b}[i]` describes `{a}[i]` (filled index by index over `{a}`), but `{seg(c, 60)}` takes `{a}[{sa}]` with `{b}[{sb}]`: every element is paired with the entry of a neighbour (here each interior knot gets the continuity class of the knot on its left) and the last entries are dropped",
                           func=q, construct=f"parallel lists zipped with different slices: {a}[{sa}] / {b}[{sb}]")
    chk.note(f"{rule}: {n} zip(s) of a sequence with a list built in parallel to it examined")
    return n


# ------------------------------------------------------------------------------------------------
# ONE-NODE-FAMILY: the parameters at which given DATA is assumed to be sampled do not depend on the number type
def one_node_family(r: R, chk, qual: str, rule="ONE-NODE-FAMILY"):
    """`fit_points(points)` without nodes has to decide where the points were sampled.  That is part of the meaning of the data:
    if the family of reference nodes is selected by the number type of the knots (equally spaced for Fraction, Chebyshev for
    float) the same data gives different curves for the two representations."""
    from .c10 import NS, funcrefs

    ctx = r.root(qual)
    fi = ctx.fi
    fams = set()
    sites = []
    for c in ast.walk(fi.node):
        if isinstance(c, ast.Call):
            fr = [f for f in funcrefs(ctx, c.func) if f.startswith(NS)]
            if fr:
                fams |= set(fr)
                sites.append(c)
    chk.floor(rule, f"reference-node generators used by {qual}", len(sites), 1)
    ok = len(fams) == 1
    chk.ob(rule, f"{qual}: the default nodes come from one node family", ok, loc=r.loc(ctx, sites[0]) if sites else r.loc(ctx, fi.node),
           detail="" if ok else f"{qual}: the nodes assumed for the given points are generated by {sorted(f.split('.')[-1] for f in fams)} depending on a test of the number type: the same points fitted over Fraction knots and over the equal float knots are attributed to different parameters and give different curves (the documentation promises equally distributed nodes)",
           func=qual, construct="default nodes depend on the number type")


# ------------------------------------------------------------------------------------------------
# NO-LOSSY: an operation that promises the exact result does not pass it through a tolerance-accepting simplifier
LOSSY = ("curves.Curve.clean", "curves.Curve.knot_clean", "curves.Curve.degree_clean", "curves.Curve.knot_remove", "curves.Curve.degree_decrease")


def no_lossy(r: R, chk, entries: List[str], rule="NO-LOSSY"):
    """clean / knot_clean / degree_clean / knot_remove / degree_decrease accept any change whose squared L2 size is below an
    ABSOLUTE tolerance (1e-9 by default): a result that goes through one of them equals the exact result only up to that
    tolerance, whatever the scale of the data (u**2/100000 loses its degree)."""
    from .divisions import reachable_functions

    n = 0
    for q in reachable_functions(r, entries):
        ctx = r.A.roots.get(q)
        if ctx is None or q in LOSSY:
            continue
        for cr in ctx.calls:
            hit = [f.qual for f in cr.callees if f.qual in LOSSY]
            n += 1 if cr.callees else 0
            if hit:
                chk.ob(rule, f"{q}: `{seg(cr.node, 40)}` is not a tolerance-accepting simplifier", False, loc=r.loc(ctx, cr.node),
                       detail=f"{q}: `{seg(cr.node, 50)}` ({hit[0]}) simplifies the result with an absolute tolerance (1e-9 on the squared L2 change by default): for data of small magnitude a genuine degree / knot is removed and the returned curve is no longer the exact result (the derivative of u**2/100000 becomes the constant 1/100000)",
                       func=q, construct=f"result passed through {hit[0].split('.')[-1]}")
    chk.ob(rule, f"no call of clean / knot_clean / degree_clean / knot_remove / degree_decrease is reachable from {', '.join(entries)}", True, loc="", detail="")
    chk.note(f"{rule}: {n} resolved call sites reachable from {', '.join(entries)} examined")


# ------------------------------------------------------------------------------------------------
# ENDS-CANDIDATE: a minimum over a closed interval compares the interval ends, not only stationary points
def ends_candidate(r: R, chk, piece_fn: str, curve_fn: str, rule="ENDS-CANDIDATE"):
    """the candidate parameters among which the nearest one is selected contain both ends of every piece on every path:
    either `piece_fn` puts the two names unpacked from `.limits` into the collection it returns (initial value or an
    unconditional add / union that dominates the return), or `curve_fn` puts all knots of the curve into its candidates.
    Newton's iteration only finds stationary points of the distance (maxima included)."""

    def unconditional_members(ctx, coll: str):
        """names that are members of collection `coll` on every path to the returns (top-level statements only)"""
        out = set()
        rets = [n for n in r.stmt_nodes(ctx) if isinstance(n.ast, ast.Return)]
        for n in r.stmt_nodes(ctx):
            a = n.ast
            e = None
            if isinstance(a, ast.Assign) and len(a.targets) == 1 and isinstance(a.targets[0], ast.Name) and a.targets[0].id == coll:
                e = a.value
            elif isinstance(a, ast.AugAssign) and isinstance(a.target, ast.Name) and a.target.id == coll and isinstance(a.op, (ast.BitOr, ast.Add)):
                e = a.value
            elif isinstance(a, ast.Expr) and isinstance(a.value, ast.Call) and isinstance(a.value.func, ast.Attribute) and isinstance(a.value.func.value, ast.Name) and a.value.func.value.id == coll and a.value.func.attr in ("add", "append", "update", "extend") and a.value.args:
                e = a.value.args[0]
            if e is None or not rets or not all(ctx.cfg.dominates(n.id, R_.id) for R_ in rets):
                continue
            while isinstance(e, ast.Call) and seg(e.func) in ("set", "list", "tuple", "sorted") and e.args:
                e = e.args[0]
            if isinstance(e, (ast.Set, ast.List, ast.Tuple)):
                out |= {x.id for x in e.elts if isinstance(x, ast.Name)}
                out |= {seg(x) for x in e.elts}
            elif isinstance(e, ast.Name):
                out.add(e.id)
                # a sample `np.linspace(lo, hi, n)` contains both of its ends
                for a2 in ast.walk(ctx.fi.node):
                    if isinstance(a2, ast.Assign) and len(a2.targets) == 1 and isinstance(a2.targets[0], ast.Name) and a2.targets[0].id == e.id:
                        v2 = a2.value
                        while isinstance(v2, ast.Call) and seg(v2.func) in ("tuple", "list", "set", "sorted") and v2.args:
                            v2 = v2.args[0]
                        if isinstance(v2, ast.Call) and seg(v2.func) == "np.linspace" and len(v2.args) >= 2 and not any(k.arg == "endpoint" for k in v2.keywords):
                            out |= {seg(v2.args[0]), seg(v2.args[1])}
            else:
                out.add(seg(e))
        return out

    ctx = r.root(piece_fn)
    fi = ctx.fi
    lim = None
    for a in ast.walk(fi.node):
        if isinstance(a, ast.Assign) and isinstance(a.targets[0], ast.Tuple) and len(a.targets[0].elts) == 2 and "limits" in seg(a.value):
            lim = tuple(e.id for e in a.targets[0].elts if isinstance(e, ast.Name))
    colls = set()
    for R_ in [n for n in r.stmt_nodes(ctx) if isinstance(n.ast, ast.Return) and n.ast.value is not None]:
        e = R_.ast.value
        while isinstance(e, ast.Call) and seg(e.func) in ("tuple", "list", "sorted", "set") and e.args:
            e = e.args[0]
        if isinstance(e, ast.Name):
            colls.add(e.id)
    chk.floor(rule, f"candidate collection returned by {piece_fn}", len(colls), 1)
    ok = False
    if lim and len(lim) == 2:
        for c in colls:
            if set(lim) <= unconditional_members(ctx, c):
                ok = True
    if not ok:
        c2 = r.root(curve_fn)
        for c in {x.id for x in ast.walk(c2.fi.node) if isinstance(x, ast.Name)}:
            mem = unconditional_members(c2, c)
            if any(m.endswith(".knots") or m.endswith("knotvector.knots") for m in mem):
                ok = True
    chk.ob(rule, f"{piece_fn}: both ends of the piece are candidates on every path", ok, loc=r.loc(ctx, fi.node),
           detail="" if ok else f"{piece_fn}: the candidate set starts empty and receives `{lim[0] if lim else 'umin'}` / `{lim[1] if lim else 'umax'}` only when a Newton iterate happens to leave the interval; when every start converges to an interior stationary point (a maximum of the distance included) the ends are never compared, although the minimum over a closed interval can be at an end: parabola y = x**2 on [-1, 1] and P = (0, 10) returns u = 1/2 (distance 10, the maximum) instead of u = 0, 1 (distance 9.06)",
           func=piece_fn, construct="interval ends not among the candidates")


def candidates_only(r: R, chk, piece_fn: str, rule="CANDIDATES-ONLY"):
    """Every returned interior parameter that is not a knot has to be a stationary point of the distance.  The candidates
    among which the nearest is selected are therefore the two ends of the piece and what the Newton iteration returns — the
    start samples themselves are not candidates: one that lies within the 1e-6 distance band of the true foot would be
    returned next to it although it is not stationary."""
    ctx = r.root(piece_fn)
    fi = ctx.fi
    lim = None
    for a in ast.walk(fi.node):
        if isinstance(a, ast.Assign) and isinstance(a.targets[0], ast.Tuple) and len(a.targets[0].elts) == 2 and "limits" in seg(a.value):
            lim = tuple(e.id for e in a.targets[0].elts if isinstance(e, ast.Name))
    colls = set()
    for R_ in [n for n in r.stmt_nodes(ctx) if isinstance(n.ast, ast.Return) and n.ast.value is not None]:
        e = R_.ast.value
        while isinstance(e, ast.Call) and seg(e.func) in ("tuple", "list", "sorted", "set") and e.args:
            e = e.args[0]
        if isinstance(e, ast.Name):
            colls.add(e.id)
    chk.floor(rule, f"candidate collection returned by {piece_fn}", len(colls), 1)
    n = 0
    for c in sorted(colls):
        firsts = [a for a in ast.walk(fi.node) if isinstance(a, ast.Assign) and len(a.targets) == 1 and isinstance(a.targets[0], ast.Name) and a.targets[0].id == c]
        if not firsts:
            continue
        first = min(firsts, key=lambda a: a.lineno)
        n += 1
        v = first.value
        while isinstance(v, ast.Call) and seg(v.func) in ("set", "list", "tuple") and len(v.args) <= 1:
            if not v.args:
                v = ast.Tuple(elts=[], ctx=ast.Load())
                break
            v = v.args[0]
        ok = isinstance(v, (ast.Set, ast.List, ast.Tuple)) and all(isinstance(x, ast.Name) and lim and x.id in lim for x in v.elts)
        chk.ob(rule, f"{piece_fn}: the candidates `{c}` start from the ends of the piece only", ok, loc=r.loc(ctx, first),
               detail="" if ok else f"{piece_fn}: the candidate collection starts as `{seg(first.value, 40)}`: parameters that are neither an end of the piece nor the outcome of the Newton iteration (the start samples) are candidates — a sample within the 1e-6 distance band of the true foot is returned although it is not a stationary point of the distance, and for a polyline the answer is no longer exact",
               func=piece_fn, construct="start samples among the candidates")
    chk.floor(rule, "initial values of candidate collections", n, 1)
    return n


# ------------------------------------------------------------------------------------------------
# PROBE-OPERAND: "number or sequence?" is asked of the operand alone, not of the outcome of the real operation
def probe_operand(r: R, chk, quals: List[str], rule="PROBE-OPERAND"):
    """`try: <operation on self with other> except TypeError: <other operation>` decides the kind of `other` by whether
    arithmetic between the knots and `other` raises TypeError.  numpy scalars do not raise for `np.float64 + [x]` (they
    broadcast), so with numpy-float64 knots the first operation proceeds with garbage and fails with another exception.
    Obligation: the try body of every TypeError probe in `quals` calls no method of the receiver."""
    n = 0
    for q in quals:
        ctx = r.root(q)
        fi = ctx.fi
        for t in [x for x in ast.walk(fi.node) if isinstance(x, ast.Try)]:
            from ..cfg import handler_types

            if not any("TypeError" in handler_types(h) for h in t.handlers):
                continue
            n += 1
            inner = {id(x) for s_ in t.body for x in ast.walk(s_)}
            bad = []
            for cr in ctx.calls:
                if id(cr.node) in inner and cr.callees and cr.recv is not None and any(root_of(o) == 0 for o in cr.recv.pts) and not any(f.kind == "getter" for f in cr.callees):
                    bad.append(cr)
            ok = not bad
            chk.ob(rule, f"{q}: the TypeError probe at line {t.lineno} asks the operand, not the outcome of an operation on the receiver", ok, loc=r.loc(ctx, t),
                   detail="" if ok else f"{q}: `{seg(bad[0].node, 40)}` inside `try … except TypeError` is the real operation used as a type test: whether `other` is a number or a sequence is decided by `knot + other` raising TypeError, which numpy scalars do not do (np.float64(0.25) + [0.5] broadcasts) — with numpy-float64 knots a legal insertion / elevation ends in `ValueError: Invalid knot vector`; probe `float(other)` / `iter(other)` first",
                   func=q, construct="operation on the receiver used as a type probe")
    chk.note(f"{rule}: {n} TypeError probe(s) examined in {', '.join(quals)}")


# ------------------------------------------------------------------------------------------------
# PIECEWISE-EVAL: a span-by-span quadrature that offers a closed rule evaluates each span's own piece
def piecewise_eval(r: R, chk, quals: List[str], rule="PIECEWISE-EVAL"):
    """`curve.eval` is right-continuous: at the right end of a span it returns the value of the NEXT span.  A function whose
    method registry contains a node family with the span ends (closed Newton-Cotes) therefore may not evaluate the whole curve
    inside its span loop; it has to evaluate the piece of that span (a loop-local curve obtained from split()), whose own right
    end is the left limit."""
    from .c10 import CLOSED_NODES, funcrefs

    n = offering = 0
    for q in quals:
        ctx = r.root(q)
        fi = ctx.fi
        offers_closed = any(f in CLOSED_NODES for d in ast.walk(fi.node) if isinstance(d, ast.Dict) for v in d.values for e in (v.elts if isinstance(v, ast.Tuple) else [v]) for f in funcrefs(ctx, e))
        if not offers_closed:
            chk.note(f"{rule}: {q} offers no closed node family: evaluating at span ends cannot happen, nothing to decide")
            continue
        offering += 1
        for lp in [x for x in ast.walk(fi.node) if isinstance(x, ast.For)]:
            inner = {id(x) for st in lp.body for x in ast.walk(st)}
            local = {x.id for x in ast.walk(lp.target) if isinstance(x, ast.Name)}
            for cr in ctx.calls:
                if id(cr.node) not in inner or not any(f.qual in ("curves.Curve.eval", "curves.BaseCurve.__call__") for f in cr.callees):
                    continue
                node = cr.node
                recv = node.func.value if isinstance(node, ast.Call) and isinstance(node.func, ast.Attribute) else (node.func if isinstance(node, ast.Call) else None)
                n += 1
                ok = isinstance(recv, ast.Name) and recv.id in local
                chk.ob(rule, f"{q}: `{seg(node, 40)}` inside the span loop evaluates the loop's own piece", ok, loc=r.loc(ctx, node),
                       detail="" if ok else f"{q}: `{seg(node, 40)}` evaluates the whole curve inside the span loop although the method registry offers closed Newton-Cotes nodes: the node at the right end of a span reads the next span, so with method='closed-newton-cotes' the integral of a degree-0 curve / of a curve with an interior knot of multiplicity p+1 / the length of a polyline is wrong (step [0,1] on [0,1,2]: 3/2 instead of 1)",
                       func=q, construct="whole curve evaluated at span ends")
    chk.floor(rule, "curve evaluations inside span loops of the functions that offer a closed node family", n, offering)


# ------------------------------------------------------------------------------------------------
# PRECOND-LB: a count the library itself chooses satisfies the lower bound the callee asserts
def _assert_lower_bounds(fi):
    """{param: smallest admissible int} from top-level `assert param > c` / `>= c` / `c < param` / `c <= param`"""
    out = {}
    for st in fi.node.body:
        if isinstance(st, ast.Assert) and isinstance(st.test, ast.Compare) and len(st.test.ops) == 1:
            l, op, rr = st.test.left, st.test.ops[0], st.test.comparators[0]
            if isinstance(l, ast.Name) and isinstance(rr, ast.Constant) and isinstance(rr.value, int) and l.id in fi.params:
                if isinstance(op, ast.Gt):
                    out[l.id] = max(out.get(l.id, -10**9), rr.value + 1)
                elif isinstance(op, ast.GtE):
                    out[l.id] = max(out.get(l.id, -10**9), rr.value)
            if isinstance(rr, ast.Name) and isinstance(l, ast.Constant) and isinstance(l.value, int) and rr.id in fi.params:
                if isinstance(op, ast.Lt):
                    out[rr.id] = max(out.get(rr.id, -10**9), l.value + 1)
                elif isinstance(op, ast.LtE):
                    out[rr.id] = max(out.get(rr.id, -10**9), l.value)
    return out


def precond_lb(r: R, chk, quals: List[str], rule="PRECOND-LB"):
    """callees: functions of heavy.NodeSample / heavy.IntegratorArray with an asserted lower bound on their size parameter.
    For every call in `quals` that can reach one of them (directly or through a registry of function references) the argument's
    lower bound is computed by a small interval evaluation (constants, len() >= 0 or what a dominating assert / test says,
    .degree >= 0, .npts >= 1, +, max); a value handed in by the caller is the caller's responsibility, a value the function
    chooses itself (a default under `if x is None`) has to satisfy the strongest bound among the possible callees."""
    from .c10 import IA, NS, funcrefs

    n = 0
    for q in quals:
        ctx = r.root(q)
        fi = ctx.fi
        defs = {}
        for a in ast.walk(fi.node):
            if isinstance(a, ast.Assign) and len(a.targets) == 1 and isinstance(a.targets[0], ast.Name):
                defs.setdefault(a.targets[0].id, []).append(a.value)
        # a definition under a test of a name against a string (`if method == "..."`) holds for one callee only: not folded here (SIZE-DEFAULT does)
        keyed = set()
        for i_ in ast.walk(fi.node):
            if isinstance(i_, ast.If) and any(isinstance(c_, ast.Constant) and isinstance(c_.value, str) for c_ in ast.walk(i_.test)):
                for a in ast.walk(i_):
                    if isinstance(a, ast.Assign) and len(a.targets) == 1 and isinstance(a.targets[0], ast.Name):
                        keyed.add(a.targets[0].id)
        facts = []  # (expr text, lower bound expr) from asserts `len(x) >= e`
        for a in ast.walk(fi.node):
            t = a.test if isinstance(a, ast.Assert) else None
            if isinstance(t, ast.Compare) and len(t.ops) == 1 and isinstance(t.ops[0], (ast.GtE, ast.Gt)):
                facts.append((seg(t.left), t.comparators[0], isinstance(t.ops[0], ast.Gt)))

        def lb(e, depth=0):
            if depth > 6:
                return None
            if isinstance(e, ast.Constant) and isinstance(e.value, int) and not isinstance(e.value, bool):
                return e.value
            for txt, low, strict in facts:
                if seg(e) == txt:
                    b = lb(low, depth + 1)
                    if b is not None:
                        return b + (1 if strict else 0)
            if isinstance(e, ast.Call) and seg(e.func) == "len":
                return 0
            if isinstance(e, ast.Call) and seg(e.func) == "max" and e.args:
                bs = [lb(a, depth + 1) for a in e.args]
                bs = [b for b in bs if b is not None]
                return max(bs) if bs else None
            if isinstance(e, ast.Call) and seg(e.func) == "min" and e.args:
                bs = [lb(a, depth + 1) for a in e.args]
                return None if any(b is None for b in bs) else min(bs)
            if isinstance(e, ast.Attribute) and e.attr == "degree":
                return 0
            if isinstance(e, ast.Attribute) and e.attr == "npts":
                return 1
            if isinstance(e, ast.BinOp) and isinstance(e.op, ast.Add):
                a, b = lb(e.left, depth + 1), lb(e.right, depth + 1)
                return None if a is None or b is None else a + b
            if isinstance(e, ast.BinOp) and isinstance(e.op, ast.Mult):
                a, b = lb(e.left, depth + 1), lb(e.right, depth + 1)
                return None if a is None or b is None or a < 0 or b < 0 else a * b
            if isinstance(e, ast.Name):
                ds = defs.get(e.id, [])
                if e.id in ("olddegree", "newdegree", "degree"):
                    return 0
                if not ds or e.id in keyed:
                    return None  # handed in by the caller / chosen per method
                bs = [lb(d, depth + 1) for d in ds]
                bs = [b for b in bs if b is not None]
                return min(bs) if bs else None
            return None

        for c in ast.walk(fi.node):
            if not (isinstance(c, ast.Call) and c.args):
                continue
            cands = [f for f in funcrefs(ctx, c.func) if f.startswith(NS) or f.startswith(IA)]
            if not cands:
                continue
            need = None
            worst = None
            for f in cands:
                cf = r.prog.funcs.get(f)
                if cf is None:
                    continue
                lbs = _assert_lower_bounds(cf)
                pname = next((p for p in cf.params if p not in ("self", "cls")), None)
                if pname in lbs and (need is None or lbs[pname] > need):
                    need, worst = lbs[pname], f
            if need is None:
                continue
            have = lb(c.args[0])
            if have is None:
                continue
            n += 1
            ok = have >= need
            chk.ob(rule, f"{q}: `{seg(c, 40)}` is called with at least {need}", ok, loc=r.loc(ctx, c),
                   detail="" if ok else f"{q}: `{seg(c, 50)}` can reach {worst}, which asserts a size >= {need}, with `{seg(c.args[0], 30)}` that the function chooses itself and that can be as small as {have}: an AssertionError instead of a result (one point / a degree-0 curve with the closed rule)",
                   func=q, construct=f"size {seg(c.args[0], 30)} may be below {need}")
    chk.note(f"{rule}: {n} call(s) with a library-chosen size examined in {', '.join(quals)}")
    return n


# ------------------------------------------------------------------------------------------------
# KV-CONSISTENT: a direct rebinding of a curve's knot vector leaves no stale control points / weights behind
def kv_consistent(r: R, chk, quals: List[str], rule="KV-CONSISTENT"):
    """a store to the private knot-vector field changes npts.  For each of ctrlpoints / weights, at that store either the path
    established `self.<field> is None`, or the same function stores the field afterwards (same commit), or the store is the
    constructor's.  Otherwise len(<field>) != npts afterwards."""
    from .c08 import path_facts

    n = 0
    for q in quals:
        ctx = r.root(q)
        fi = ctx.fi
        if fi.name == "__init__":
            continue
        stores = [x for x in r.stmt_nodes(ctx) if isinstance(x.ast, ast.Assign) and any(isinstance(t, ast.Attribute) and mangle_like(fi, t.attr) == CURVE_FIELDS[0] and isinstance(t.value, ast.Name) and t.value.id == "self" for t in x.ast.targets)]
        for st in stores:
            facts = path_facts(ctx, st.id)
            after = ctx.cfg.reachable_from_succ(st.id, exc=False)
            for fld, nice in ((CURVE_FIELDS[1], "ctrlpoints"), (CURVE_FIELDS[2], "weights")):
                n += 1
                is_none = (f"self.{nice} is None", True) in facts
                later = False
                for x in after:
                    a = ctx.cfg.nodes[x].ast
                    if isinstance(a, ast.Assign) and any(isinstance(t, ast.Attribute) and t.attr in (nice, "_BaseCurve__" + nice, "__" + nice) and isinstance(t.value, ast.Name) and t.value.id == "self" for t in a.targets):
                        later = True
                ok = is_none or later
                chk.ob(rule, f"{q}: `{seg(st.ast, 40)}` leaves {nice} consistent (None on this path, or stored afterwards)", ok, loc=r.loc(ctx, st.ast),
                       detail="" if ok else f"{q}: the knot vector is rebound at {r.loc(ctx, st.ast)} on a path that neither established `self.{nice} is None` nor stores new {nice} afterwards: a curve that has {nice} keeps the old list, so len({nice}) != npts (Curve([0,0,1,1], weights=[1,2]).knotvector = [0,0,1/2,1,1] leaves 2 weights for npts 3)",
                       func=q, construct=f"knot vector rebound with stale {nice}")
    chk.floor(rule, "direct stores of the knot vector", n, 2)


def mangle_like(fi, attr: str) -> str:
    from ..index import mangle

    return mangle(fi.clsname, attr)


def edges_establishing(ctx, fact):
    """edges (test node id, label) after which the normalised fact (text, polarity) holds: the conjuncts of a true `and` /
    the disjuncts of a false `or` / the test itself"""
    from .c08 import norm_fact
    from .common import local_aliases, unalias

    al = local_aliases(ctx.fi.node)
    out = set()
    for t in ctx.cfg.nodes:
        if t.kind != "test":
            continue
        for lab, pol in (("t", True), ("f", False)):
            c = unalias(t.ast, al)
            parts = [c]
            if isinstance(c, ast.BoolOp) and ((isinstance(c.op, ast.And) and pol) or (isinstance(c.op, ast.Or) and not pol)):
                parts = c.values
            elif isinstance(c, ast.BoolOp):
                parts = []
            for p_ in parts:
                pp, q = p_, pol
                while isinstance(pp, ast.UnaryOp) and isinstance(pp.op, ast.Not):
                    pp, q = pp.operand, not q
                if norm_fact(pp, q) == fact:
                    out.add((t.id, lab))
    return out


# ------------------------------------------------------------------------------------------------
# SIZE-DEFAULT: the number of nodes the integrators choose themselves is admissible and of sufficient order, method by method
class _Unknown:
    def __repr__(self):
        return "?"


UNK = _Unknown()


def _ev(e, env, degree):
    """constant folding of an integer / string expression; UNK when it cannot be folded"""
    if isinstance(e, ast.Constant):
        return e.value
    if isinstance(e, ast.Name):
        return env.get(e.id, UNK)
    if isinstance(e, ast.Attribute) and "." + e.attr in env:
        return env["." + e.attr]
    if isinstance(e, ast.Attribute) and e.attr == "degree":
        return degree
    if isinstance(e, ast.Compare) and len(e.ops) > 1:
        # a < b <= c : the conjunction of the links
        vals = []
        left = e.left
        for op, right in zip(e.ops, e.comparators):
            vals.append(_ev(ast.Compare(left=left, ops=[op], comparators=[right]), env, degree))
            left = right
        if any(v is not UNK and not v for v in vals):
            return False
        return UNK if any(v is UNK for v in vals) else True
    if isinstance(e, ast.BinOp):
        a, b = _ev(e.left, env, degree), _ev(e.right, env, degree)
        if a is UNK or b is UNK or not isinstance(a, int) or not isinstance(b, int):
            return UNK
        try:
            if isinstance(e.op, ast.Add):
                return a + b
            if isinstance(e.op, ast.Sub):
                return a - b
            if isinstance(e.op, ast.Mult):
                return a * b
            if isinstance(e.op, ast.FloorDiv):
                return a // b
            if isinstance(e.op, ast.Mod):
                return a % b
        except ZeroDivisionError:
            return UNK
        return UNK
    if isinstance(e, ast.UnaryOp):
        a = _ev(e.operand, env, degree)
        if a is UNK:
            return UNK
        if isinstance(e.op, ast.Not):
            return not a
        if isinstance(e.op, ast.USub) and isinstance(a, int):
            return -a
        return UNK
    if isinstance(e, ast.Call) and isinstance(e.func, ast.Name) and e.func.id == "isinstance" and len(e.args) == 2:
        x = _ev(e.args[0], env, degree)
        types = [t.id for t in (e.args[1].elts if isinstance(e.args[1], ast.Tuple) else [e.args[1]]) if isinstance(t, ast.Name)]
        if x is UNK or not types:
            return UNK
        if isinstance(x, bool):
            return "bool" in types or "int" in types
        if isinstance(x, int):
            return "int" in types
        if x is None or isinstance(x, str):
            return (type(x).__name__ in types) if isinstance(x, str) else False
        return UNK
    if isinstance(e, ast.Call) and isinstance(e.func, ast.Name) and e.func.id == "len" and len(e.args) == 1 and not e.keywords:
        x = _ev(e.args[0], env, degree)
        return len(x) if isinstance(x, (tuple, str)) else UNK
    if isinstance(e, ast.Call) and isinstance(e.func, ast.Name) and e.func.id in ("max", "min", "int") and e.args and not e.keywords:
        vs = [_ev(a, env, degree) for a in e.args]
        if any(v is UNK or not isinstance(v, int) for v in vs):
            return UNK
        return max(vs) if e.func.id == "max" else min(vs) if e.func.id == "min" else vs[0]
    if isinstance(e, ast.IfExp):
        t = _ev(e.test, env, degree)
        if t is UNK:
            a, b = _ev(e.body, env, degree), _ev(e.orelse, env, degree)
            return a if a is not UNK and a == b else UNK
        return _ev(e.body if t else e.orelse, env, degree)
    if isinstance(e, ast.Compare) and len(e.ops) == 1:
        a, b = _ev(e.left, env, degree), _ev(e.comparators[0], env, degree)
        if a is UNK or b is UNK:
            return UNK
        op = e.ops[0]
        try:
            if isinstance(op, (ast.Eq, ast.Is)):
                return a == b if isinstance(op, ast.Eq) else (a is b or (a is None) == (b is None) and a == b)
            if isinstance(op, (ast.NotEq, ast.IsNot)):
                return a != b
            if isinstance(op, ast.Lt):
                return a < b
            if isinstance(op, ast.LtE):
                return a <= b
            if isinstance(op, ast.Gt):
                return a > b
            if isinstance(op, ast.GtE):
                return a >= b
            if isinstance(op, ast.In):
                return a in b
            if isinstance(op, ast.NotIn):
                return a not in b
        except TypeError:
            return UNK
        return UNK
    if isinstance(e, ast.BoolOp):
        vs = [_ev(v, env, degree) for v in e.values]
        if isinstance(e.op, ast.And):
            if any(v is not UNK and not v for v in vs):
                return False
            return UNK if any(v is UNK for v in vs) else True
        if any(v is not UNK and v for v in vs):
            return True
        return UNK if any(v is UNK for v in vs) else False
    if isinstance(e, (ast.Tuple, ast.List)):
        vs = [_ev(v, env, degree) for v in e.elts]
        return UNK if any(v is UNK for v in vs) else tuple(vs)
    return UNK


def _run_block(stmts, env, degree, stop):
    """fold the assignments of a statement list into env, in order; True once the statement `stop` has been reached"""
    for st in stmts:
        if st is stop:
            return True
        if isinstance(st, ast.Assign):
            v = _ev(st.value, env, degree)
            for t in st.targets:
                for nm in ast.walk(t):
                    if isinstance(nm, ast.Name):
                        env[nm.id] = v if isinstance(t, ast.Name) else UNK
        elif isinstance(st, ast.AnnAssign) and isinstance(st.target, ast.Name):
            env[st.target.id] = _ev(st.value, env, degree) if st.value is not None else UNK
        elif isinstance(st, ast.AugAssign) and isinstance(st.target, ast.Name):
            env[st.target.id] = _ev(ast.BinOp(left=ast.Name(id=st.target.id, ctx=ast.Load()), op=st.op, right=st.value), env, degree)
        elif isinstance(st, ast.If):
            t = _ev(st.test, env, degree)
            if t is UNK:
                e1, e2 = dict(env), dict(env)
                r1 = _run_block(st.body, e1, degree, stop)
                r2 = _run_block(st.orelse, e2, degree, stop)
                for k in set(e1) | set(e2):
                    a, b = e1.get(k, UNK), e2.get(k, UNK)
                    env[k] = a if (a is not UNK and b is not UNK and type(a) is type(b) and a == b) else UNK
                if r1 or r2:
                    return True
            elif _run_block(st.body if t else st.orelse, env, degree, stop):
                return True
        else:
            for a in ast.walk(st):
                if isinstance(a, ast.Name) and isinstance(a.ctx, ast.Store):
                    env[a.id] = UNK
                if isinstance(a, (ast.FunctionDef, ast.ClassDef)):
                    env[a.name] = UNK
            if any(x is stop for x in ast.walk(st)):
                for k in list(env):
                    env[k] = UNK  # the call sits in a loop / handler: nothing is folded
                return True
    return False


ORDER_OF = {"gauss_legendre": lambda n: 2 * n}  # every other rule of the library: order n (C10 statement)


def size_default(r: R, chk, quals: List[str], exact: List[str], rule="SIZE-DEFAULT", max_degree: int = 32):
    """For every integrator that looks its rule up in a registry {method name: NodeSample function} and chooses `nnodes` itself
    when the caller passes None: the statements before the node call are constant-folded for each registry key K and each degree
    p = 0..max_degree (method = K, nnodes = None); the size n that reaches the call must satisfy the lower bound the callee
    asserts, and — for the integrators in `exact`, whose integrand is the degree-p polynomial piece — order(K, n) >= p + 1."""
    from .c10 import NS, funcrefs

    ndec = 0
    for q in quals:
        ctx = r.root(q)
        fi = ctx.fi
        from .c10 import node_registry

        reg = node_registry(ctx, fi)
        if reg is None:
            continue
        # the call `f(size)` whose callee comes from the registry
        call = None
        for st in ast.walk(fi.node):
            if isinstance(st, ast.stmt):
                for c in ast.walk(st):
                    if isinstance(c, ast.Call) and len(c.args) == 1 and set(funcrefs(ctx, c.func)) & set(reg[1].values()) and not isinstance(st, (ast.If, ast.For, ast.While, ast.FunctionDef)):
                        call = call or (st, c)
        if call is None:
            continue
        stop, c = call
        size_param = next((p for p in fi.params if isinstance(c.args[0], ast.Name) and p == c.args[0].id), None)
        mparam = next((p for p in fi.params if p == "method"), None)
        if mparam is None:
            continue
        for K, callee in sorted(reg[1].items()):
            cf = r.prog.funcs.get(callee)
            lbs = _assert_lower_bounds(cf) if cf is not None else {}
            pname = next((p for p in cf.params if p not in ("self", "cls")), None) if cf is not None else None
            need = lbs.get(pname)
            order = ORDER_OF.get(callee.split(".")[-1], lambda n: n)
            bad_lb = bad_ord = None
            undec = False
            for p in range(max_degree + 1):
                env = {a: UNK for a in fi.params}
                # "the caller passes None": every optional parameter whose default is None (the size may reach the call under
                # another name after a helper was inlined)
                args_ = fi.node.args
                for a_, d_ in zip(args_.args[len(args_.args) - len(args_.defaults):], args_.defaults):
                    if isinstance(d_, ast.Constant) and d_.value is None and "node" in a_.arg.lower():
                        env[a_.arg] = None
                env[mparam] = K
                if size_param:
                    env[size_param] = None
                reached = _run_block(fi.node.body, env, p, stop)
                n = _ev(c.args[0], env, p) if reached else UNK
                if n is UNK or not isinstance(n, int):
                    undec = True
                    break
                if need is not None and n < need and bad_lb is None:
                    bad_lb = (p, n)
                if q in exact and order(n) < p + 1 and bad_ord is None:
                    bad_ord = (p, n)
            if undec:
                chk.note(f"{rule}: {q}: the default size for method {K!r} could not be folded to an integer: not decided")
                continue
            ndec += 1
            if need is not None:
                chk.ob("PRECOND-LB", f"{q}: method {K!r}: the default size satisfies the bound {callee.split('.')[-1]} asserts (>= {need}) for every degree 0..{max_degree}", bad_lb is None, loc=r.loc(ctx, c),
                       detail="" if bad_lb is None else f"{q}: with method {K!r} and no `{size_param}`, a curve of degree {bad_lb[0]} reaches `{seg(c, 40)}` with {bad_lb[1]} node(s); {callee} asserts a size >= {need}: an AssertionError instead of an integral",
                       func=q, construct=f"default size for {K} below {need}")
            if q in exact:
                chk.ob(rule, f"{q}: method {K!r}: the default size gives a rule of order >= degree + 1 for every degree 0..{max_degree}", bad_ord is None, loc=r.loc(ctx, c),
                       detail="" if bad_ord is None else f"{q}: with method {K!r} and no `{size_param}`, a curve of degree {bad_ord[0]} is integrated with {bad_ord[1]} node(s): that rule is exact only for polynomials of degree < {order(bad_ord[1])}, so the integral of a polynomial spline is not the exact value sum_i P_i (u_(i+p+1) - u_i)/(p+1)",
                       func=q, construct=f"default size for {K} of insufficient order")
    return ndec


# ------------------------------------------------------------------------------------------------
# SEARCH-ALL: a search loop with a conditional body can go on to the next candidate
def search_all(r: R, chk, entries: List[str], rule="SEARCH-ALL", floor: int = 1):
    """every `for` loop (on the functions reachable from the entries) whose body tests something has a path from its body back
    to its header: a loop that leaves through break / return on every path looks at the first candidate only — a pivot search that
    stops at the first row, a scan that stops at the first element.  Loops whose body is unconditional (`for x in it: first = x; break`)
    are a deliberate take-the-first and are not examined."""
    from .divisions import reachable_functions

    n = 0
    for q in reachable_functions(r, entries):
        ctx = r.A.roots.get(q)
        if ctx is None:
            continue
        cfg = ctx.cfg
        live = cfg.live_nodes()
        for h in cfg.nodes:
            if h.kind != "for" or h.id not in live or not isinstance(h.ast, ast.For):
                continue
            if not any(isinstance(x, (ast.If, ast.IfExp, ast.While, ast.Try)) for st in h.ast.body for x in ast.walk(st)):
                continue
            n += 1
            inside = {id(x) for st in h.ast.body for x in ast.walk(st)}
            again = any(p in live and id(cfg.nodes[p].ast) in inside for p in cfg.preds(h.id, exc=False))
            chk.ob(rule, f"{q}: the loop `for {seg(h.ast.target, 20)} in {seg(h.ast.iter, 30)}` can reach its next element", again, loc=r.loc(ctx, h.ast),
                   detail="" if again else f"{q}: every path through the body of `for {seg(h.ast.target, 20)} in {seg(h.ast.iter, 30)}` leaves the loop (break / return): only the first element is ever examined, so a search that has to skip unsuitable candidates (a zero pivot further down, a later span) gives up after the first one",
                   func=q, construct=f"loop over {seg(h.ast.iter, 30)} never iterates twice")
    chk.floor(rule, "conditional for-loops on the path", n, floor)
    return n


# ------------------------------------------------------------------------------------------------
# DTYPE-INHERIT: an array that receives quotients does not take its dtype from the data
def dtype_inherit(r: R, chk, entries: List[str], rule="DTYPE-INHERIT"):
    """`np.zeros_like(x)` / `empty_like` / `ones_like` / `full_like` (no dtype=) and `np.array(x)` / `np.zeros(n, dtype=x.dtype)`
    give an array of the dtype of x; when x is made of the caller's data (integer knots) the array is int64 and every quotient
    stored into it is truncated without a word.  On the functions reachable from the entries, an array created that way from a
    parameter must not be the target of an element store whose value contains a true division."""
    from .divisions import reachable_functions

    n = 0
    for q in reachable_functions(r, entries):
        ctx = r.A.roots.get(q)
        if ctx is None:
            continue
        fi = ctx.fi
        arrays = {}
        for a in ast.walk(fi.node):
            if not (isinstance(a, ast.Assign) and len(a.targets) == 1 and isinstance(a.targets[0], ast.Name) and isinstance(a.value, ast.Call)):
                continue
            fn = seg(a.value.func)
            if fn.split(".")[-1] in ("zeros_like", "empty_like", "ones_like", "full_like") and a.value.args and not any(k.arg == "dtype" for k in a.value.keywords):
                if _reaching_params(fi, a.value.args[0]):
                    arrays[a.targets[0].id] = a
            elif fn.split(".")[-1] in ("zeros", "empty", "ones", "full"):
                dt = next((k.value for k in a.value.keywords if k.arg == "dtype"), None)
                if dt is not None and isinstance(dt, ast.Attribute) and dt.attr == "dtype" and _reaching_params(fi, dt.value):
                    arrays[a.targets[0].id] = a
        for name, mk in arrays.items():
            stores = [s for s in ast.walk(fi.node) if isinstance(s, (ast.Assign, ast.AugAssign)) and any(isinstance(t, ast.Subscript) and isinstance(t.value, ast.Name) and t.value.id == name for t in (s.targets if isinstance(s, ast.Assign) else [s.target]))]
            for s_ in stores:
                from .common import expand_locals

                v = expand_locals(fi, s_.value)
                if not (any(isinstance(x, ast.BinOp) and isinstance(x.op, ast.Div) for x in ast.walk(v)) or (isinstance(s_, ast.AugAssign) and isinstance(s_.op, ast.Div))):
                    continue
                n += 1
                chk.ob(rule, f"{q}: `{seg(s_, 40)}` stores a quotient into an array of a fixed floating / object dtype", False, loc=r.loc(ctx, s_),
                       detail=f"{q}: `{seg(mk, 60)}` takes the dtype of the caller's data; with integer knots it is an int64 array and `{seg(s_, 50)}` truncates every quotient that is stored into it (a derivative factor p/(u_(i+p) - u_i) of 3/2 becomes 1) without raising",
                       func=q, construct=f"quotients stored into an array of inherited dtype `{name}`")
    if not n:
        chk.ob(rule, "no array of inherited dtype receives quotients on these paths", True, loc="")
    return n


# ------------------------------------------------------------------------------------------------
# LOOP-ACCUMULATE: what a loop hands to the code after it takes every iteration into account
def _overwritten_in_loops(fn: ast.FunctionDef):
    """(loop, name, assignment) where `name` is assigned unconditionally at the top level of the body of a `for` loop without
    `break`, by a plain assignment whose right-hand side does not read `name`, is never augmented in the loop, and is read after
    the loop before being assigned again: only the value of the last iteration survives"""
    out = []
    for lp in ast.walk(fn):
        if not isinstance(lp, ast.For) or any(isinstance(x, ast.Break) for x in ast.walk(lp)):
            continue
        enclosing = [o for o in ast.walk(fn) if isinstance(o, (ast.For, ast.While)) and o is not lp and any(x is lp for x in ast.walk(o))]
        for st in lp.body:
            if not (isinstance(st, ast.Assign) and len(st.targets) == 1 and isinstance(st.targets[0], ast.Name)):
                continue
            nm = st.targets[0].id
            if any(isinstance(x, ast.Name) and x.id == nm for x in ast.walk(st.value)):
                continue
            if any(isinstance(x, ast.AugAssign) and isinstance(x.target, ast.Name) and x.target.id == nm for s2 in lp.body for x in ast.walk(s2)):
                continue
            if enclosing:
                continue  # the next round of an outer loop may be the reader: not examined
            later = sorted([x for x in ast.walk(fn) if isinstance(x, ast.Name) and x.id == nm and (x.lineno, x.col_offset) > (lp.end_lineno, lp.end_col_offset or 0)], key=lambda x: (x.lineno, x.col_offset))
            if later and isinstance(later[0].ctx, ast.Load):
                out.append((lp, nm, st))
    return out


_LOOP_CONTROL = """
def control(parts, matrix):
    error = 0
    for values in parts:
        quad = values @ matrix @ values
        error = abs(quad)
    return error
"""


def loop_accumulate(r: R, chk, quals: List[str], rule="LOOP-ACCUMULATE"):
    """on the functions that compute the error compared with the tolerance: a quantity built in a loop over components and used
    after the loop has to accumulate (`+=`, `max(old, new)`, append); a plain `x = f(component)` keeps the last component only"""
    ctl = _overwritten_in_loops(ast.parse(_LOOP_CONTROL).body[0])
    if [(nm) for _, nm, _ in ctl] != ["error"]:
        from .. import AnalysisError

        raise AnalysisError(f"{rule}: the positive control is not recognised any more: {ctl}")
    n = 0
    for q in quals:
        ctx = r.root(q)
        fi = ctx.fi
        loops = [x for x in ast.walk(fi.node) if isinstance(x, ast.For)]
        n += len(loops)
        for lp, nm, st in _overwritten_in_loops(fi.node):
            chk.ob(rule, f"{q}: `{nm}` accumulates over the loop at line {lp.lineno}", False, loc=r.loc(ctx, st),
                   detail=f"{q}: `{seg(st, 50)}` replaces `{nm}` in every round of `for {seg(lp.target, 20)} in {seg(lp.iter, 30)}` and `{nm}` is used after the loop: only the last component counts (the error of the other components never reaches the comparison with the tolerance, so a lossy result is accepted)",
                   func=q, construct=f"`{nm}` overwritten in a loop and used after it")
    chk.ob(rule, f"no quantity used after a loop is overwritten per round in {', '.join(x.split('.')[-1] for x in quals)} ({n} loops; positive control recognised)", True, loc="")
    return n


# ------------------------------------------------------------------------------------------------
# LOSSY-COMPARE: exact numbers are not compared through their float image
def lossy_compare(r: R, chk, AX, quals_prefix=None, rule="LOSSY-COMPARE"):
    """exact context: a comparison decides on `float(x)` of exact data (a Fraction, a big int) against an exact number: two values
    closer than one ulp compare equal / the wrong way round, so a node just outside [umin, umax] is judged to be inside.
    `float("inf")` and other conversions of literals are not data."""
    mods = {m_: r.prog.modules[m_].tree for m_ in r.prog.modules}

    def literal_conversion(src: str) -> bool:
        try:
            loc = src.split(": ")[0]
            mod, line = loc.rsplit(":", 1)
            tree = mods.get(mod.replace(".py", ""))
            calls = [c for c in ast.walk(tree) if isinstance(c, ast.Call) and getattr(c, "lineno", -1) == int(line) and isinstance(c.func, ast.Name) and c.func.id == "float"]
            return bool(calls) and all(c.args and isinstance(c.args[0], ast.Constant) for c in calls)
        except Exception:
            return False

    seen = set()
    n = 0
    for k, c in AX.ctxs.items():
        q = k[0]
        for node in ast.walk(c.fi.node):
            if not (isinstance(node, ast.Compare) and isinstance(node.ops[0], (ast.Lt, ast.LtE, ast.Gt, ast.GtE, ast.Eq, ast.NotEq))):
                continue
            sides = [node.left] + list(node.comparators)
            vals = [c.val(s_) for s_ in sides]
            if any(v is None for v in vals):
                continue
            n += 1
            fl = []
            for s_, v in zip(sides, vals):
                if "F" in v.all_kinds():
                    srcs = [str(x) for x in v.all_fsrc() if "float(" in str(x) and not literal_conversion(str(x))]
                    if srcs:
                        fl.append((s_, srcs[0]))
            ex = [s_ for s_, v in zip(sides, vals) if (v.all_kinds() - {"N"}) and (v.all_kinds() - {"N"}) <= {"I", "Z", "Q"}]
            if not (fl and ex) or (q, node.lineno) in seen:
                continue
            seen.add((q, node.lineno))
            chk.ob(rule, f"{q}: `{seg(node, 40)}` compares exact numbers", False, loc=f"{c.fi.module}.py:{node.lineno}",
                   detail=f"{q}: in `{seg(node, 50)}` the operand `{seg(fl[0][0], 20)}` is the float image of exact data ({fl[0][1]}) and is compared with the exact `{seg(ex[0], 20)}`: a Fraction / big integer closer to it than one float ulp compares equal, so a node just outside the interval is judged valid (and span / mult answer instead of raising ValueError)",
                   func=q, construct=f"float image compared with exact number: {seg(node, 40)}")
    if not seen:
        chk.ob(rule, f"no comparison of a float image of exact data with an exact number ({n} comparisons in the exact context)", True, loc="")
    return n


# ------------------------------------------------------------------------------------------------
# ARG-RANGE: the argument check of an operation refuses no admissible argument
def arg_range(r: R, chk, qual: str, param: str, admissible, rule="ARG-RANGE", max_degree: int = 5):
    """the head of the function — everything before the first statement that is neither a check nor a foldable assignment — is
    folded for degree = 0..max_degree and `param` in `admissible(degree)`: such a value must not run into `raise ValueError`
    there (degree_decrease(p) down to degree 0 is what makes clean() reach the smallest degree).  Values outside may be refused
    here or later; a guard of a raise that cannot be folded leaves the rule undecided."""
    fi = r.prog.func(qual)
    bad = None
    undec = False
    for degree in range(max_degree + 1):
        for v in admissible(degree):
            out = fold_outcome(fi.node.body, {param: v, ".degree": degree}, degree, stop_at_work=True)
            if out is UNK:
                undec = True
            elif out[0] == "raise" and bad is None:
                bad = (degree, v, out[1])
    if undec and bad is None:
        chk.note(f"{rule}: {qual}: an argument check could not be folded: not decided")
        return
    chk.ob(rule, f"{qual}: no admissible `{param}` is refused by the argument checks (degree 0..{max_degree})", bad is None, loc=f"{fi.module}.py:{fi.node.lineno}",
           detail="" if bad is None else f"{qual}: for a curve of degree {bad[0]} the call with {param} = {bad[1]} is refused with {bad[2]} by the argument checks at the head of the function although it is admissible: lowering the degree by its full amount (down to degree 0) is what lets degree_clean / clean reach the smallest degree of a constant or piecewise constant curve",
           func=qual, construct=f"admissible {param} refused")


def fold_outcome(stmts, env, degree, stop_at_work: bool):
    """what a statement list does for the folded environment: ("return",), ("raise", type name), ("end",) when it falls off the end,
    ("work",) when a statement that is not a check / a foldable assignment is reached and stop_at_work is set, UNK when a test that
    guards a raise cannot be folded"""
    from ..cfg import raised_type

    for st in stmts:
        if isinstance(st, ast.Expr) and isinstance(st.value, ast.Constant):
            continue
        if isinstance(st, ast.Raise):
            return ("raise", raised_type(st))
        if isinstance(st, ast.Return):
            return ("return",)
        if isinstance(st, ast.Pass):
            continue
        if isinstance(st, ast.Assert):
            v = _ev(st.test, env, degree)
            if v is UNK:
                continue  # an assertion about something else (tolerance, types of other arguments)
            if not v:
                return ("raise", "AssertionError")
            continue
        if isinstance(st, ast.If):
            v = _ev(st.test, env, degree)
            if v is UNK:
                if any(isinstance(x, (ast.Raise, ast.Return)) for b in (st.body, st.orelse) for y in b for x in ast.walk(y)):
                    return UNK
                if stop_at_work:
                    return ("work",)
                continue
            out = fold_outcome(st.body if v else st.orelse, env, degree, stop_at_work)
            if out is UNK or out[0] != "end":
                return out
            continue
        if isinstance(st, ast.Assign) and len(st.targets) == 1 and isinstance(st.targets[0], ast.Name):
            v = _ev(st.value, env, degree)
            if v is UNK and stop_at_work and any(isinstance(x, ast.Call) for x in ast.walk(st.value)):
                return ("work",)
            env[st.targets[0].id] = v
            continue
        if stop_at_work:
            return ("work",)
    return ("end",)


# ------------------------------------------------------------------------------------------------
# END-EXACT: reference nodes that can be 0 and 1 are mapped onto [lo, hi] so that 1 lands on hi exactly
def _affine_form(e, t: str):
    """('naive', lo, hi) for lo + (hi - lo) * t in any commutative arrangement; ('lerp', lo, hi) for (1 - t) * lo + t * hi;
    ('clamped', ...) for min / max around either; None for anything else"""
    def is_t(x):
        return isinstance(x, ast.Name) and x.id == t

    def prod_with_t(x):
        """x == y * t or t * y -> y"""
        if isinstance(x, ast.BinOp) and isinstance(x.op, ast.Mult):
            if is_t(x.right):
                return x.left
            if is_t(x.left):
                return x.right
        return None

    if isinstance(e, ast.Call) and isinstance(e.func, ast.Name) and e.func.id in ("min", "max") and len(e.args) == 2:
        for a in e.args:
            inner = _affine_form(a, t)
            if inner is not None or (isinstance(a, ast.Call) and isinstance(a.func, ast.Name) and a.func.id in ("min", "max")):
                # min(hi, max(lo, x)) / max(lo, min(hi, x)): both bounds appear
                names = {seg(b) for c in ast.walk(e) if isinstance(c, ast.Call) and isinstance(c.func, ast.Name) and c.func.id in ("min", "max") for b in c.args if not isinstance(b, (ast.Call, ast.BinOp))}
                if len(names) >= 2:
                    return ("clamped", None, None)
                # lo + (hi - lo) * t never falls below lo for t >= 0 (rounding is monotone): min(hi, .) alone is enough
                if inner is not None and inner[0] == "naive" and e.func.id == "min" and any(seg(b) == seg(inner[2]) for b in e.args if b is not a):
                    return ("clamped", None, None)
                return inner
        return None
    if isinstance(e, ast.BinOp) and isinstance(e.op, ast.Add):
        for a, b in ((e.left, e.right), (e.right, e.left)):
            d = prod_with_t(b)
            if d is not None and isinstance(d, ast.BinOp) and isinstance(d.op, ast.Sub) and seg(d.right) == seg(a):
                return ("naive", a, d.left)
            # (1 - t) * lo + t * hi
            pa, pb = None, prod_with_t(b)
            if isinstance(a, ast.BinOp) and isinstance(a.op, ast.Mult):
                for u, v in ((a.left, a.right), (a.right, a.left)):
                    if isinstance(u, ast.BinOp) and isinstance(u.op, ast.Sub) and isinstance(u.left, ast.Constant) and u.left.value == 1 and is_t(u.right):
                        pa = v
            if pa is not None and pb is not None:
                return ("lerp", pa, pb)
    return None


def _literal_closed(e) -> bool:
    """a list / tuple written out (possibly as a sum of pieces) one of whose members is the literal 1: a closed family of reference nodes"""
    if isinstance(e, (ast.List, ast.Tuple)):
        return any(isinstance(x, ast.Constant) and not isinstance(x.value, bool) and x.value == 1 for x in e.elts)
    if isinstance(e, ast.BinOp) and isinstance(e.op, ast.Add):
        return _literal_closed(e.left) or _literal_closed(e.right)
    if isinstance(e, ast.Call) and seg(e.func) in ("tuple", "list", "np.array") and e.args:
        return _literal_closed(e.args[0])
    return False


def end_exact(r: R, chk, quals: List[str], rule="END-EXACT"):
    """closed node families contain 0 and 1.  In floating point `lo + (hi - lo) * 1` is not always `hi` ((hi - lo) is rounded:
    0.3 + (0.9 - 0.3) > 0.9), and the evaluators refuse a parameter outside [lo, hi] with ValueError, so a node family that may
    be closed has to be mapped with an expression that is exact at both ends — `(1 - t) * lo + t * hi`, or a clamp — before it is
    handed on.  Decided for comprehensions `f(lo, hi, t) for t in <nodes>` where <nodes> may come from a closed family (directly
    or through a registry that offers one); other forms of the map are left undecided."""
    from .c10 import CLOSED_NODES, NS, funcrefs

    n = examined = 0
    for q in quals:
        ctx = r.root(q)
        fi = ctx.fi
        # names that may hold the nodes of a closed family; names that hold reference nodes of any family
        closed_names, sample_names = set(), set()
        for a in ast.walk(fi.node):
            if isinstance(a, ast.Assign) and len(a.targets) == 1 and isinstance(a.targets[0], (ast.Name, ast.Tuple)):
                v = a.value
                while isinstance(v, ast.Subscript):
                    v = v.value
                if isinstance(v, ast.Call) and isinstance(a.targets[0], ast.Name) and any(f.startswith(NS) for f in funcrefs(ctx, v.func)):
                    sample_names.add(a.targets[0].id)
                if isinstance(v, ast.Call) and any(f in CLOSED_NODES for f in funcrefs(ctx, v.func)):
                    if isinstance(a.targets[0], ast.Name):
                        closed_names.add(a.targets[0].id)
                elif isinstance(a.targets[0], ast.Name) and _literal_closed(a.value):
                    closed_names.add(a.targets[0].id)
        ch = True
        while ch:
            ch = False
            for a in ast.walk(fi.node):
                if isinstance(a, ast.Assign) and len(a.targets) == 1:
                    tg, v = a.targets[0], a.value
                    pairs = []
                    if isinstance(tg, ast.Name):
                        pairs = [(tg, v)]
                    elif isinstance(tg, ast.Tuple) and isinstance(v, ast.Tuple) and len(tg.elts) == len(v.elts):
                        pairs = list(zip(tg.elts, v.elts))
                    for t_, v_ in pairs:
                        while isinstance(v_, ast.Subscript):
                            v_ = v_.value
                        if isinstance(t_, ast.Name) and t_.id not in closed_names and isinstance(v_, ast.Name) and v_.id in closed_names:
                            closed_names.add(t_.id)
                            ch = True
        # the map as a comprehension `f(lo, hi, t) for t in nodes`, or as a loop `for t in nodes: out.append(f(lo, hi, t))`
        maps = []
        for comp in ast.walk(fi.node):
            if isinstance(comp, (ast.GeneratorExp, ast.ListComp)) and len(comp.generators) == 1 and isinstance(comp.generators[0].target, ast.Name):
                maps.append((comp, comp.generators[0].iter, comp.generators[0].target.id, comp.elt))
            elif isinstance(comp, ast.For) and isinstance(comp.target, ast.Name) and isinstance(comp.iter, ast.Name):
                for c_ in ast.walk(comp):
                    if isinstance(c_, ast.Call) and isinstance(c_.func, ast.Attribute) and c_.func.attr == "append" and len(c_.args) == 1 and _affine_form(c_.args[0], comp.target.id) is not None:
                        maps.append((c_, comp.iter, comp.target.id, c_.args[0]))
        for comp, it, tname, elt in maps:
            if isinstance(it, ast.Name) and it.id in (closed_names | sample_names) and _affine_form(elt, tname) is not None:
                examined += 1
            if not (isinstance(it, ast.Name) and it.id in closed_names):
                continue
            form = _affine_form(elt, tname)
            if form is None:
                chk.note(f"{rule}: {q}: `{seg(elt, 40)}` is not a map of reference nodes this rule knows: not decided")
                continue
            n += 1
            ok = form[0] != "naive"
            if ok and form[0] == "lerp" and form[2] is not None:
                # (1 - t) * A + t * B is B at t = 1: B has to be the upper end (second of a `.limits` unpacking / of the span pair)
                uppers = set()
                for a2 in ast.walk(fi.node):
                    if isinstance(a2, ast.Assign) and len(a2.targets) == 1 and isinstance(a2.targets[0], ast.Tuple) and len(a2.targets[0].elts) == 2 and isinstance(a2.targets[0].elts[1], ast.Name):
                        uppers.add(a2.targets[0].elts[1].id)
                    if isinstance(a2, ast.For) and isinstance(a2.target, ast.Tuple) and len(a2.target.elts) == 2 and isinstance(a2.target.elts[1], ast.Name):
                        uppers.add(a2.target.elts[1].id)
                if isinstance(form[2], ast.Name) and uppers and form[2].id not in uppers:
                    chk.ob(rule, f"{q}: `{seg(elt, 40)}` maps the node 1 onto the upper end", False, loc=r.loc(ctx, comp),
                           detail=f"{q}: `{seg(elt, 50)}` gives `{form[2].id}` at the node 1, which is not the upper end of the interval (one of {sorted(uppers)}): the nodes are spread over the wrong interval — identical to the right one only when the lower end is 0",
                           func=q, construct=f"closed nodes mapped onto the wrong end: {seg(elt, 40)}")
                    continue
            chk.ob(rule, f"{q}: `{seg(elt, 40)}` maps the node 1 onto the upper end exactly", ok, loc=r.loc(ctx, comp),
                   detail="" if ok else f"{q}: the nodes of `{it.id}` may be a closed family (0 and 1 included) and are mapped by `{seg(elt, 40)}`: in floating point `lo + (hi - lo) * 1` can exceed `hi` by one ulp (0.3 + (0.9 - 0.3) > 0.9), and the evaluation at that node is refused with ValueError (outside the interval) — the whole operation raises on such an interval; `(1 - t) * lo + t * hi` is exact at both ends",
                   func=q, construct=f"closed nodes mapped by {seg(elt, 40)}")
    chk.extra.setdefault('end_exact_closed', 0)
    chk.extra['end_exact_closed'] += n
    return examined


def starts_in_range(r: R, chk, qual: str, newton_suffix: str, rule="START-IN-RANGE"):
    """the start parameters handed to the Newton iteration come from an end-exact construction: `np.linspace(lo, hi, n)` (numpy
    pins the last sample to hi), the limits themselves, a lerp or a clamp — not `lo + k * (hi - lo) / n`, whose last value can
    exceed hi by one ulp, so that the first evaluation of the piece is refused with ValueError"""
    ctx = r.root(qual)
    fi = ctx.fi
    calls = [c for c in r.calls_in(ctx, newton_suffix) if c.kind == "call"]
    chk.floor(rule, f"calls of the Newton iteration in {qual}", len(calls), 1)
    for cr in calls:
        start = cr.node.args[-1] if cr.node.args else None
        verdict, how = None, ""
        src = None
        if isinstance(start, ast.Name):
            # a loop / comprehension variable over a sequence, or a plain local
            for lp in ast.walk(fi.node):
                if isinstance(lp, (ast.For, ast.comprehension)) and isinstance(lp.target, ast.Name) and lp.target.id == start.id:
                    src = lp.iter
            if src is None:
                ds = [a.value for a in ast.walk(fi.node) if isinstance(a, ast.Assign) and len(a.targets) == 1 and isinstance(a.targets[0], ast.Name) and a.targets[0].id == start.id]
                src = ds[0] if len(ds) == 1 else None
        for _ in range(3):
            if isinstance(src, ast.Name):
                ds = [a.value for a in ast.walk(fi.node) if isinstance(a, ast.Assign) and len(a.targets) == 1 and isinstance(a.targets[0], ast.Name) and a.targets[0].id == src.id]
                src = ds[0] if len(ds) == 1 else None
            while isinstance(src, ast.Call) and isinstance(src.func, ast.Name) and src.func.id in ("tuple", "list", "sorted") and len(src.args) == 1:
                src = src.args[0]
        if isinstance(src, ast.Call) and seg(src.func).endswith("linspace") and len(src.args) >= 2:
            verdict, how = True, "np.linspace"
        elif isinstance(src, (ast.Tuple, ast.List, ast.Set)) and all(isinstance(x, ast.Name) for x in src.elts):
            verdict, how = True, "the limits"
        elif isinstance(src, (ast.ListComp, ast.GeneratorExp)) and len(src.generators) == 1 and isinstance(src.generators[0].target, ast.Name):
            form = _affine_form(src.elt, src.generators[0].target.id)
            e = src.elt
            over_range = isinstance(src.generators[0].iter, ast.Call) and seg(src.generators[0].iter.func) == "range"
            if form is not None:
                verdict, how = form[0] != "naive", form[0]
            elif over_range and isinstance(e, ast.BinOp) and isinstance(e.op, ast.Add) and any(isinstance(x, ast.BinOp) and isinstance(x.op, ast.Sub) for side in (e.left, e.right) for x in ast.walk(side)):
                verdict, how = False, "lo + k * (hi - lo) / n"
        if verdict is None:
            chk.note(f"{rule}: {qual}: the start values of `{seg(cr.node, 40)}` are built in a way this rule does not know: not decided")
            continue
        chk.ob(rule, f"{qual}: the Newton starts of `{seg(cr.node, 40)}` are inside the interval by construction ({how})", verdict, loc=r.loc(ctx, cr.node),
               detail="" if verdict else f"{qual}: the start parameters are `{seg(src, 60)}`: the last one is lo + (hi - lo) computed in floating point, which can exceed hi by one ulp (0.3 + 4 * (0.9 - 0.3) / 4 > 0.9); the piece is then evaluated outside its interval and point_on_curve raises ValueError instead of returning parameters",
               func=qual, construct="Newton starts not end-exact")


# ------------------------------------------------------------------------------------------------
# TOL-ABSOLUTE: whether two knots are the same knot does not depend on where the interval lies
_SHIFT_CONTROL = """
def control(self, node):
    tolerance = 1e-9 * max(1, abs(node))
    return sum(abs(node - knot) < tolerance for knot in self)
"""


def _relative_tolerances(fn: ast.FunctionDef, expand):
    """comparisons `abs(a - b) < T` (any order / operator) whose tolerance T is computed from the data (a name that is not a
    constant), and isclose / allclose calls that keep a relative tolerance: (node, description)"""
    out = []
    params = {a.arg for a in fn.args.args + fn.args.posonlyargs + fn.args.kwonlyargs}
    loopvars = {x.id for n in ast.walk(fn) if isinstance(n, (ast.For, ast.comprehension)) for x in ast.walk(n.target) if isinstance(x, ast.Name)}
    for c in ast.walk(fn):
        if isinstance(c, ast.Compare) and len(c.ops) == 1 and isinstance(c.ops[0], (ast.Lt, ast.LtE, ast.Gt, ast.GtE)):
            sides = [c.left, c.comparators[0]]
            dist = [s_ for s_ in sides if isinstance(s_, ast.Call) and seg(s_.func) in ("abs", "np.abs", "np.absolute", "math.fabs") and s_.args and isinstance(s_.args[0], ast.BinOp) and isinstance(s_.args[0].op, ast.Sub)]
            if len(dist) != 1:
                continue
            tol = expand([s_ for s_ in sides if s_ is not dist[0]][0])
            names = {x.id for x in ast.walk(tol) if isinstance(x, ast.Name) and isinstance(x.ctx, ast.Load)} - {"max", "min", "abs", "np", "math", "float", "Fraction"}
            data = sorted(n for n in names if n in params or n in loopvars)
            if data:
                out.append((c, f"the tolerance `{seg(tol, 40)}` grows with {', '.join(data)}"))
        elif isinstance(c, ast.Call) and seg(c.func).split(".")[-1] in ("isclose", "allclose") and len(c.args) >= 2:
            rel = next((k.value for k in c.keywords if k.arg in ("rel_tol", "rtol")), None)
            if not (isinstance(rel, ast.Constant) and rel.value == 0):
                out.append((c, f"`{seg(c, 50)}` compares with a relative tolerance"))
    return out


def tol_absolute(r: R, chk, quals: List[str], rule="TOL-ABSOLUTE"):
    """shift(a) keeps every multiplicity and leaves basis functions and derivatives unchanged (C18; C03 / C09 rely on it), so the
    test that decides whether two knots / a node and a knot coincide may only depend on their difference: `a == b`, `d != 0`,
    `abs(a - b) < constant`.  A tolerance scaled by the size of the operands (`1e-9 * max(1, abs(node))`, `math.isclose` with its
    default rel_tol) merges distinct knots once the interval lies far from the origin (timestamps)."""
    from .common import expand_locals

    ctl = _relative_tolerances(ast.parse(_SHIFT_CONTROL).body[0], lambda e: expand_locals(type("F", (), {"node": ast.parse(_SHIFT_CONTROL).body[0], "params": ["self", "node"]})(), e))
    n = 0
    for q in quals:
        ctx = r.root(q)
        fi = ctx.fi
        n += sum(1 for c in ast.walk(fi.node) if isinstance(c, ast.Compare))
        for node, why in _relative_tolerances(fi.node, lambda e: expand_locals(fi, e)):
            chk.ob(rule, f"{q}: `{seg(node, 40)}` decides on the difference alone", False, loc=r.loc(ctx, node),
                   detail=f"{q}: {why}: two distinct knots (or a node and the next knot) are taken for the same one as soon as the interval lies far enough from the origin — after `shift(1e7)` the multiplicities, `.knots`, the basis functions and the derivative factors change, although a shift must not change any of them",
                   func=q, construct=f"tolerance relative to the knots: {seg(node, 40)}")
    chk.ob(rule, f"knot identity is decided on differences with absolute tolerances in {len(quals)} functions ({n} comparisons; positive control {'recognised' if ctl else 'MISSING'})", bool(ctl), loc="",
           detail="" if ctl else "the positive control of the rule is not recognised any more")
    return n


# ------------------------------------------------------------------------------------------------
# DEHOMOG-PAIR: the weights stored with dehomogenised control points are the weights they were divided by
def _strip_wrappers(e):
    while isinstance(e, ast.Call) and seg(e.func) in ("tuple", "list", "np.array", "np.asarray") and e.args:
        e = e.args[0]
    return e


def dehomog_pair(r: R, chk, quals: List[str], rule="DEHOMOG-PAIR", floor: int = 1):
    """a rational curve is (sum_i w_i P_i N_i) / (sum_i w_i N_i): control points obtained as numerator_i / w_i (or
    invert(w_i) * numerator_i) for the elements w_i of a list W only make sense together with the weights W.  Where a function
    computes points that way and gives points and weights to the same object (constructor call or two attribute stores), the
    weights have to be that same W — not the weights of the source curve, not abs(W), not a rescaled copy."""
    total = 0
    work = []
    for q in quals:
        ctx = r.root(q)
        work.append((q, ctx))
        # private helpers of the same module that could not be inlined into the view (called from a comprehension)
        for cr in ctx.calls:
            for callee in cr.callees:
                if callee.name.startswith("_") and not callee.name.endswith("__") and callee.qual in r.A.roots and callee.module == ctx.fi.module and not any(w[0] == callee.qual for w in work):
                    work.append((callee.qual, r.root(callee.qual)))
    for q, ctx in work:
        fi = ctx.fi
        defs: Dict[str, List[ast.expr]] = {}
        for a in ast.walk(fi.node):
            if isinstance(a, ast.Assign) and len(a.targets) == 1 and isinstance(a.targets[0], ast.Name):
                defs.setdefault(a.targets[0].id, []).append(a.value)

        def resolve(e, depth=0):
            """a name through plain copies / container conversions to the name it stands for (None assignments do not count)"""
            e = _strip_wrappers(e)
            if isinstance(e, ast.Name) and depth < 4:
                ds = [d for d in defs.get(e.id, []) if not (isinstance(d, ast.Constant) and d.value is None)]
                inner = {seg(_strip_wrappers(d)) for d in ds}
                if len(inner) == 1 and isinstance(_strip_wrappers(ds[0]), ast.Name) and _strip_wrappers(ds[0]).id != e.id:
                    return resolve(_strip_wrappers(ds[0]), depth + 1)
            return e

        def divisor_list(comp):
            """the list whose elements divide (or whose inverses multiply) the elements of a comprehension; None if there is none"""
            comp = _strip_wrappers(comp)
            if not isinstance(comp, (ast.ListComp, ast.GeneratorExp)) or len(comp.generators) != 1:
                return None
            g = comp.generators[0]
            pairs = []
            if isinstance(g.iter, ast.Call) and seg(g.iter.func) == "zip" and isinstance(g.target, ast.Tuple) and len(g.target.elts) == len(g.iter.args):
                pairs = [(t_.id, a_) for t_, a_ in zip(g.target.elts, g.iter.args) if isinstance(t_, ast.Name)]
            divs = set()
            for x in ast.walk(comp.elt):
                if isinstance(x, ast.BinOp) and isinstance(x.op, ast.Div) and isinstance(x.right, ast.Name):
                    divs.add(x.right.id)
                if isinstance(x, ast.Call) and seg(x.func) == "invert" and x.args and isinstance(x.args[0], ast.Name):
                    divs.add(x.args[0].id)
                if isinstance(x, ast.Call) and seg(x.func) == "invert" and x.args and isinstance(x.args[0], ast.Subscript) and isinstance(x.args[0].value, ast.Name):
                    return seg(resolve(x.args[0].value))
            for tname, src in pairs:
                if tname in divs:
                    return seg(resolve(src))
            return None

        # points computed by division: name -> divisor list name
        divided: Dict[str, str] = {}
        for name, ds in defs.items():
            for d in ds:
                w_ = divisor_list(d)
                if w_ is not None:
                    divided[name] = w_
        # explicit loops over zip(numerators, W): `points.append(invert(w) * numerator)`
        for lp in ast.walk(fi.node):
            if isinstance(lp, ast.For) and isinstance(lp.iter, ast.Call) and seg(lp.iter.func) == "zip" and isinstance(lp.target, ast.Tuple) and len(lp.target.elts) == len(lp.iter.args):
                zmap = {t_.id: a_ for t_, a_ in zip(lp.target.elts, lp.iter.args) if isinstance(t_, ast.Name)}
                for x in ast.walk(lp):
                    if isinstance(x, ast.Call) and isinstance(x.func, ast.Attribute) and x.func.attr == "append" and isinstance(x.func.value, ast.Name) and x.args:
                        for y in ast.walk(x.args[0]):
                            dv = None
                            if isinstance(y, ast.BinOp) and isinstance(y.op, ast.Div) and isinstance(y.right, ast.Name):
                                dv = y.right.id
                            if isinstance(y, ast.Call) and seg(y.func) == "invert" and y.args and isinstance(y.args[0], ast.Name):
                                dv = y.args[0].id
                            if dv in zmap:
                                divided[x.func.value.id] = seg(resolve(zmap[dv]))
        # explicit loops: `inv = invert(W[i])` ... `points.append(...)`
        for lp in ast.walk(fi.node):
            if isinstance(lp, ast.For):
                ws = [x.args[0].value for x in ast.walk(lp) if isinstance(x, ast.Call) and seg(x.func) == "invert" and x.args and isinstance(x.args[0], ast.Subscript) and isinstance(x.args[0].value, ast.Name)]
                apps = [x.func.value.id for x in ast.walk(lp) if isinstance(x, ast.Call) and isinstance(x.func, ast.Attribute) and x.func.attr == "append" and isinstance(x.func.value, ast.Name)]
                if ws and apps:
                    for nm in apps:
                        divided.setdefault(nm, seg(resolve(ws[0])))
        # objects that receive points and weights: (points expression, weights expression, node)
        pairs_pw = []
        blocks = []
        for x in ast.walk(fi.node):
            for fld in ("body", "orelse", "finalbody"):
                b = getattr(x, fld, None)
                if isinstance(b, list) and b and isinstance(b[0], ast.stmt):
                    blocks.append(b)
        for b in blocks:
            stores = [a for a in b if isinstance(a, ast.Assign) and len(a.targets) == 1 and isinstance(a.targets[0], ast.Attribute) and a.targets[0].attr in ("ctrlpoints", "weights") and isinstance(a.targets[0].value, ast.Name)]
            for pst in [a for a in stores if a.targets[0].attr == "ctrlpoints"]:
                for wst in [a for a in stores if a.targets[0].attr == "weights" and a.targets[0].value.id == pst.targets[0].value.id]:
                    if not (isinstance(wst.value, ast.Constant) and wst.value.value is None):
                        pairs_pw.append((pst.value, wst.value, wst))
        # locals that only carry the two values to the stores (`newweights = W; newctrlpoints = P` in one branch, the stores at the end)
        pnames = {a.value.id for a in ast.walk(fi.node) if isinstance(a, ast.Assign) and len(a.targets) == 1 and isinstance(a.targets[0], ast.Attribute) and a.targets[0].attr == "ctrlpoints" and isinstance(a.value, ast.Name)}
        wnames = {a.value.id for a in ast.walk(fi.node) if isinstance(a, ast.Assign) and len(a.targets) == 1 and isinstance(a.targets[0], ast.Attribute) and a.targets[0].attr == "weights" and isinstance(a.value, ast.Name)}
        for b in blocks:
            pas = [a for a in b if isinstance(a, ast.Assign) and len(a.targets) == 1 and isinstance(a.targets[0], ast.Name) and a.targets[0].id in pnames and len(defs.get(a.targets[0].id, [])) > 1]
            was = [a for a in b if isinstance(a, ast.Assign) and len(a.targets) == 1 and isinstance(a.targets[0], ast.Name) and a.targets[0].id in wnames and len(defs.get(a.targets[0].id, [])) > 1]
            for pa_ in pas:
                for wa_ in was:
                    if not (isinstance(wa_.value, ast.Constant) and wa_.value.value is None):
                        pairs_pw.append((pa_.value, wa_.value, wa_))
        for a in ast.walk(fi.node):
            if isinstance(a, ast.Call) and (seg(a.func) in ("Curve",) or seg(a.func).endswith(".__class__")) and len(a.args) == 3:
                pairs_pw.append((a.args[1], a.args[2], a))
                # weights given again afterwards to the object just built
                for b in blocks:
                    for k_, st in enumerate(b):
                        if isinstance(st, ast.Assign) and st.value is a and len(st.targets) == 1 and isinstance(st.targets[0], ast.Name):
                            for later in b[k_ + 1:]:
                                if isinstance(later, ast.Assign) and len(later.targets) == 1 and isinstance(later.targets[0], ast.Attribute) and later.targets[0].attr == "weights" and isinstance(later.targets[0].value, ast.Name) and later.targets[0].value.id == st.targets[0].id:
                                    pairs_pw.append((a.args[1], later.value, later))
        for pexpr, wexpr, node in pairs_pw:
            pres = resolve(pexpr)
            wlist = divided.get(pres.id) if isinstance(pres, ast.Name) else divisor_list(pexpr)
            if wlist is None:
                continue
            total += 1
            wname = seg(resolve(wexpr))
            ok = wname == wlist
            chk.ob(rule, f"{q}: the points `{seg(pres, 30)}` (divided by the elements of `{wlist}`) are stored with those weights", ok, loc=r.loc(ctx, node),
                   detail="" if ok else f"{q}: the control points `{seg(pres, 30)}` are the numerators divided by the elements of `{wlist}`, but the weights given to the same curve are `{seg(wexpr, 40)}`: w_i * P_i is then no longer the transformed numerator, so the rational curve is not the one that was computed (wrong at every parameter where the two weight lists differ)",
                   func=q, construct=f"points divided by {wlist}, weights stored {seg(wexpr, 30)}")
    chk.floor(rule, f"dehomogenised control points stored with weights in {', '.join(x.split('.')[-1] for x in quals)}", total, floor)
    return total



# ------------------------------------------------------------------------------------------------
# NONE-DEFAULT: "no argument" is `None`, not "anything falsy"
def none_default(r: R, chk, quals: List[str], rule="NONE-DEFAULT", floor: int = 1):
    """a parameter whose default is None and whose other values are sequences / numbers (an empty cut set, 0 nodes, tolerance 0 are
    legal requests of their own) is tested with `is None` / `is not None` where the default is substituted: a truthiness test
    (`if not nodes:`) sends the empty sequence down the no-argument path"""
    n = 0
    for q in quals:
        ctx = r.root(q)
        fi = ctx.fi
        opt = [p for p in fi.params if isinstance(fi.defaults.get(p), ast.Constant) and fi.defaults[p].value is None]
        tests = [(x.test, x) for x in ast.walk(fi.node) if isinstance(x, (ast.If, ast.IfExp, ast.While))]
        for p in opt:
            for texpr, holder in tests:
                t = type("T", (), {"ast": texpr, "id": next((n_.id for n_ in ctx.cfg.nodes if n_.ast is texpr), -1)})()
                # conjuncts / disjuncts of the test
                parts = [t.ast]
                while any(isinstance(x, ast.BoolOp) for x in parts):
                    parts = [v for x in parts for v in (x.values if isinstance(x, ast.BoolOp) else [x])]
                for part in parts:
                    neg = part
                    while isinstance(neg, ast.UnaryOp) and isinstance(neg.op, ast.Not):
                        neg = neg.operand
                    if isinstance(neg, ast.Compare) and isinstance(neg.left, ast.Name) and neg.left.id == p and isinstance(neg.ops[0], (ast.Is, ast.IsNot)):
                        n += 1
                        chk.ob(rule, f"{q}: the default of `{p}` is recognised by `{seg(part, 30)}`", True, loc=r.loc(ctx, t.ast))
                    elif isinstance(neg, ast.Name) and neg.id == p:
                        # is the parameter still the caller's value here (not yet rebound)?
                        rebound = [a for a in r.stmt_nodes(ctx) if t.id >= 0 and isinstance(a.ast, ast.Assign) and any(isinstance(x, ast.Name) and x.id == p for x in a.ast.targets) and ctx.cfg.dominates(a.id, t.id)]
                        if rebound:
                            continue
                        n += 1
                        chk.ob(rule, f"{q}: the default of `{p}` is recognised by an identity test", False, loc=r.loc(ctx, t.ast),
                               detail=f"{q}: `{seg(t.ast, 40)}` tests the truth value of `{p}`, whose default is None: an explicitly empty / zero argument (`{fi.name}([])`) is treated like no argument at all — for split() that means the Bezier pieces between all knots instead of the one piece the empty cut set defines",
                               func=q, construct=f"truthiness test of the optional parameter {p}")
    chk.floor(rule, f"tests of optional (default None) parameters in {', '.join(x.split('.')[-1] for x in quals)}", n, floor)
    return n


# ------------------------------------------------------------------------------------------------
# ITER-ONCE: an argument that may be a one-pass iterable is materialised before anything else iterates it
def iter_once(r: R, chk, qual: str, param: str, rule="ITER-ONCE"):
    """`curve(u for u in nodes)`, `map(...)`, `iter(...)` are sequences of nodes too, but can be walked once.  Until the parameter
    has been rebound to `tuple(param)` / `list(param)`, it may not be handed to a call that iterates it (a validity check, a
    conversion of another kind): the later `tuple(param)` would be empty and zero points come back without an error."""
    ctx = r.root(qual)
    fi = ctx.fi
    mats = [n for n in r.stmt_nodes(ctx) if isinstance(n.ast, ast.Assign) and any(isinstance(t, ast.Name) for t in n.ast.targets) and isinstance(n.ast.value, ast.Call) and seg(n.ast.value.func) in ("tuple", "list") and n.ast.value.args and isinstance(n.ast.value.args[0], ast.Name) and n.ast.value.args[0].id == param]
    chk.floor(rule, f"`{param} = tuple({param})` in {qual}", len(mats), 1)
    bad = []
    for n in r.stmt_nodes(ctx):
        if any(n.id == m_.id for m_ in mats) or not isinstance(n.ast, (ast.stmt, ast.expr)):
            continue
        # reached before (not after) every materialisation?
        if any(ctx.cfg.dominates(m_.id, n.id) for m_ in mats):
            continue
        for c in ast.walk(n.ast):
            if isinstance(c, ast.Call) and any(isinstance(a, ast.Name) and a.id == param for a in list(c.args) + [k.value for k in c.keywords]) and seg(c.func) not in ("isinstance", "type", "id", "callable", "hasattr", "tuple", "list"):
                bad.append((n, c))
            if isinstance(c, (ast.For, ast.comprehension)) and isinstance(c.iter, ast.Name) and c.iter.id == param:
                bad.append((n, c.iter))
    ok = not bad
    chk.ob(rule, f"{qual}: `{param}` is not iterated before it is materialised", ok, loc=r.loc(ctx, bad[0][1]) if bad else r.loc(ctx, mats[0].ast),
           detail="" if ok else f"{qual}: `{seg(bad[0][1], 50)}` walks `{param}` before `{param} = tuple({param})`: a generator / map / iterator argument is exhausted there, the tuple built afterwards is empty and the call returns zero points for n nodes instead of one point per node",
           func=qual, construct=f"{param} consumed before materialisation")


# ------------------------------------------------------------------------------------------------
# NO-REORDER: the k-th column belongs to the k-th node the caller gave
def no_reorder(r: R, chk, qual: str, param: str, rule="NO-REORDER"):
    """the caller pairs points[k] with nodes[k]; a helper that only sees the nodes must keep their order: no sorted(), reversed(),
    set(), np.sort, np.unique, .sort() on the way from the parameter to the evaluation"""
    ctx = r.root(qual)
    fi = ctx.fi
    order_changing = ("sorted", "reversed", "set", "frozenset", "np.sort", "np.unique", "np.flip", "dict.fromkeys")
    bad = []
    tainted = {param}
    ch = True
    while ch:
        ch = False
        for a in ast.walk(fi.node):
            if isinstance(a, ast.Assign) and len(a.targets) == 1 and isinstance(a.targets[0], ast.Name) and a.targets[0].id not in tainted and any(isinstance(x, ast.Name) and x.id in tainted for x in ast.walk(a.value)) and isinstance(_strip_wrappers(a.value), ast.Name):
                tainted.add(a.targets[0].id)
                ch = True
    for c in ast.walk(fi.node):
        if isinstance(c, ast.Call):
            fn = seg(c.func)
            if fn in order_changing and c.args and any(isinstance(x, ast.Name) and x.id in tainted for x in ast.walk(c.args[0])):
                bad.append(c)
            if isinstance(c.func, ast.Attribute) and c.func.attr in ("sort", "reverse") and isinstance(c.func.value, ast.Name) and c.func.value.id in tainted:
                bad.append(c)
    ok = not bad
    chk.ob(rule, f"{qual}: `{param}` keeps the caller's order", ok, loc=r.loc(ctx, bad[0]) if bad else r.loc(ctx, fi.node),
           detail="" if ok else f"{qual}: `{seg(bad[0], 40)}` reorders `{param}`: the columns of the result follow the new order while the caller multiplies by its data in the old one, so every value is attached to the wrong parameter whenever the nodes are not given in ascending order",
           func=qual, construct=f"{param} reordered")


# ------------------------------------------------------------------------------------------------
# NEG-ZERO-SLICE: x[a:-n] with n == 0 is empty, not "up to the end"
_NEGSLICE_CONTROL = "def control(self):\n    return self[self.degree : -self.degree]\n"


def _neg_slices(fn):
    out = []
    for s_ in ast.walk(fn):
        if isinstance(s_, ast.Subscript) and isinstance(s_.slice, ast.Slice) and isinstance(s_.slice.upper, ast.UnaryOp) and isinstance(s_.slice.upper.op, ast.USub):
            inner = s_.slice.upper.operand
            if not (isinstance(inner, ast.Constant) and isinstance(inner.value, int) and inner.value > 0):
                out.append(s_)
    return out


def neg_zero_slice(r: R, chk, quals: List[str], rule="NEG-ZERO-SLICE"):
    """a slice bound `-n` counts from the end only for n > 0: for n = 0 (`degree` of a piecewise constant vector, an empty
    margin) `x[a:-0]` is `x[a:0]`, the empty sequence.  A bound of that form whose operand is not a positive literal has to be
    written from the front (`len(x) - n`)."""
    ctl = _neg_slices(ast.parse(_NEGSLICE_CONTROL).body[0])
    n = 0
    for q in quals:
        ctx = r.A.roots.get(q)
        if ctx is None:
            continue
        n += sum(1 for s_ in ast.walk(ctx.fi.node) if isinstance(s_, ast.Subscript) and isinstance(s_.slice, ast.Slice))
        for s_ in _neg_slices(ctx.fi.node):
            chk.ob(rule, f"{q}: `{seg(s_, 40)}` does not end at `-0`", False, loc=r.loc(ctx, s_),
                   detail=f"{q}: the upper bound of `{seg(s_, 50)}` is the negation of a quantity that can be 0 (degree 0): `x[a:-0]` is the empty sequence, so for a piecewise constant vector no knot is left and the operation raises / returns nothing",
                   func=q, construct=f"slice bound -{seg(s_.slice.upper.operand, 20)} may be -0")
    chk.ob(rule, f"no slice ends at the negation of a possibly-zero quantity ({n} slices in {len(quals)} functions; positive control {'recognised' if ctl else 'MISSING'})", bool(ctl), loc="",
           detail="" if ctl else "the positive control of the rule is not recognised any more")
    return n


# ------------------------------------------------------------------------------------------------
# NAN-GUARD: the iterate that is returned has been tested by something a NaN fails
def nan_guard(r: R, chk, qual: str, rule="NAN-GUARD"):
    """a Newton step 0/0 makes the iterate NaN; the loop is left on purpose (`not abs(diff) >= tol`), and the iterate must not be
    handed back (evaluating a curve at NaN does not terminate).  On every path to a return of the iterate a test holds that a NaN
    cannot pass: `np.isfinite(x)` true, `np.isnan(x)` false, or an order comparison of x that came out true."""
    from .c08 import path_facts

    ctx = r.root(qual)
    fi = ctx.fi
    # the iterate: the name updated by `x -= ...` / `x = x - ...` inside the loop
    upd = [a.target.id for a in ast.walk(fi.node) if isinstance(a, ast.AugAssign) and isinstance(a.target, ast.Name) and isinstance(a.op, (ast.Sub, ast.Add))]
    upd += [a.targets[0].id for a in ast.walk(fi.node) if isinstance(a, ast.Assign) and len(a.targets) == 1 and isinstance(a.targets[0], ast.Name) and isinstance(a.value, ast.BinOp) and isinstance(a.value.op, (ast.Sub, ast.Add)) and isinstance(a.value.left, ast.Name) and a.value.left.id == a.targets[0].id]
    names = sorted(set(upd) & set(fi.params) if set(upd) & set(fi.params) else set(upd))
    chk.floor(rule, f"iterate of {qual}", len(names), 1)
    nret = 0
    for x in names:
        for n in r.stmt_nodes(ctx):
            if not (isinstance(n.ast, ast.Return) and n.ast.value is not None and any(isinstance(y, ast.Name) and y.id == x for y in ast.walk(n.ast.value))):
                continue
            nret += 1
            facts = path_facts(ctx, n.id)
            ok = False
            for txt, pol in facts:
                t = txt.replace(" ", "").replace(f"float({x})", x)  # isfinite(float(x)) tests x all the same
                if pol and (t in (f"np.isfinite({x})", f"math.isfinite({x})")):
                    ok = True
                if not pol and t in (f"np.isnan({x})", f"math.isnan({x})"):
                    ok = True
            chk.ob(rule, f"{qual}: `{seg(n.ast, 30)}` only for an iterate that is not NaN", ok, loc=r.loc(ctx, n.ast),
                   detail="" if ok else f"{qual}: `{seg(n.ast, 30)}` is reached without a test that a NaN fails (the tests on the way: {', '.join(sorted(('' if p_ else 'not ') + t_ for t_, p_ in facts)) or 'none'}): a 0/0 Newton step (the point at a centre of curvature) makes `{x}` NaN, it is returned as a candidate and the evaluation of the curve at NaN does not terminate",
                   func=qual, construct=f"iterate {x} returned without a NaN-rejecting test")
    chk.floor(rule, f"returns of the iterate in {qual}", nret, 1)


# ------------------------------------------------------------------------------------------------
# SWAP-SYMMETRIC: what a commutative operation computes from both operands does not change when they are exchanged
class _SwapNames(ast.NodeTransformer):
    def __init__(self, pairs):
        self.m = {}
        for a, b in pairs:
            self.m[a], self.m[b] = b, a

    def visit_Name(self, n):
        return ast.copy_location(ast.Name(id=self.m.get(n.id, n.id), ctx=n.ctx), n)


def _canon(e) -> str:
    """text of an expression with the operands of commutative operations sorted"""
    if isinstance(e, ast.Call) and isinstance(e.func, ast.Name) and e.func.id in ("min", "max") and not e.keywords:
        return f"{e.func.id}({', '.join(sorted(_canon(a) for a in e.args))})"
    if isinstance(e, ast.BinOp) and isinstance(e.op, (ast.Add, ast.Mult, ast.BitOr, ast.BitAnd)):
        def flat(x):
            if isinstance(x, ast.BinOp) and type(x.op) is type(e.op):
                return flat(x.left) + flat(x.right)
            return [x]
        return f"({type(e.op).__name__} " + " ".join(sorted(_canon(x) for x in flat(e))) + ")"
    if isinstance(e, ast.BinOp):
        return f"({type(e.op).__name__} {_canon(e.left)} {_canon(e.right)})"
    if isinstance(e, ast.Call):
        return f"{_canon(e.func)}({', '.join(_canon(a) for a in e.args)})"
    if isinstance(e, ast.Attribute):
        return f"{_canon(e.value)}.{e.attr}"
    if isinstance(e, ast.Subscript):
        return f"{_canon(e.value)}[{_canon(e.slice)}]"
    if isinstance(e, (ast.ListComp, ast.GeneratorExp, ast.SetComp)):
        gens = "; ".join(f"{ast.unparse(g.target)} in {_canon(g.iter)} if {' and '.join(_canon(i) for i in g.ifs)}" for g in e.generators)
        return f"[{_canon(e.elt)} for {gens}]"
    if isinstance(e, (ast.Tuple, ast.List)):
        return "(" + ", ".join(_canon(x) for x in e.elts) + ")"
    if isinstance(e, ast.UnaryOp):
        return f"({type(e.op).__name__} {_canon(e.operand)})"
    if isinstance(e, ast.Compare) and len(e.ops) == 1 and isinstance(e.ops[0], (ast.Eq, ast.NotEq)):
        return f"({type(e.ops[0]).__name__} " + " ".join(sorted([_canon(e.left), _canon(e.comparators[0])])) + ")"
    return ast.unparse(e)


def swap_symmetric(r: R, chk, qual: str, rule="SWAP-SYMMETRIC"):
    """A * B = B * A, so the knot vector of a product is the same whichever operand is called `a`.  Every expression of the
    function that takes the multiplicity of a knot in BOTH operand vectors (local names expanded) must be unchanged — up to the
    order of the arguments of min / max / + / * — when the two operands (their knot vectors, degrees and everything derived from
    one of them alone) are exchanged."""
    from .common import expand_locals

    ctx0 = r.root(qual)
    ps0 = [p for p in ctx0.fi.params if p not in ("self", "cls")]
    if len(ps0) < 2:
        from .. import AnalysisError

        raise AnalysisError(f"{qual} is not a binary operation")
    sites = [(ctx0, ps0[0], ps0[1])]
    # a private helper that receives both operands (`__product_class(a, b, knot)` called from a comprehension cannot be inlined)
    for cr in ctx0.calls:
        for callee in cr.callees:
            if callee.name.startswith("_") and not callee.name.endswith("__") and callee.qual in r.A.roots and isinstance(cr.node, ast.Call):
                cps = [p for p in callee.params if p not in ("self", "cls")]
                names = [a.id if isinstance(a, ast.Name) else None for a in cr.node.args]
                derived0 = {ps0[0]: "a", ps0[1]: "b"}
                if ps0[0] in names and ps0[1] in names and len(cps) >= len(names):
                    sites.append((r.root(callee.qual), cps[names.index(ps0[0])], cps[names.index(ps0[1])]))
    total = 0
    for ctx, pa, pb in sites:
        total += _swap_symmetric_in(r, chk, ctx, pa, pb, rule)
    chk.floor(rule, f"expressions of {qual} (and its private helpers) that use the multiplicities of both operands", total, 1)


def _swap_symmetric_in(r: R, chk, ctx, pa: str, pb: str, rule: str) -> int:
    from .common import expand_locals

    fi = ctx.fi
    qual = fi.qual
    # locals derived from exactly one operand, paired by a common stem: degreea / degreeb, multa / multb
    derived = {pa: "a", pb: "b"}
    ch = True
    while ch:
        ch = False
        for a in ast.walk(fi.node):
            if isinstance(a, ast.Assign) and len(a.targets) == 1 and isinstance(a.targets[0], ast.Name) and a.targets[0].id not in derived:
                src = {derived[x.id] for x in ast.walk(a.value) if isinstance(x, ast.Name) and x.id in derived}
                if len(src) == 1:
                    derived[a.targets[0].id] = next(iter(src))
                    ch = True
    exprs = []
    for st in ast.walk(fi.node):
        if isinstance(st, (ast.Assign, ast.Return, ast.AugAssign)) and st.value is not None:
            e = expand_locals(fi, st.value)
            sides = {derived[x.value.id] for x in ast.walk(e) if isinstance(x, ast.Attribute) and x.attr == "mult" and isinstance(x.value, ast.Name) and x.value.id in derived}
            if sides == {"a", "b"}:
                exprs.append((st, e))
    side_a = sorted(n for n, s_ in derived.items() if s_ == "a")
    side_b = sorted(n for n, s_ in derived.items() if s_ == "b")
    for st, e in exprs:
        names = {x.id for x in ast.walk(e) if isinstance(x, ast.Name)}
        pairs = [(pa, pb)]
        for na in side_a:
            if na in names and na != pa:
                # the partner: same name with the operand letter / name exchanged
                cands = [nb for nb in side_b if nb != pb and (nb == na[:-1] + "b" or nb.replace(pb, pa) == na)]
                if cands:
                    pairs.append((na, cands[0]))
        swapped = _SwapNames(pairs).visit(ast.parse(ast.unparse(e), mode="eval").body)
        ok = _canon(e) == _canon(swapped)
        chk.ob(rule, f"{qual}: `{seg(e, 60)}` is unchanged when the operands are exchanged", ok, loc=r.loc(ctx, st),
               detail="" if ok else f"{qual}: `{seg(e, 80)}` becomes `{seg(swapped, 80)}` when `{pa}` and `{pb}` are exchanged, which is a different expression: the knot vector of A * B is not the knot vector of B * A, so for one of the two orders the product space is wrong (too smooth or invalid) whenever the degrees differ",
               func=qual, construct="operands not treated alike")
    return len(exprs)


# ------------------------------------------------------------------------------------------------
# D-VALUE: no divisor is computed from the values of the curve
def div_by_value(r: R, chk, quals: List[str], rule="D-VALUE"):
    """a curve may take the value 0 and its derivative may vanish (a repeated control point of a polyline): in the integrators a
    quantity that depends on the control points of the curve is never a divisor (the span length, the number of nodes and the
    quadrature weights are)"""
    n = 0
    bad = 0
    for q in quals:
        ctx = r.root(q)
        fi = ctx.fi
        cp = r.srcs(fi, [f"{fi.params[0]}.ctrlpoints"]) if fi.params else []
        for d in ast.walk(fi.node):
            div = d.right if isinstance(d, ast.BinOp) and isinstance(d.op, (ast.Div, ast.FloorDiv, ast.Mod)) else (d.value if isinstance(d, ast.AugAssign) and isinstance(d.op, (ast.Div, ast.FloorDiv)) else None)
            if div is None:
                continue
            n += 1
            v = ctx.val(div)
            # inside a comprehension the interpreter records the element value under the same node
            deps = v.all_dep() if v is not None else set()
            if any(R.dep_has(deps, w) for w in cp):
                bad += 1
                chk.ob(rule, f"{q}: the divisor `{seg(div, 30)}` does not come from the values of the curve", False, loc=r.loc(ctx, d),
                       detail=f"{q}: `{seg(d, 60)}` divides by `{seg(div, 30)}`, which is computed from the control points of `{fi.params[0]}`: where the curve (here: the derivative of a polyline with a repeated control point) is exactly zero the division gives nan / ZeroDivisionError and the integral — the length of the polyline — is lost",
                       func=q, construct=f"division by a value of the curve: {seg(div, 30)}")
    if not bad:
        chk.ob(rule, f"no division by a value of the curve in {', '.join(x.split('.')[-1] for x in quals)} ({n} divisions)", True, loc="")
    return n


# ---------------------------------------------------------------------------------------------------------
# NODE-LOCAL: the answer for one node does not depend on the nodes before it (no forward-only cursor)
def _expr_reads(e) -> List[ast.Name]:
    """Name loads of an expression, without the names bound by comprehensions / lambdas inside it"""
    if e is None:
        return []
    bound = set()
    for n in ast.walk(e):
        if isinstance(n, ast.comprehension):
            bound |= {x.id for x in ast.walk(n.target) if isinstance(x, ast.Name)}
        elif isinstance(n, ast.Lambda):
            bound |= {a.arg for a in n.args.args}
    return [n for n in ast.walk(e) if isinstance(n, ast.Name) and isinstance(n.ctx, ast.Load) and n.id not in bound]


def _target_names(t) -> Set[str]:
    if isinstance(t, ast.Name):
        return {t.id}
    if isinstance(t, (ast.Tuple, ast.List)):
        return set().union(*[_target_names(x) for x in t.elts]) if t.elts else set()
    if isinstance(t, ast.Starred):
        return _target_names(t.value)
    return set()


def loop_carried(loop) -> Dict[str, List[ast.AST]]:
    """names that one iteration of `loop` may read with the value an earlier iteration left (read before they are
    definitely assigned in the iteration, and assigned somewhere in the body).  Syntax-directed definite assignment."""
    body_assigned: Set[str] = set()
    for n in ast.walk(ast.Module(body=list(loop.body), type_ignores=[])):
        if isinstance(n, ast.Assign):
            for t in n.targets:
                body_assigned |= _target_names(t)
        elif isinstance(n, (ast.AugAssign, ast.AnnAssign)):
            body_assigned |= _target_names(n.target)
        elif isinstance(n, (ast.For, ast.comprehension)):
            if isinstance(n, ast.For):
                body_assigned |= _target_names(n.target)
        elif isinstance(n, ast.NamedExpr):
            body_assigned |= _target_names(n.target)
        elif isinstance(n, ast.withitem) and n.optional_vars is not None:
            body_assigned |= _target_names(n.optional_vars)
    carried: Dict[str, List[ast.AST]] = {}

    def use(e, assigned, stmt):
        for nm in _expr_reads(e):
            if nm.id in body_assigned and nm.id not in assigned:
                carried.setdefault(nm.id, []).append(stmt)

    def meet(a, b):
        if a is None:
            return b
        if b is None:
            return a
        return a & b

    def walk(stmts, assigned):
        for s in stmts:
            if assigned is None:
                return None
            if isinstance(s, ast.Assign):
                use(s.value, assigned, s)
                for t in s.targets:
                    if not isinstance(t, (ast.Name, ast.Tuple, ast.List)):
                        use(t, assigned, s)
                    assigned = assigned | _target_names(t)
            elif isinstance(s, ast.AugAssign):
                use(s.value, assigned, s)
                if isinstance(s.target, ast.Name):
                    if s.target.id in body_assigned and s.target.id not in assigned:
                        carried.setdefault(s.target.id, []).append(s)
                    assigned = assigned | {s.target.id}
                else:
                    use(s.target, assigned, s)
            elif isinstance(s, ast.AnnAssign):
                use(s.value, assigned, s)
                if s.value is not None:
                    assigned = assigned | _target_names(s.target)
            elif isinstance(s, ast.If):
                use(s.test, assigned, s)
                assigned = meet(walk(s.body, set(assigned)), walk(s.orelse, set(assigned)))
            elif isinstance(s, ast.For):
                use(s.iter, assigned, s)
                walk(s.body, set(assigned) | _target_names(s.target))
                assigned = walk(s.orelse, set(assigned))
            elif isinstance(s, ast.While):
                use(s.test, assigned, s)
                walk(s.body, set(assigned))
                assigned = walk(s.orelse, set(assigned))
            elif isinstance(s, ast.Try):
                a = walk(s.body, set(assigned))
                for h in s.handlers:
                    walk(h.body, set(assigned))
                if a is not None:
                    walk(s.orelse, set(a))
                walk(s.finalbody, set(assigned))
            elif isinstance(s, ast.With):
                for it in s.items:
                    use(it.context_expr, assigned, s)
                    if it.optional_vars is not None:
                        assigned = assigned | _target_names(it.optional_vars)
                assigned = walk(s.body, assigned)
            elif isinstance(s, (ast.Return, ast.Raise)):
                use(getattr(s, "value", None) or getattr(s, "exc", None), assigned, s)
                return None
            elif isinstance(s, (ast.Break, ast.Continue)):
                return None
            elif isinstance(s, (ast.FunctionDef, ast.ClassDef, ast.Import, ast.ImportFrom, ast.Pass, ast.Global, ast.Nonlocal)):
                continue
            else:
                for c in ast.iter_child_nodes(s):
                    if isinstance(c, ast.expr):
                        use(c, assigned, s)
        return assigned

    first = set(_target_names(loop.target)) if isinstance(loop, ast.For) else set()
    if isinstance(loop, ast.While):
        use(loop.test, first, loop)
    walk(loop.body, first)
    return carried


def _cursors(loop) -> List[Tuple[str, ast.AST, ast.AST]]:
    """(name, conditional update, use) of every forward-only cursor of the loop: carried over the iterations, every
    definition inside the loop is made from its own previous value, at least one of them under a condition of the
    body, and the body reads it outside of its own updates"""
    out = []
    car = loop_carried(loop)
    if not car:
        return out
    nested: Dict[int, bool] = {}

    def mark(stmts, cond):
        for s in stmts:
            nested[id(s)] = cond
            for f in ("body", "orelse", "finalbody"):
                mark(getattr(s, f, []) or [], True)
            for h in getattr(s, "handlers", []) or []:
                mark(h.body, True)

    mark(loop.body, False)
    for name in sorted(car):
        defs = []
        own = True
        for s in ast.walk(ast.Module(body=list(loop.body), type_ignores=[])):
            if isinstance(s, ast.AugAssign) and isinstance(s.target, ast.Name) and s.target.id == name:
                defs.append(s)
            elif isinstance(s, ast.Assign) and any(name in _target_names(t) for t in s.targets):
                defs.append(s)
                if not (len(s.targets) == 1 and isinstance(s.targets[0], ast.Name) and any(n.id == name for n in _expr_reads(s.value))):
                    own = False
            elif isinstance(s, ast.For) and name in _target_names(s.target):
                own = False
            elif isinstance(s, (ast.NamedExpr,)) and name in _target_names(s.target):
                own = False
        if not own or not defs:
            continue
        cond = [d for d in defs if nested.get(id(d))]
        uses = [u for u in car[name] if u not in defs]
        if cond and uses:
            out.append((name, cond[0], uses[0]))
    return out


def node_local(r: R, chk, entries: List[str], rule="NODE-LOCAL", floor: int = 1):
    """every loop over the caller's nodes on the evaluation path: no forward-only cursor (a position that is only ever
    advanced from its own previous value, under a test, and that the body reads) — the caller's nodes are in no
    particular order, so the answer for a node would depend on the nodes before it"""
    from .common import expand_locals
    from .divisions import reachable_functions

    n = 0
    for q in reachable_functions(r, entries):
        fi = r.prog.func(q) if hasattr(r.prog, "func") else None
        if fi is None or fi.module == "__classes__":
            continue
        nodeparams = {p for p in fi.params if "node" in p.lower()}
        if not nodeparams:
            continue
        for lp in ast.walk(fi.node):
            if not isinstance(lp, ast.For):
                continue
            it = expand_locals(fi, lp.iter)
            if not any(isinstance(x, ast.Name) and x.id in nodeparams for x in ast.walk(it)):
                continue
            n += 1
            cur = _cursors(lp)
            ok = not cur
            chk.ob(rule, f"{q}: the loop over `{seg(lp.iter, 30)}` keeps no forward-only cursor", ok, loc=f"{fi.module}.py:{lp.lineno}",
                   detail="" if ok else f"{q}: in the loop over `{seg(lp.iter, 30)}` the position `{cur[0][0]}` is only ever advanced from its previous value (`{seg(cur[0][1], 40)}` at line {cur[0][1].lineno}) and read by `{seg(cur[0][2], 50)}`: it never goes back, so a node that is smaller than one before it is answered from the wrong place — the caller's nodes come in no particular order",
                   func=q, construct=f"forward-only cursor {cur[0][0]}" if cur else "")
    chk.floor(rule, "loops over the caller's nodes on the evaluation path", n, floor)
    return n


# ---------------------------------------------------------------------------------------------------------
# CUTS-DISTINCT: pieces are made between consecutive *distinct* cut points
def _consecutive_pairs(it):
    """X when `it` is zip(X[:-1], X[1:]) / pairwise(X) / zip(X, X[1:])"""
    if not (isinstance(it, ast.Call) and it.args):
        return None
    fn = seg(it.func).split(".")[-1]
    if fn == "pairwise" and len(it.args) == 1:
        return it.args[0]
    if fn == "zip" and len(it.args) == 2:
        a, b = it.args
        if isinstance(b, ast.Subscript) and isinstance(b.slice, ast.Slice) and isinstance(b.slice.lower, ast.Constant) and b.slice.lower.value == 1 and b.slice.upper is None:
            base = a.value if isinstance(a, ast.Subscript) and isinstance(a.slice, ast.Slice) else a
            if seg(base) == seg(b.value):
                return b.value
    return None


def cuts_distinct(r: R, chk, quals: List[str], rule="CUTS-DISTINCT", floor: int = 1):
    n = 0
    for q in quals:
        fi = r.prog.func(q)
        conts, elems, is_dd = dedup_taint(fi)
        for lp in ast.walk(fi.node):
            gens = [(lp.iter, lp.target, lp.body)] if isinstance(lp, ast.For) else [(g.iter, g.target, None) for g in lp.generators] if isinstance(lp, (ast.ListComp, ast.GeneratorExp, ast.SetComp)) else []
            for it, tgt, body in gens:
                x = _consecutive_pairs(it)
                if x is None or not (isinstance(tgt, ast.Tuple) and len(tgt.elts) == 2 and all(isinstance(e, ast.Name) for e in tgt.elts)):
                    continue
                n += 1
                a, b = (e.id for e in tgt.elts)
                guarded = False
                if body:
                    first = body[0]
                    if isinstance(first, ast.If) and isinstance(first.test, ast.Compare) and {a, b} <= {y.id for y in ast.walk(first.test) if isinstance(y, ast.Name)} and any(isinstance(s, ast.Continue) for s in first.body):
                        guarded = True
                ok = is_dd(x) or guarded
                chk.ob(rule, f"{q}: the consecutive cut points `{seg(it, 40)}` are distinct", ok, loc=f"{fi.module}.py:{lp.lineno}",
                       detail="" if ok else f"{q}: pieces are made between consecutive members of `{seg(x, 30)}`, which is not de-duplicated (no set / unique / `.knots` on its way, no `{a} == {b}` skip in the loop): a node given twice yields an empty piece [{a}, {a}] — an invalid knot vector — where repeated nodes are to be ignored",
                       func=q, construct=f"cut points not de-duplicated: {seg(x, 30)}")
    chk.floor(rule, "loops over consecutive cut points", n, floor)
    return n


# ---------------------------------------------------------------------------------------------------------
# ERROR-QUADRATIC: where T is not the free minimiser the reported error is the full quadratic form in T
PRODUCT_CALLS = ("dot", "matmul", "tensordot", "inner", "outer", "einsum", "multiply")


def _formal_degrees(e, sym: str):
    """set of formal degrees in the symbol `sym` of the terms of e (None: not computable)"""
    if not any(isinstance(x, ast.Name) and x.id == sym for x in ast.walk(e)):
        return {0}
    if any(isinstance(x, ast.Name) and x.id == "__unresolved__" for x in ast.walk(e)):
        return {None}
    if isinstance(e, ast.Name):
        return {1}
    if isinstance(e, ast.Attribute) and e.attr in ("T", "real"):
        return _formal_degrees(e.value, sym)
    if isinstance(e, ast.UnaryOp):
        return _formal_degrees(e.operand, sym)
    if isinstance(e, ast.BinOp):
        a, b = _formal_degrees(e.left, sym), _formal_degrees(e.right, sym)
        if isinstance(e.op, (ast.Add, ast.Sub)):
            return a | b
        if isinstance(e.op, (ast.Mult, ast.MatMult)):
            return {None if (x is None or y is None) else x + y for x in a for y in b}
        if isinstance(e.op, ast.Div) and b == {0}:
            return a
        return {None}
    if isinstance(e, ast.Call):
        fn = seg(e.func).split(".")[-1]
        args = [x for x in e.args if not (isinstance(x, ast.Constant) and isinstance(x.value, str))]
        if fn in PRODUCT_CALLS and len(args) == 2:
            a, b = _formal_degrees(args[0], sym), _formal_degrees(args[1], sym)
            return {None if (x is None or y is None) else x + y for x in a for y in b}
        if fn in ("transpose", "array", "asarray", "totuple", "tuple", "copy", "conj") and args:
            return _formal_degrees(args[0], sym)
        if fn in ("sum", "trace", "diag", "abs", "max") and len(args) == 1:
            return _formal_degrees(args[0], sym)
        return {None}
    if isinstance(e, ast.Subscript):
        return _formal_degrees(e.value, sym)
    return {None}


def _block_defs(fn: ast.FunctionDef):
    """for every statement list of the function: the list itself and its parent list position (to look back for reaching definitions)"""
    out = {}

    def rec(stmts, up):
        for i, s in enumerate(stmts):
            out[id(s)] = (stmts, i, up)
            for f in ("body", "orelse", "finalbody"):
                sub = getattr(s, f, None)
                if isinstance(sub, list) and sub and isinstance(sub[0], ast.stmt):
                    rec(sub, s)
            for h in getattr(s, "handlers", []) or []:
                rec(h.body, s)

    rec(fn.body, None)
    return out


def reaching_assign(fn: ast.FunctionDef, at: ast.stmt, name: str, pos=None, aug: bool = False, compound: bool = False):
    """the last plain assignment to `name` that textually precedes `at` in its own statement list or an enclosing one
    (with `aug`, also an augmented assignment `name op= e`)"""
    pos = pos or _block_defs(fn)
    cur = at
    while cur is not None and id(cur) in pos:
        stmts, i, up = pos[id(cur)]
        for s in reversed(stmts[:i]):
            if isinstance(s, ast.Assign) and any(name in _target_names(t) for t in s.targets):
                return s
            if aug and isinstance(s, ast.AugAssign) and isinstance(s.target, ast.Name) and s.target.id == name:
                return s
            if any(isinstance(x, (ast.Assign, ast.AugAssign)) and name in (set().union(*[_target_names(t) for t in x.targets]) if isinstance(x, ast.Assign) else _target_names(x.target)) for x in ast.walk(s)):
                if compound and isinstance(s, ast.If):
                    return s  # the caller merges the alternatives of the `if`
                return None  # defined inside a nested block: no single reaching definition
        cur = up
    return None


def resolve_reaching(fn: ast.FunctionDef, e: ast.expr, at: ast.stmt, keep=(), params=(), depth: int = 8, pos=None):
    """`e` (read at statement `at`) with every local name replaced by the value of the assignment that reaches it, recursively
    and flow-sensitively (`E = E / 2` takes the E before it).  A local without a single reaching assignment becomes the name
    `__unresolved__`."""
    import copy

    pos = pos or _block_defs(fn)
    all_params = {a.arg for a in fn.args.args + fn.args.kwonlyargs} | set(params)
    assigned = {n_ for x in ast.walk(fn) if isinstance(x, (ast.Assign, ast.AugAssign, ast.For)) for n_ in (set().union(*[_target_names(t) for t in x.targets]) if isinstance(x, ast.Assign) else _target_names(x.target))}

    # names whose value may depend on a kept symbol (flow-insensitive closure): only those matter when they cannot be resolved
    tainted = set(keep)
    changed = True
    while changed:
        changed = False
        for x in ast.walk(fn):
            if isinstance(x, (ast.Assign, ast.AugAssign)):
                tg = set().union(*[_target_names(t) for t in x.targets]) if isinstance(x, ast.Assign) else _target_names(x.target)
                if tg - tainted and any(isinstance(y, ast.Name) and y.id in tainted for y in ast.walk(x.value)):
                    tainted |= tg
                    changed = True

    def go(expr, at_, d):
        class T(ast.NodeTransformer):
            def visit_Name(self, n):
                if not isinstance(n.ctx, ast.Load) or n.id in keep or n.id not in assigned:
                    return n
                lost = ast.Name(id="__unresolved__", ctx=ast.Load()) if (n.id in tainted or not keep) else n
                if d <= 0:
                    return lost
                st = reaching_assign(fn, at_, n.id, pos, aug=True, compound=True)
                if st is None and n.id in all_params and not _assigned_before(fn, at_, n.id, pos):
                    return n  # a parameter that still holds the caller's value here
                if isinstance(st, ast.If):
                    # `if c: x = A` [`else: x = B`]: both alternatives, the value of before the `if` where a branch leaves x alone
                    def last_def(stmts):
                        for s_ in reversed(stmts):
                            if isinstance(s_, ast.Assign) and len(s_.targets) == 1 and isinstance(s_.targets[0], ast.Name) and s_.targets[0].id == n.id:
                                return s_
                            if isinstance(s_, ast.AugAssign) and isinstance(s_.target, ast.Name) and s_.target.id == n.id:
                                return s_
                            if any(isinstance(x, (ast.Assign, ast.AugAssign)) and n.id in (set().union(*[_target_names(t) for t in x.targets]) if isinstance(x, ast.Assign) else _target_names(x.target)) for x in ast.walk(s_)):
                                return "nested"
                        return None

                    alts = []
                    for branch in (st.body, st.orelse):
                        ld = last_def(branch)
                        if ld == "nested":
                            return lost
                        if ld is None:
                            alts.append(go(ast.Name(id=n.id, ctx=ast.Load()), st, d - 1))
                        elif isinstance(ld, ast.AugAssign):
                            alts.append(go(ast.BinOp(left=ast.Name(id=n.id, ctx=ast.Load()), op=copy.deepcopy(ld.op), right=copy.deepcopy(ld.value)), ld, d - 1))
                        else:
                            alts.append(go(copy.deepcopy(ld.value), ld, d - 1))
                    return ast.IfExp(test=ast.Name(id="__path__", ctx=ast.Load()), body=alts[0], orelse=alts[1])
                if isinstance(st, ast.AugAssign):
                    # x op= e  is  x = x op e  with the x of before
                    return go(ast.BinOp(left=ast.Name(id=n.id, ctx=ast.Load()), op=copy.deepcopy(st.op), right=copy.deepcopy(st.value)), st, d - 1)
                if st is None or len(st.targets) != 1 or not isinstance(st.targets[0], ast.Name):
                    return lost
                return go(copy.deepcopy(st.value), st, d - 1)

            def visit_Lambda(self, n):
                return n

        return T().visit(copy.deepcopy(expr))

    return go(e, at, depth)


def _assigned_before(fn, at, name, pos) -> bool:
    """some assignment to `name` (at any nesting) textually precedes `at` in its own statement list or an enclosing one"""
    cur = at
    while cur is not None and id(cur) in pos:
        stmts, i, up = pos[id(cur)]
        for s_ in stmts[:i]:
            for x in ast.walk(s_):
                if isinstance(x, ast.Assign) and any(name in _target_names(t) for t in x.targets):
                    return True
                if isinstance(x, (ast.AugAssign, ast.For)) and name in _target_names(x.target):
                    return True
        cur = up
    return False


def error_quadratic(r: R, chk, qual: str, rule="ERROR-QUADRATIC"):
    """The function returns (T, E).  E = FF - GF^T T is the squared error only when T solves the free normal equations GG T = GF
    (T a pure product).  Where T carries an additive correction (interpolation constraints) GG T != GF, and E has to be the whole
    quadratic form FF - 2 T^T GF + T^T GG T: formally of degree 2 in T."""
    fi = r.prog.func(qual)
    fn = fi.node
    pos = _block_defs(fn)
    n = 0
    for ret in ast.walk(fn):
        if not (isinstance(ret, ast.Return) and isinstance(ret.value, ast.Tuple) and len(ret.value.elts) == 2):
            continue
        names = []
        for el in ret.value.elts:
            while isinstance(el, ast.Call) and len(el.args) == 1:
                el = el.args[0]
            names.append(el.id if isinstance(el, ast.Name) else None)
        tn, en = names
        if tn is None or en is None:
            continue
        tdef = reaching_assign(fn, ret, tn, pos)
        edef = reaching_assign(fn, ret, en, pos)
        if tdef is None or edef is None:
            chk.note(f"{rule}: {qual}: no single definition of `{tn}` / `{en}` reaches `{seg(ret, 40)}`: not decided")
            continue
        tex = resolve_reaching(fn, tdef.value, tdef, params=fi.params, pos=pos)
        additive = any(isinstance(x, ast.BinOp) and isinstance(x.op, (ast.Add, ast.Sub)) for x in ast.walk(tex))
        n += 1
        if not additive:
            chk.ob(rule, f"{qual}: `{seg(edef, 40)}` with the free minimiser `{seg(tdef, 30)}` (short form allowed)", True, loc=f"{fi.module}.py:{edef.lineno}")
            continue
        eex = resolve_reaching(fn, edef.value, edef, keep=(tn,), params=fi.params, pos=pos)
        ds = _formal_degrees(eex, tn)
        if None in ds:
            chk.note(f"{rule}: {qual}: the degree of `{seg(edef.value, 40)}` in `{tn}` could not be computed: not decided")
            continue
        ok = 2 in ds
        chk.ob(rule, f"{qual}: `{en}` returned by `{seg(ret, 40)}` is the full quadratic form in the constrained `{tn}`", ok, loc=f"{fi.module}.py:{edef.lineno}",
               detail="" if ok else f"{qual}: `{seg(eex, 70)}` has no term of degree 2 in `{tn}` (degrees {sorted(ds)}), but `{seg(tdef, 50)}` is not the free minimiser: with the interpolation constraints GG·{tn} ≠ GF, so the short form is not the squared deviation — the error handed to the tolerance gate is too small (even negative) and an inexact removal is accepted",
               func=qual, construct=f"error not quadratic in the constrained transformation")
    chk.floor(rule, f"(T, E) returns of {qual}", n, 2)
    return n


# ---------------------------------------------------------------------------------------------------------
# NODES-OF-NEW: the knots handed to update() as interpolation nodes are the knots of the NEW knot vector
def nodes_of_new(r: R, chk, quals: List[str], callee: str = "curves.BaseCurve.update", rule="NODES-OF-NEW"):
    """update(newknotvector, tolerance, nodes) interpolates the old curve at `nodes` with the new space: the nodes must be knots the
    new vector still has (a knot whose multiplicity drops to 0 is no breakpoint of the new curve, and more nodes than the new space
    has control points cannot be interpolated at all).  Structural: the nodes argument is computed from the very variable that is
    passed as the new knot vector, after the last in-place change of that variable."""
    cal = r.prog.func(callee)
    params = [p for p in cal.params if p not in ("self", "cls")]
    n = 0
    for q in quals:
        fi = r.prog.func(q)
        for c in ast.walk(fi.node):
            if not (isinstance(c, ast.Call) and isinstance(c.func, ast.Attribute) and c.func.attr == cal.name and isinstance(c.func.value, ast.Name) and c.func.value.id == "self"):
                continue
            bound = dict(zip(params, c.args))
            bound.update({k.arg: k.value for k in c.keywords if k.arg})
            kv, nd = bound.get(params[0]), bound.get("nodes")
            if kv is None or nd is None or not isinstance(kv, ast.Name):
                continue
            n += 1
            # textual (depth-first) order of the statements: the inlined model view has no usable line numbers
            order = {}

            def number(stmts):
                for st in stmts:
                    order[id(st)] = len(order)
                    for f in ("body", "orelse", "finalbody"):
                        sub = getattr(st, f, None)
                        if isinstance(sub, list):
                            number([x for x in sub if isinstance(x, ast.stmt)])
                    for h in getattr(st, "handlers", []) or []:
                        number(h.body)

            number(fi.node.body)
            holder = None
            for st in ast.walk(fi.node):
                if isinstance(st, ast.stmt) and id(st) in order and any(x is c for x in ast.walk(st)):
                    if holder is None or order[id(st)] > order[id(holder)]:
                        holder = st  # the innermost statement comes last in depth-first order
            at = order[id(holder)]
            expr = nd
            defs = []
            if isinstance(nd, ast.Name):
                defs = [st for st in ast.walk(fi.node) if isinstance(st, ast.Assign) and id(st) in order and order[id(st)] < at and any(nd.id in _target_names(t) for t in st.targets)]
                values = [st.value for st in defs]
            else:
                values = [nd]

            def from_kv(e):
                return any(isinstance(x, ast.Name) and x.id == kv.id for x in ast.walk(e))

            def is_none(e):
                return isinstance(e, ast.Constant) and e.value is None

            stray = [v for v in values if not from_kv(v) and not is_none(v)]
            # `K if cond else None`: the choice between "these knots" and "no nodes" is a property of the NEW vector too (its degree
            # being 0): a condition on the curve's own, old degree differs when the removal changes the degree (end knots)
            for v in values:
                if isinstance(v, ast.IfExp) and (is_none(v.body) or is_none(v.orelse)) and not from_kv(v.test):
                    stray.append(v.test)
            for st in defs:
                holder_if = next((x for x in ast.walk(fi.node) if isinstance(x, ast.If) and any(y is st for b_ in (x.body, x.orelse) for y in b_)), None)
                if holder_if is not None and not from_kv(holder_if.test) and any(is_none(d_.value) for d_ in defs):
                    stray.append(holder_if.test)
            mentions = bool(values) and not stray and any(from_kv(v) for v in values)
            expr = stray[0] if stray else (values[0] if values else None)
            # in-place changes / rebinding of the new vector after the nodes were taken
            late = []
            first = min((order[id(st)] for st in defs if from_kv(st.value)), default=None)
            if first is not None:
                for st in ast.walk(fi.node):
                    if not (isinstance(st, (ast.Assign, ast.AugAssign)) and id(st) in order and first < order[id(st)] < at):
                        continue
                    tgts = st.targets if isinstance(st, ast.Assign) else [st.target]
                    for t in tgts:
                        base = t
                        while isinstance(base, (ast.Attribute, ast.Subscript)):
                            base = base.value
                        if isinstance(base, ast.Name) and base.id == kv.id and not (isinstance(t, ast.Name) and st in defs):
                            late.append(st)
            ok = mentions and not late
            why = "" if ok else f"`{seg(expr, 50) if expr is not None else seg(nd, 30)}` is not computed from `{kv.id}`" if not mentions else f"`{kv.id}` is changed by `{seg(late[0], 40)}` after the nodes were taken"
            chk.ob(rule, f"{q}: the interpolation nodes of `{seg(c, 40)}` are the knots of `{kv.id}`", ok, loc=f"{fi.module}.py:{c.lineno}",
                   detail="" if ok else f"{q}: the nodes handed to `{seg(c, 50)}` are not those of the new knot vector: {why} — knots of the old vector that the new one no longer has (multiplicity dropped to 0) are imposed as interpolation nodes: more conditions than control points, the fit is refused (or wrong) where the reduction is exact",
                   func=q, construct="interpolation nodes not taken from the new knot vector")
    chk.floor(rule, "update(...) calls with interpolation nodes", n, len(quals))
    return n


# ---------------------------------------------------------------------------------------------------------
# SLICE-REBUILD: slice(*s.indices(n)) is not s when the step is negative
_SLICE_REBUILD_CONTROL = "def f(s, n):\n    return slice(*s.indices(n))\n"


def _slice_rebuilds(fn):
    out = []
    for c in ast.walk(fn):
        if isinstance(c, ast.Call) and seg(c.func) == "slice" and len(c.args) == 1 and isinstance(c.args[0], ast.Starred):
            inner = c.args[0].value
            if isinstance(inner, ast.Call) and isinstance(inner.func, ast.Attribute) and inner.func.attr == "indices":
                out.append(c)
    return out


def slice_rebuild(r: R, chk, modules: List[str], rule="SLICE-REBUILD"):
    """`s.indices(n)` gives (start, stop, step) for range(); with a negative step and an open end the stop is -1, which as a slice
    bound means n - 1: `slice(*s.indices(n))` then selects nothing (x[::-1] becomes x[n-1:-1:-1] = ()).  A slice resolved
    against a length has to be kept as the range / index list, never rebuilt as a slice."""
    ctl = _slice_rebuilds(ast.parse(_SLICE_REBUILD_CONTROL))
    n = 0
    for fi in r.prog.all_functions():
        if fi.module not in modules or fi.module == "__classes__":
            continue
        n += 1
        for c in _slice_rebuilds(fi.node):
            chk.ob(rule, f"{fi.qual}: `{seg(c, 40)}`", False, loc=f"{fi.module}.py:{c.lineno}",
                   detail=f"{fi.qual}: `{seg(c, 50)}` rebuilds a slice from `.indices()`: for a negative step with an open end the stop comes back as -1, which a slice reads as 'one before the end' — f[::-1], f[::-2], f[k::-1] select no row (or the wrong rows) instead of the rows that the same slice selects on range(npts)",
                   func=fi.qual, construct="slice rebuilt from .indices()")
    chk.ob(rule, f"no slice is rebuilt from `.indices()` ({n} functions of {modules}; positive control {'recognised' if ctl else 'MISSING'})", bool(ctl), loc="",
           detail="" if ctl else "the positive control of the rule is not recognised any more")
    return n


# ---------------------------------------------------------------------------------------------------------
# POINT-OPS: outside the operators the user asks for, a control point is only ever scaled from the left and added
def _point_elements(fn):
    """(is_point_container, is_point_element) for a function: `.ctrlpoints`, copies / slices of it, loop and comprehension targets over it"""
    conts, elems = set(), set()

    def is_pts(e) -> bool:
        if isinstance(e, ast.Attribute):
            return e.attr == "ctrlpoints"
        if isinstance(e, ast.Name):
            return e.id in conts
        if isinstance(e, ast.Call) and e.args and seg(e.func) in ("tuple", "list", "np.array", "np.asarray", "copy", "deepcopy", "reversed"):
            return is_pts(e.args[0])
        if isinstance(e, ast.Subscript) and isinstance(e.slice, ast.Slice):
            return is_pts(e.value)
        return False

    def bind(target, it):
        """names of `target` that hold a point when iterating `it`"""
        if is_pts(it):
            return {x.id for x in ast.walk(target) if isinstance(x, ast.Name)} if isinstance(target, ast.Name) else set()
        if isinstance(it, ast.Call) and seg(it.func) == "zip" and isinstance(target, ast.Tuple) and len(target.elts) == len(it.args):
            return set().union(*[bind(t, a) for t, a in zip(target.elts, it.args)])
        if isinstance(it, ast.Call) and seg(it.func) == "enumerate" and it.args and isinstance(target, ast.Tuple) and len(target.elts) == 2:
            return bind(target.elts[1], it.args[0])
        return set()

    changed = True
    while changed:
        changed = False
        for n in ast.walk(fn):
            if isinstance(n, ast.Assign) and len(n.targets) == 1 and isinstance(n.targets[0], ast.Name) and is_pts(n.value) and n.targets[0].id not in conts:
                conts.add(n.targets[0].id)
                changed = True
            if isinstance(n, (ast.For, ast.comprehension)):
                new = bind(n.target, n.iter) - elems
                if new:
                    elems |= new
                    changed = True

    def is_el(e) -> bool:
        if isinstance(e, ast.Name):
            return e.id in elems
        if isinstance(e, ast.Subscript) and not isinstance(e.slice, ast.Slice):
            return is_pts(e.value)
        return False

    return is_pts, is_el


def _point_ops(fn):
    """operators applied to a control point that are not `scalar * point` / `point + point`"""
    is_pts, is_el = _point_elements(fn)
    out = []
    for n in ast.walk(fn):
        if isinstance(n, ast.BinOp) and (is_el(n.left) or is_el(n.right)):
            if isinstance(n.op, ast.Mult) and is_el(n.right) and not is_el(n.left):
                continue
            if isinstance(n.op, ast.Add):
                continue
            out.append(n)
        elif isinstance(n, ast.UnaryOp) and isinstance(n.op, (ast.USub, ast.UAdd)) and is_el(n.operand):
            out.append(n)
        elif isinstance(n, ast.AugAssign) and (is_el(n.target) or is_el(n.value)) and not isinstance(n.op, ast.Add):
            out.append(n)
    return out


_POINT_OPS_CONTROL = """
def control(self, other):
    points = tuple(self.ctrlpoints)
    diffs = [points[i + 1] - points[i] for i in range(3)]
    halves = [point / 2 for point in self.ctrlpoints]
    for poi, qoi in zip(self.ctrlpoints, other.ctrlpoints):
        diffs.append(-poi)
    return [2 * point + point for point in points]
"""


def point_ops(r: R, chk, quals: List[str], rule="POINT-OPS", floor: int = 1):
    """The library promises that a control point only needs `scalar * point` and `point + point` (tests/test_customstruc.py, the
    docstring of curves.invert).  The operators of a curve (A - B, A / s, A @ M ...) apply what the caller asked for; everything
    else — evaluation, refinement, derivation — may use nothing but those two.  `points[i + 1] - points[i]` needs a subtraction the
    point type may not have, and wraps around for unsigned integer arrays."""
    n = 0
    for q in quals:
        fi = r.prog.func(q)
        n += 1
        bad = _point_ops(fi.node)
        ok = not bad
        chk.ob(rule, f"{q}: control points are only scaled from the left and added", ok, loc=f"{fi.module}.py:{(bad[0] if bad else fi.node).lineno}",
               detail="" if ok else f"{q}: `{seg(bad[0], 50)}` applies an operator to a control point that is neither `scalar * point` nor `point + point`: a point type with the library's minimal protocol has no such operator (TypeError), and an unsigned integer array wraps around — the operation fails or returns a wrong curve for control points the library accepts",
               func=q, construct=f"operator on a control point: {seg(bad[0], 40)}" if bad else "")
    ctl = _point_ops(ast.parse(_POINT_OPS_CONTROL).body[0])
    chk.ob(rule, f"positive control of the scanner ({len(ctl)} of 3 operators on points recognised)", len(ctl) == 3, loc="", detail="" if len(ctl) == 3 else "the positive control of the rule is not recognised any more")
    chk.floor(rule, "functions examined", n, floor)
    return n


# ---------------------------------------------------------------------------------------------------------
# NAN-REJECT: the validity predicate of a node is false for a NaN
def nan_reject(r: R, chk, qual: str, rule="NAN-REJECT"):
    """`valid(node)` decides whether span / mult / evaluation may go on; the binary search of span never ends for a node that is
    not ordered with the knots (every comparison with a NaN is false).  On every path to `return True` a test about the node must
    have come out in a way a NaN cannot produce: an order comparison or `==` that is true, a `!=` that is false, isnan false,
    isfinite true.  Excluding the two outsides (`node < umin or umax < node` false) lets a NaN through."""
    import re

    from .c08 import path_facts

    ctx = r.root(qual)
    fi = ctx.fi
    node = next((p for p in fi.params if p not in ("self", "cls")), None)
    n = 0

    def nan_rejecting(e) -> bool:
        """an expression that is False for a NaN node: an order / equality comparison involving the node, a conjunction with one"""
        while isinstance(e, ast.Call) and seg(e.func) == "bool" and len(e.args) == 1:
            e = e.args[0]
        if isinstance(e, ast.Compare) and all(isinstance(o, (ast.Lt, ast.LtE, ast.Gt, ast.GtE, ast.Eq)) for o in e.ops):
            return any(isinstance(y, ast.Name) and y.id == node for y in ast.walk(e))
        if isinstance(e, ast.BoolOp) and isinstance(e.op, ast.And):
            return any(nan_rejecting(v_) for v_ in e.values)
        return False

    for nd in r.stmt_nodes(ctx):
        if isinstance(nd.ast, ast.Return) and nd.ast.value is not None and not isinstance(nd.ast.value, ast.Constant):
            # `return umin <= node <= umax` (possibly inside bool()): true only for an ordered node
            n += 1
            okv = nan_rejecting(nd.ast.value) or any(pol and nan_rejecting(ast.parse(txt, mode="eval").body) for txt, pol in path_facts(ctx, nd.id))
            chk.ob(rule, f"{qual}: `{seg(nd.ast, 40)}` is true only for a node that is ordered with the knots", okv, loc=r.loc(ctx, nd.ast),
                   detail="" if okv else f"{qual}: `{seg(nd.ast, 50)}` can be true for a NaN: the node counts as valid and the binary search of span() never ends",
                   func=qual, construct="NaN passes the validity test")
            continue
        if not (isinstance(nd.ast, ast.Return) and isinstance(nd.ast.value, ast.Constant) and nd.ast.value.value is True):
            continue
        n += 1
        facts = path_facts(ctx, nd.id)
        ok = False
        for txt, pol in facts:
            try:
                e = ast.parse(txt, mode="eval").body
            except SyntaxError:
                continue
            if not any(isinstance(y, ast.Name) and y.id == node for y in ast.walk(e)):
                continue
            if isinstance(e, ast.Compare):
                if pol and all(isinstance(o, (ast.Lt, ast.LtE, ast.Gt, ast.GtE, ast.Eq)) for o in e.ops):
                    ok = True
                if not pol and len(e.ops) == 1 and isinstance(e.ops[0], ast.NotEq):
                    ok = True
            elif isinstance(e, ast.Call):
                fn = seg(e.func).split(".")[-1]
                if (pol and fn == "isfinite") or (not pol and fn == "isnan"):
                    ok = True
        chk.ob(rule, f"{qual}: `return True` only for a node that is ordered with the knots", ok, loc=r.loc(ctx, nd.ast),
               detail="" if ok else f"{qual}: `return True` is reached with no test that a NaN fails (on the way: {', '.join(sorted(('' if p_ else 'not ') + t_ for t_, p_ in facts)) or 'none'}): both `{node} < umin` and `umax < {node}` are false for a NaN, the node counts as valid, and the binary search of span() never ends — curve(float('nan')) hangs instead of raising ValueError",
               func=qual, construct="NaN passes the validity test")
    chk.floor(rule, f"`return True` sites of {qual}", n, 1)
    return n


# ---------------------------------------------------------------------------------------------------------
# POLY-ONLY (parameter form): the polynomial basis is evaluated only where the weights are None
def poly_only_param(r: R, chk, qual: str, weights: str = "weights", callee_suffix: str = "eval_spline_nodes", rule="POLY-ONLY", floor: int = 1):
    """R_i differs from N_i for every degree >= 1 as soon as the weights are not all equal (also for degree 1: the curve traces the
    same polygon but with another parametrisation), so the polynomial evaluation may stand in for the rational one only under
    `weights is None`."""
    ctx = r.root(qual)
    n = 0
    for cr in ctx.calls:
        if not any(f.qual.endswith(callee_suffix) for f in cr.callees):
            continue
        n += 1
        facts = path_facts(ctx, cr.cfgnode)
        ok = (f"{weights} is None", True) in facts or (f"{weights} is not None", False) in facts
        chk.ob(rule, f"{qual}: `{seg(cr.node, 40)}` only where `{weights} is None`", ok, loc=r.loc(ctx, cr.node),
               detail="" if ok else f"{qual}: `{seg(cr.node, 60)}` (the polynomial basis) can be reached with weights that are not None (tests on the way: {', '.join(sorted(('' if p_ else 'not ') + t_ for t_, p_ in facts)) or 'none'}): the collocation matrix of a rational curve is built from N_i instead of R_i = w_i N_i / sum w_k N_k — different functions for every degree >= 1 — so the fit is not the least-squares fit in the curve's own space",
               func=qual, construct="polynomial basis for a rational curve")
    chk.floor(rule, f"calls of {callee_suffix} in {qual}", n, floor)
    return n


# ---------------------------------------------------------------------------------------------------------
# SPANS-UNION: the Gram matrices are integrated span by span of the UNION of both knot sets
def _union_operands(e):
    """operands of a set union written as set(A + B), set(A) | set(B), set(A).union(B), {*A, *B}, through sorted / list / tuple;
    ('inter', ...) for an intersection; None for anything else"""
    while isinstance(e, ast.Call) and seg(e.func) in ("sorted", "list", "tuple", "np.unique", "np.array") and e.args:
        e = e.args[0]
    if isinstance(e, ast.Call) and seg(e.func) in ("set", "frozenset") and len(e.args) == 1:
        inner = e.args[0]
        if isinstance(inner, ast.BinOp) and isinstance(inner.op, ast.Add):
            return ("union", [inner.left, inner.right])
        return ("single", [inner])
    if isinstance(e, ast.BinOp) and isinstance(e.op, (ast.BitOr, ast.BitAnd)):
        l, r_ = _union_operands(e.left), _union_operands(e.right)
        ops = (l[1] if l else [e.left]) + (r_[1] if r_ else [e.right])
        return ("union" if isinstance(e.op, ast.BitOr) else "inter", ops)
    if isinstance(e, ast.Call) and isinstance(e.func, ast.Attribute) and e.func.attr in ("union", "intersection") and e.args:
        l = _union_operands(e.func.value)
        ops = (l[1] if l else [e.func.value]) + list(e.args)
        return ("union" if e.func.attr == "union" else "inter", ops)
    if isinstance(e, ast.Set) and all(isinstance(x, ast.Starred) for x in e.elts):
        return ("union", [x.value for x in e.elts])
    if isinstance(e, ast.BinOp) and isinstance(e.op, ast.Add):
        return ("union", [e.left, e.right])
    return None


def spans_union(r: R, chk, qual: str, rule="SPANS-UNION"):
    """Products of basis functions of the source and of the target space are polynomial only between consecutive knots of the UNION
    of both knot sets; a fixed rule per span of one of the two vectors (or of their intersection) integrates across a breakpoint of
    the other basis: the Gram matrices are wrong (or singular) as soon as the other space has a knot of its own."""
    ctx = r.root(qual)
    fi = ctx.fi
    fn = fi.node
    pos = _block_defs(fn)
    kvparams = [p for p in fi.params if "knotvector" in p.lower()]
    n = 0
    for lp in ast.walk(fn):
        if not isinstance(lp, ast.For):
            continue
        x = _consecutive_pairs(lp.iter)
        if x is None or not isinstance(x, ast.Name):
            continue
        # only the loop that integrates: it calls the evaluation of both bases
        if not any(isinstance(c, ast.Call) and seg(c.func).endswith(("eval_rational_nodes", "eval_spline_nodes")) for c in ast.walk(lp)):
            continue
        n += 1
        d = reaching_assign(fn, lp, x.id, pos)
        expr = d.value if d is not None else None
        form = _union_operands(expr) if expr is not None else None
        why = ""
        ok = False
        if form is None:
            why = f"`{x.id}` is not written as a union of two knot sets (`{seg(expr, 50) if expr is not None else '?'}`)"
        elif form[0] != "union":
            why = f"`{seg(expr, 50)}` is {'an intersection' if form[0] == 'inter' else 'one knot set only'}"
        else:
            srcs = []
            for o in form[1]:
                ro = resolve_reaching(fn, o, d, params=(), pos=pos)
                srcs.append({y.id for y in ast.walk(ro) if isinstance(y, ast.Name) and y.id in kvparams})
            seen = set().union(*srcs) if srcs else set()
            ok = len(kvparams) >= 2 and all(p in seen for p in kvparams[:2])
            if not ok:
                why = f"`{seg(expr, 50)}` is built from {sorted(seen) or 'neither knot vector'} only"
        chk.ob(rule, f"{qual}: the integration loop over `{seg(lp.iter, 40)}` runs over the union of both knot sets", ok, loc=f"{fi.module}.py:{lp.lineno}",
               detail="" if ok else f"{qual}: the span-by-span quadrature runs over `{seg(lp.iter, 40)}`, but {why}: between two such points the other basis still has a breakpoint, the integrands are only piecewise polynomial there and the fixed rule is not exact — the Gram matrices are wrong (singular when one span holds more basis functions than nodes), so the projection is not the L2 projection and refining one operand changes / breaks the result",
               func=qual, construct="quadrature spans are not the union of both knot sets")
    chk.floor(rule, f"span-by-span integration loops in {qual}", n, 1)
    return n


# ---------------------------------------------------------------------------------------------------------
# LIMITS-RAW: the ends of the interval are elements of the vector, not survivors of the tolerance-based de-duplication
def limits_raw(r: R, chk, qual: str = "heavy.ImmutableKnotVector.limits", rule="LIMITS-RAW"):
    """`knots` merges values that are closer than the knot tolerance and keeps the first it meets: an interior knot within that
    tolerance of umax makes umax itself disappear from `knots`.  `limits` decides validity of nodes, so it has to read the two
    elements U[degree], U[npts] themselves."""
    fi = r.prog.func(qual) if r.has(qual) else None
    if fi is None:
        cand = [f for f in r.prog.all_functions() if f.qual.endswith("ImmutableKnotVector.limits") or f.qual.endswith("ImmutableKnotVector.limits.getter")]
        if not cand:
            chk.floor(rule, "the limits property of ImmutableKnotVector", 0, 1)
        fi = cand[0]
    conts, elems, is_dd = dedup_taint(fi)
    n = 0
    for ret in ast.walk(fi.node):
        if not (isinstance(ret, ast.Return) and ret.value is not None):
            continue
        n += 1
        parts = ret.value.elts if isinstance(ret.value, (ast.Tuple, ast.List)) else [ret.value]
        bad = [p for p in parts if any((isinstance(x, ast.Attribute) and x.attr == "knots") or (isinstance(x, ast.Name) and x.id in conts) or (isinstance(x, ast.Call) and seg(x.func).endswith("get_unique")) for x in ast.walk(p))]
        ok = not bad
        chk.ob(rule, f"{fi.qual}: `{seg(ret, 40)}` reads the ends from the elements of the vector", ok, loc=f"{fi.module}.py:{ret.lineno}",
               detail="" if ok else f"{fi.qual}: `{seg(bad[0], 30)}` takes an end of the interval from the de-duplicated knots: a last interior knot within the knot tolerance (1e-6) of umax absorbs umax, `limits` then ends at that interior knot, umax itself is reported invalid and span / mult raise ValueError for a node inside the interval",
               func=fi.qual, construct="limits taken from the de-duplicated knots")
    chk.floor(rule, f"returns of {fi.qual}", n, 1)
    return n


# ---------------------------------------------------------------------------------------------------------
# STEP-APPLIED: a Newton iterate is handed back only after the step that was computed for it has been applied
def step_applied(r: R, chk, qual: str, rule="STEP-APPLIED"):
    """`x -= d` with `d` computed in the same iteration.  A `return <x>` that can be reached from the computation of `d` without
    passing the update hands back the iterate of BEFORE the last step: a start that is within the convergence threshold of the
    solution is returned as it is, off by up to that threshold instead of correct to rounding."""
    ctx = r.root(qual)
    fi = ctx.fi
    n = 0
    for upd in r.stmt_nodes(ctx):
        a = upd.ast
        x = d = None
        if isinstance(a, ast.AugAssign) and isinstance(a.op, ast.Sub) and isinstance(a.target, ast.Name) and isinstance(a.value, ast.Name):
            x, d = a.target.id, a.value.id
        elif isinstance(a, ast.Assign) and len(a.targets) == 1 and isinstance(a.targets[0], ast.Name) and isinstance(a.value, ast.BinOp) and isinstance(a.value.op, ast.Sub) and isinstance(a.value.left, ast.Name) and a.value.left.id == a.targets[0].id and isinstance(a.value.right, ast.Name):
            x, d = a.targets[0].id, a.value.right.id
        if x is None:
            continue
        steps = [s for s in r.stmt_nodes(ctx) if isinstance(s.ast, ast.Assign) and any(d in _target_names(t) for t in s.ast.targets)]
        if not steps:
            continue
        rets = [s for s in r.stmt_nodes(ctx) if isinstance(s.ast, ast.Return) and s.ast.value is not None and any(isinstance(y, ast.Name) and y.id == x for y in ast.walk(s.ast.value))]
        for st in steps:
            n += 1
            reach = ctx.cfg.reachable_from_succ(st.id, exc=False, avoid={upd.id, st.id})
            early = [rt for rt in rets if rt.id in reach]
            ok = not early
            chk.ob(rule, f"{qual}: `{seg(st.ast, 40)}` is applied (`{seg(upd.ast, 30)}`) before `{x}` is returned", ok, loc=r.loc(ctx, (early[0] if early else upd).ast),
                   detail="" if ok else f"{qual}: `{seg(early[0].ast, 40)}` can be reached from `{seg(st.ast, 40)}` without `{seg(upd.ast, 30)}`: the iterate of before the last Newton step is returned — a start within the convergence threshold of the crossing comes back unchanged, wrong by up to that threshold where the parameters have to be correct to rounding",
                   func=qual, construct=f"iterate {x} returned before the computed step is applied")
    chk.floor(rule, f"Newton steps in {qual}", n, 1)
    return n


# ---------------------------------------------------------------------------------------------------------
# ELEVATED-VECTOR: the knot vector that goes with Operations.degree_increase(U, t) is U + t * U.knots
def elevated_vector(r: R, chk, quals: List[str], rule="ELEVATED-VECTOR", floor: int = 1):
    """The matrix of `Operations.degree_increase(U, t)` maps onto the vector in which EVERY distinct knot of U is repeated t more
    times.  Where a function that asks for that matrix also writes `U + t * W`, W has to be the distinct knots of U — with the two
    ends only (`limits`, the Bezier idiom) the vector no longer matches the matrix as soon as U has an interior knot."""
    from .common import expand_locals

    n = 0
    for q in quals:
        fi = r.prog.func(q)
        calls = [c for c in ast.walk(fi.node) if isinstance(c, ast.Call) and seg(c.func).endswith("Operations.degree_increase") and len(c.args) >= 2]
        for c in calls:
            t_txt = seg(expand_locals(fi, c.args[1]))
            for b in ast.walk(fi.node):
                if not (isinstance(b, ast.BinOp) and isinstance(b.op, ast.Add)):
                    continue
                rhs = expand_locals(fi, b.right)
                if not (isinstance(rhs, ast.BinOp) and isinstance(rhs.op, ast.Mult)):
                    continue
                w = None
                if seg(rhs.left) == t_txt:
                    w = rhs.right
                elif seg(rhs.right) == t_txt:
                    w = rhs.left
                if w is None:
                    continue
                n += 1
                while isinstance(w, ast.Call) and seg(w.func) in ("tuple", "list") and w.args:
                    w = w.args[0]
                ok = isinstance(w, ast.Attribute) and w.attr == "knots"
                chk.ob(rule, f"{q}: `{seg(b, 50)}` repeats every distinct knot", ok, loc=f"{fi.module}.py:{b.lineno}",
                       detail="" if ok else f"{q}: `{seg(b, 60)}` goes with the matrix of `{seg(c, 50)}` but repeats `{seg(w, 30)}` instead of every distinct knot of the vector: with an interior knot the elevated vector has fewer knots than the matrix has rows — the operation on a rational spline and a polynomial curve of another degree raises / returns a wrong curve",
                       func=q, construct=f"elevated vector repeats {seg(w, 30)}")
    chk.floor(rule, "elevated knot vectors written next to Operations.degree_increase", n, floor)
    return n


# ---------------------------------------------------------------------------------------------------------
# TRUNC-FLOAT: no integer obtained by truncating a float quotient is used on the path
_TRUNC_CONTROL = "def control(n, i):\n    prod = 1\n    for j in range(i):\n        prod *= (n - j) / (i - j)\n    return int(prod)\n"


def _truncated_quotients(fn):
    """`int(x)` / `round(x)` / `math.floor(x)` where x is a local built with true divisions (`x *= a / b`, `x = y / z`)"""
    quot = set()
    for a in ast.walk(fn):
        if isinstance(a, ast.AugAssign) and isinstance(a.target, ast.Name) and (isinstance(a.op, ast.Div) or any(isinstance(b, ast.BinOp) and isinstance(b.op, ast.Div) for b in ast.walk(a.value))):
            quot.add(a.target.id)
        elif isinstance(a, ast.Assign) and len(a.targets) == 1 and isinstance(a.targets[0], ast.Name) and any(isinstance(b, ast.BinOp) and isinstance(b.op, ast.Div) for b in ast.walk(a.value)):
            quot.add(a.targets[0].id)
    out = []
    for c in ast.walk(fn):
        if isinstance(c, ast.Call) and seg(c.func) in ("int", "round", "math.floor", "math.trunc", "np.int64") and len(c.args) >= 1:
            a0 = c.args[0]
            # a count such as int(np.ceil(np.log2(a / b))) is not a value: only a bare quotient / a local built from quotients
            if (isinstance(a0, ast.Name) and a0.id in quot) or (isinstance(a0, ast.BinOp) and isinstance(a0.op, (ast.Div, ast.Mult)) and any(isinstance(b, ast.BinOp) and isinstance(b.op, ast.Div) for b in ast.walk(a0)) and not any(isinstance(b, ast.Call) for b in ast.walk(a0))):
                out.append(c)
    return out


def trunc_float(r: R, chk, entries: List[str], rule="TRUNC-FLOAT"):
    """A binomial / factorial computed as a product of float quotients and cut with int() is one too small as soon as a rounding
    error falls below the integer (binom(7, 5) = 20, binom(8, 3) = 55): every function reachable from the entries is scanned for
    an integer obtained that way.  Expected count zero: positive control embedded."""
    from .divisions import reachable_functions

    ctl = _truncated_quotients(ast.parse(_TRUNC_CONTROL).body[0])
    n = 0
    for q in reachable_functions(r, entries):
        fi = r.prog.func(q) if r.has(q) else None
        if fi is None or fi.module == "__classes__":
            continue
        n += 1
        for c in _truncated_quotients(fi.node):
            chk.ob(rule, f"{q}: `{seg(c, 30)}` is not a truncated float quotient", False, loc=f"{fi.module}.py:{c.lineno}",
                   detail=f"{q}: `{seg(c, 40)}` cuts a product of float quotients down to an integer: a rounding error just below the integer makes it one too small (binom(7, 5) = 20 instead of 21) — reached from {entries[0]}, the coefficients built from it are wrong from a certain degree on, silently",
                   func=q, construct=f"integer by truncation of a float quotient: {seg(c, 30)}")
    chk.ob(rule, f"no integer on the path is a truncated float quotient ({n} functions reachable from {', '.join(entries)}; positive control {'recognised' if ctl else 'MISSING'})", bool(ctl), loc="",
           detail="" if ctl else "the positive control of the rule is not recognised any more")
    return n


# ---------------------------------------------------------------------------------------------------------
# LEN-WEIGHTS: a weight vector of the wrong length is refused before it is stored
SHAPE_CHECKING = ("np.dot", "np.matmul", "np.inner", "np.tensordot", "np.einsum")


def _value_aliases(fn, seed: str) -> Set[str]:
    """locals that hold the same sequence as `seed` (plain copies, tuple / list / np.array of it, results of private helpers
    that are handed it — `newweights = _weights_as_tuple(value)`)"""
    aliases = {seed}
    grow = True
    while grow:
        grow = False
        for a_ in ast.walk(fn):
            if isinstance(a_, ast.Assign) and len(a_.targets) == 1 and isinstance(a_.targets[0], ast.Name) and a_.targets[0].id not in aliases:
                v_ = a_.value
                if isinstance(v_, ast.Call) and v_.args and isinstance(v_.args[0], ast.Name) and v_.args[0].id in aliases and (seg(v_.func) in ("tuple", "list", "np.array", "np.asarray") or seg(v_.func).split(".")[-1].startswith("_")):
                    aliases.add(a_.targets[0].id)
                    grow = True
                elif isinstance(v_, ast.Name) and v_.id in aliases:
                    aliases.add(a_.targets[0].id)
                    grow = True
    return aliases


def _contracted(r: R, f, param: str, depth: int = 3):
    """(shape-checking use, zip use) of the parameter `param` of the function `f`, following it into the functions it is
    handed to (a few levels)"""
    aliases = _value_aliases(f.node, param)
    for c in ast.walk(f.node):
        if isinstance(c, ast.Call) and seg(c.func) in SHAPE_CHECKING and any(isinstance(x, ast.Name) and x.id in aliases for x in c.args):
            return c, None
        if isinstance(c, ast.BinOp) and isinstance(c.op, ast.MatMult) and any(isinstance(x, ast.Name) and x.id in aliases for x in (c.left, c.right)):
            return c, None
    zips = [c for c in ast.walk(f.node) if isinstance(c, ast.Call) and seg(c.func) == "zip" and any(isinstance(x, ast.Name) and x.id in aliases for x in c.args)]
    if depth > 0 and r.has(f.qual) and f.qual in r.A.roots:
        for cr in r.A.roots[f.qual].calls:
            node = cr.node
            if not isinstance(node, ast.Call):
                continue
            for g in cr.callees:
                gparams = [p for p in g.params if p not in ("self", "cls")]
                for k, a in enumerate(node.args):
                    if isinstance(a, ast.Name) and a.id in aliases and k < len(gparams):
                        use, z = _contracted(r, g, gparams[k], depth - 1)
                        if use is not None:
                            return use, None
                        zips = zips or ([z] if z is not None else [])
    return None, (zips[0] if zips else None)


def len_weights(r: R, chk, setter: str = "curves.BaseCurve.weights.setter", rule="LEN-WEIGHTS"):
    """len(weights) = npts is part of the state invariant.  The setter has no explicit length test: what refuses a vector of the
    wrong length is the contraction of the weights with the npts-row basis matrix inside the root finder (numpy checks the
    shapes).  Either an explicit comparison of len(value) with npts guards the store, or the value reaches a shape-checking
    contraction (np.dot, @, np.inner ...) with a matrix sized by the knot vector — zip() instead truncates silently."""
    ctx = r.root(setter)
    fi = ctx.fi
    val = next((p for p in fi.params if p not in ("self", "cls")), None)
    aliases = _value_aliases(fi.node, val)
    explicit = [c for c in ast.walk(fi.node) if isinstance(c, ast.Compare) and any(isinstance(x, ast.Call) and seg(x.func) == "len" and x.args and isinstance(x.args[0], ast.Name) and x.args[0].id in aliases for x in ast.walk(c)) and "npts" in seg(c)]
    found = []
    why = "the value is handed to no function that contracts it with the basis"
    if not explicit:
        use, z = _contracted(r, fi, val)
        if use is not None:
            found.append(use)
        elif z is not None:
            why = f"it is consumed through `{seg(z, 40)}`, which stops at the shorter sequence"
    ok = bool(explicit) or bool(found)
    chk.ob(rule, f"{setter}: a weight vector whose length is not npts is refused before the store", ok, loc=f"{fi.module}.py:{fi.node.lineno}",
           detail="" if ok else f"{setter}: no comparison of len({val}) with npts guards the store, and {why}: a weight vector that is too long (no sign change in its first npts entries) is stored — len(weights) != npts, the curve cannot be evaluated",
           func=setter, construct="length of the weights not checked")
    return 1


# ---------------------------------------------------------------------------------------------------------
# QUAD-ORDER: the rule used span by span is exact for the squares of both bases
def quad_order(r: R, chk, qual: str = "heavy.LeastSquare.func2func", rule="QUAD-ORDER", max_degree: int = 6):
    """Between two knots of the union the entries of the Gram matrices are polynomials of degree 2p (source x source), p + q and
    2q (target x target).  The node families used here (open Newton-Cotes for exact data, Chebyshev nodes otherwise) are
    interpolatory: n nodes integrate degree < n exactly (C10).  The number of nodes is folded for all 0 <= p, q <= 6 and has to
    exceed 2 max(p, q); with fewer nodes GG (or FF) is integrated inexactly and the result is not the L2 projection / the error is
    not the integral of the squared residual for a source outside the target space."""
    fi = r.prog.func(qual)
    fn = fi.node
    # the size handed to the node / weight generators
    sizes = []
    for c in ast.walk(fn):
        if isinstance(c, ast.Call) and (seg(c.func).startswith("NodeSample.") or seg(c.func).startswith("IntegratorArray.")) and len(c.args) == 1:
            sizes.append(c.args[0])
    chk.floor(rule, f"node / weight generators called in {qual}", len(sizes), 2)
    names = {seg(s_) for s_ in sizes}
    bad = None
    undecided = False
    pnames = [a.targets[0].id for a in ast.walk(fn) if isinstance(a, ast.Assign) and len(a.targets) == 1 and isinstance(a.targets[0], ast.Name) and isinstance(a.value, ast.Attribute) and a.value.attr == "degree"]
    old = next((x for x in pnames if "old" in x), None)
    new = next((x for x in pnames if "new" in x), None)
    if old is None or new is None or len(names) != 1:
        chk.note(f"{rule}: {qual}: the degrees / the size of the rule could not be identified: not decided")
        return 0
    size = sizes[0]
    pos = _block_defs(fn)
    holder = next(st for st in ast.walk(fn) if isinstance(st, ast.stmt) and id(st) in pos and any(x is size for x in ast.walk(st)) and not any(isinstance(s2, ast.stmt) and s2 is not st and any(x is size for x in ast.walk(s2)) for s2 in ast.walk(st)))
    expr = resolve_reaching(fn, size, holder, keep=(old, new), pos=pos)
    for p in range(0, max_degree + 1):
        for q_ in range(0, max_degree + 1):
            v = _ev(expr, {old: p, new: q_}, 0)
            if v is UNK or not isinstance(v, int):
                undecided = True
                continue
            if v < 2 * max(p, q_) + 1 and bad is None:
                bad = (p, q_, v)
    if undecided and bad is None:
        chk.note(f"{rule}: {qual}: `{seg(expr, 50)}` could not be folded: not decided")
        return 0
    chk.ob(rule, f"{qual}: `{seg(expr, 50)}` nodes integrate the squares of both bases exactly (degrees 0..{max_degree})", bad is None, loc=f"{fi.module}.py:{holder.lineno}",
           detail="" if bad is None else f"{qual}: for a source of degree {bad[0]} and a target of degree {bad[1]} the rule has {bad[2]} nodes (`{seg(expr, 40)}`), exact for degree < {bad[2]} only, but the Gram matrix of the {'target' if bad[1] >= bad[0] else 'source'} basis has entries of degree {2 * max(bad[0], bad[1])}: the matrices are inexact, the fitted curve is not the L2 projection (the residual is not orthogonal to the target basis) and exact and float input take different wrong answers",
           func=qual, construct="quadrature too short for the squares of the bases")
    return 1


# ---------------------------------------------------------------------------------------------------------
# AXIS-ORDER: the table of pairwise point products has its axes in the order of the product matrix (a, ., b)
def _stmt_map(fn):
    """for every node of the function: the innermost statement that contains it"""
    out = {}

    def rec(node, stmt):
        for ch in ast.iter_child_nodes(node):
            st = ch if isinstance(ch, ast.stmt) else stmt
            out[id(ch)] = st
            rec(ch, st)

    rec(fn, None)
    return out


def operand_roots(fn, e, at, pos, operands, depth: int = 8):
    """which of the `operands` (parameter names) the value of `e` read at statement `at` is computed from — data provenance only
    (no control dependence): through locals, element-wise through tuple assignments, through loop / comprehension targets"""
    out = set()
    comp_targets = {}
    for c in ast.walk(fn):
        if isinstance(c, (ast.ListComp, ast.GeneratorExp, ast.SetComp, ast.DictComp)):
            for g in c.generators:
                for nm in _target_names(g.target):
                    comp_targets.setdefault(nm, []).append(g.iter)
    loops = [l for l in ast.walk(fn) if isinstance(l, ast.For)]

    def go(x, at_, d):
        for n in ast.walk(x):
            if not (isinstance(n, ast.Name) and isinstance(n.ctx, ast.Load)):
                continue
            if n.id in operands:
                out.add(operands.index(n.id))
                continue
            if d <= 0:
                continue
            st = reaching_assign(fn, at_, n.id, pos)
            if isinstance(st, ast.Assign):
                tg = st.targets[0]
                if isinstance(tg, ast.Tuple) and isinstance(st.value, ast.Tuple) and len(tg.elts) == len(st.value.elts):
                    for t_, v_ in zip(tg.elts, st.value.elts):
                        if n.id in _target_names(t_):
                            go(v_, st, d - 1)
                else:
                    go(st.value, st, d - 1)
                continue
            for l in loops:
                if n.id in _target_names(l.target) and any(y is n for b in l.body for y in ast.walk(b)):
                    go(l.iter, l, d - 1)
            for it in comp_targets.get(n.id, []):
                go(it, at_, d - 1)

    go(e, at, depth)
    return out


def _pair_tables(fn):
    """tables indexed [outer][inner]: `[[f(p, q) for q in Q] for p in P]`, `for p in P: T.append([f(p, q) for q in Q])` and
    `for p in P: row = []; for q in Q: row.append(f(p, q)); T.append(row)` — (node, outer iterable, inner iterable)"""
    out = []
    inner_of_loop = set()
    for c in ast.walk(fn):
        if isinstance(c, ast.For):
            for s in c.body:
                for x in ast.walk(s):
                    if isinstance(x, ast.Call) and isinstance(x.func, ast.Attribute) and x.func.attr == "append" and len(x.args) == 1:
                        a0 = x.args[0]
                        if isinstance(a0, ast.ListComp) and len(a0.generators) == 1 and not isinstance(a0.elt, ast.ListComp):
                            out.append((c, c.iter, a0.generators[0].iter))
                            inner_of_loop.add(id(a0))
            inner = [s for s in c.body if isinstance(s, ast.For)]
            if len(inner) == 1 and any(isinstance(x, ast.Call) and isinstance(x.func, ast.Attribute) and x.func.attr == "append" for s in inner[0].body for x in ast.walk(s)) \
                    and any(isinstance(s, ast.Expr) and isinstance(s.value, ast.Call) and isinstance(s.value.func, ast.Attribute) and s.value.func.attr == "append" for s in c.body):
                out.append((c, c.iter, inner[0].iter))
    for c in ast.walk(fn):
        if isinstance(c, ast.ListComp) and isinstance(c.elt, ast.ListComp) and len(c.generators) == 1 and len(c.elt.generators) == 1:
            out.append((c, c.generators[0].iter, c.elt.generators[0].iter))
    return out


def axis_order(r: R, chk, qual: str, helper_suffix: str = "mul_spline_curve", rule="AXIS-ORDER", floor: int = 1):
    """`mul_spline_curve(U_a, U_b)[a][i][b]` multiplies basis function a of the FIRST vector with b of the SECOND.  A table of
    pairwise products built with the loop over P outside and the loop over Q inside is indexed [P][Q]; contracted over both axes
    with matrix[:, i, :] its outer loop therefore has to run over the points of the operand whose knot vector was passed first."""
    ctx = r.root(qual)
    fi = ctx.fi
    fn = fi.node
    pos = _block_defs(fn)
    stmt_of = _stmt_map(fn)
    operands = list(fi.params[:2])

    def root(e):
        rs = operand_roots(fn, e, stmt_of.get(id(e)), pos, operands)
        return next(iter(rs)) if len(rs) == 1 else None

    n = 0
    calls = [c for c in ast.walk(fn) if isinstance(c, ast.Call) and seg(c.func).endswith(helper_suffix) and len(c.args) >= 2]
    for c in calls:
        first, second = root(c.args[0]), root(c.args[1])
        if first is None or second is None or first == second:
            continue
        for node, oit, iit in _pair_tables(fn):
            outer, inner = root(oit), root(iit)
            if outer is None or inner is None or outer == inner:
                continue
            n += 1
            ok = outer == first and inner == second
            chk.ob(rule, f"{qual}: `{seg(node, 50)}` is indexed like `{seg(c, 40)}`", ok, loc=r.loc(ctx, node),
                   detail="" if ok else f"{qual}: the table `{seg(node, 60)}` is indexed [{fi.params[outer]}][{fi.params[inner]}] but the product matrix of `{seg(c, 50)}` is indexed [{fi.params[first]}][.][{fi.params[second]}]: contracted over both axes, basis function a of one curve meets point b of the other — a shape error when the curves have different numbers of control points, a silently wrong curve when they happen to have the same number on different knot vectors",
                   func=qual, construct="pairwise product table transposed")
    chk.floor(rule, f"tables of pairwise point products next to {helper_suffix} in {qual}", n, floor)
    return n


# ---------------------------------------------------------------------------------------------------------
# NP-SCALAR: an element of a numpy array is made a Python number before it becomes a knot / weight of the caller's class
def np_scalar(r: R, chk, quals: List[str], rule="NP-SCALAR", floor: int = 1):
    """`Fraction(np.int64(3))` keeps the fixed-width integer as numerator: the first comparison with a float (the knot tolerance)
    multiplies it by a 53-bit denominator and overflows.  Elements of arrays made by numpy (`np.random.*`, `np.arange`,
    `np.linspace`, `np.array` of numbers) are converted with int() / float() before `cls(...)` / `Fraction(...)` sees them."""
    n = 0
    for q in quals:
        fi = r.prog.func(q)
        arrays, elems = set(), set()
        changed = True
        while changed:
            changed = False
            for a in ast.walk(fi.node):
                if isinstance(a, ast.Assign) and len(a.targets) == 1 and isinstance(a.targets[0], ast.Name):
                    v = a.value
                    if isinstance(v, ast.Call) and seg(v.func).startswith("np.") and not any(k.arg == "dtype" and "object" in seg(k.value) for k in v.keywords):
                        if a.targets[0].id not in arrays:
                            arrays.add(a.targets[0].id)
                            changed = True
                if isinstance(a, (ast.For, ast.comprehension)) and isinstance(a.iter, ast.Name) and a.iter.id in arrays:
                    for x in ast.walk(a.target):
                        if isinstance(x, ast.Name) and x.id not in elems:
                            elems.add(x.id)
                            changed = True
        for c in ast.walk(fi.node):
            if not (isinstance(c, ast.Call) and isinstance(c.func, ast.Name) and c.func.id in ("cls", "Fraction", "numbtype") and c.args):
                continue
            n += 1
            a0 = c.args[0]
            raw = (isinstance(a0, ast.Name) and a0.id in elems) or (isinstance(a0, ast.Subscript) and isinstance(a0.value, ast.Name) and a0.value.id in arrays)
            chk.ob(rule, f"{q}: `{seg(c, 40)}` is not given a numpy scalar", not raw, loc=f"{fi.module}.py:{c.lineno}",
                   detail="" if not raw else f"{q}: `{seg(c, 40)}` receives an element of a numpy array as it is: with cls = Fraction the fixed-width integer stays inside the Fraction, and the first comparison with a float tolerance overflows (OverflowError) — the generator fails for cls = Fraction on every draw, where exact Fraction knots are promised",
                   func=q, construct=f"numpy scalar handed to {c.func.id}")
    chk.floor(rule, "conversions to the caller's number class in the generators", n, floor)
    return n



# ---------------------------------------------------------------------------------------------------------
# SCALE-REACHES: a function that divides by the length of the parameter interval hands back nothing that skipped the division
def scale_reaches(r: R, chk, quals: List[str], rule="SCALE-REACHES", floor: int = 1):
    """d/du of a curve over [a, b] carries the factor 1 / (b - a).  In a derivative helper that divides by a difference of knots,
    every returned matrix has to be computed from the divided value: a second return that still uses the matrix of before the
    division gives the derivative with respect to the reference parameter — right on [0, 1], wrong on every other interval."""
    n = 0
    for q in quals:
        fi = r.prog.func(q)
        fn = fi.node
        kv = [p for p in fi.params if "knot" in p.lower()]

        # single knots and differences of knots may travel through locals (`umin, umax = U[0], U[-1]`, `length = umax - umin`)
        knot_names, diff_names = set(), set()

        def knotlike(e):
            return (isinstance(e, ast.Subscript) and isinstance(e.value, ast.Name) and e.value.id in kv and not isinstance(e.slice, ast.Slice)) or (isinstance(e, ast.Name) and e.id in knot_names)

        def knot_diff(e):
            return (isinstance(e, ast.BinOp) and isinstance(e.op, ast.Sub) and knotlike(e.left) and knotlike(e.right)) or (isinstance(e, ast.Name) and e.id in diff_names)

        grow = True
        while grow:
            grow = False
            for a in ast.walk(fn):
                if not (isinstance(a, ast.Assign) and len(a.targets) == 1):
                    continue
                pairs = []
                t, v = a.targets[0], a.value
                if isinstance(t, ast.Name):
                    pairs = [(t, v)]
                elif isinstance(t, ast.Tuple) and isinstance(v, ast.Tuple) and len(t.elts) == len(v.elts):
                    pairs = [(x, y) for x, y in zip(t.elts, v.elts) if isinstance(x, ast.Name)]
                for x, y in pairs:
                    if knotlike(y) and x.id not in knot_names and x.id not in kv:
                        knot_names.add(x.id)
                        grow = True
                    if knot_diff(y) and x.id not in diff_names:
                        diff_names.add(x.id)
                        grow = True

        def scaled(e):
            """every alternative of `e` (path merges of resolve_reaching) contains a division by a knot difference"""
            if isinstance(e, ast.IfExp) and isinstance(e.test, ast.Name) and e.test.id == "__path__":
                return scaled(e.body) and scaled(e.orelse)
            if isinstance(e, ast.BinOp) and isinstance(e.op, ast.Div) and any(knot_diff(x) for x in ast.walk(e.right)):
                return True
            return any(scaled(c) for c in ast.iter_child_nodes(e) if isinstance(c, ast.expr))

        divides = any((isinstance(a, ast.AugAssign) and isinstance(a.op, ast.Div) and any(knot_diff(x) for x in ast.walk(a.value))) or (isinstance(a, ast.BinOp) and isinstance(a.op, ast.Div) and any(knot_diff(x) for x in ast.walk(a.right))) for a in ast.walk(fn))
        if not divides:
            continue
        pos = _block_defs(fn)
        for ret in ast.walk(fn):
            if not (isinstance(ret, ast.Return) and ret.value is not None):
                continue
            n += 1
            ex = resolve_reaching(fn, ret.value, ret, keep=tuple(kv) + tuple(sorted(knot_names | diff_names)), params=fi.params, pos=pos)
            ok = scaled(ex)
            chk.ob(rule, f"{q}: `{seg(ret, 40)}` is computed from the value divided by the knot difference", ok, loc=f"{fi.module}.py:{ret.lineno}",
                   detail="" if ok else f"{q}: `{seg(ret, 50)}` does not depend on the division by the length of the parameter interval that the function performs elsewhere: this return hands back the derivative with respect to the reference parameter — correct on [0, 1] only, off by the factor 1 / (b - a) on every other interval (Newton steps of the projection too long by that factor)",
                   func=q, construct="return bypasses the division by the interval length")
    chk.floor(rule, "returns of derivative helpers that divide by a knot difference", n, floor)
    return n


# ---------------------------------------------------------------------------------------------------------
# DTYPE-AGREE: what is accumulated in place into an array of a chosen number type is built with that number type
def dtype_agree(r: R, chk, qual: str = "heavy.LeastSquare.func2func", rule="DTYPE-AGREE"):
    """`X = np.zeros(shape, dtype=T)` ... `X += a * f(...)`: numpy refuses an in-place update whose result has to be cast from
    object to float64.  The tables of nodes / weights are tuples that may hold Fractions also on the float path (the small
    Chebyshev tables), so every array built from such a table that is a factor of the accumulated expression carries `dtype=T` —
    as the sampled basis values already do."""
    fi = r.prog.func(qual)
    fn = fi.node
    targets = {}
    for a in ast.walk(fn):
        if isinstance(a, ast.Assign) and len(a.targets) == 1 and isinstance(a.targets[0], ast.Name) and isinstance(a.value, ast.Call) and seg(a.value.func) in ("np.zeros", "np.empty", "np.ones"):
            dt = next((k.value for k in a.value.keywords if k.arg == "dtype"), None)
            if dt is not None and isinstance(dt, ast.Name):
                targets[a.targets[0].id] = dt.id
    arrays = {}
    for a in ast.walk(fn):
        if isinstance(a, ast.Assign) and len(a.targets) == 1 and isinstance(a.targets[0], ast.Name) and isinstance(a.value, ast.Call) and seg(a.value.func) in ("np.array", "np.asarray"):
            dt = next((k.value for k in a.value.keywords if k.arg == "dtype"), None)
            arrays.setdefault(a.targets[0].id, []).append((a, seg(dt) if dt is not None else None))
    n = 0
    for a in ast.walk(fn):
        if not (isinstance(a, ast.AugAssign) and isinstance(a.target, ast.Name) and a.target.id in targets):
            continue
        want = targets[a.target.id]
        # names the accumulated expression is made of, through the loop variables that walk an array (`for k, w in enumerate(W)`)
        used = {x.id for x in ast.walk(a.value) if isinstance(x, ast.Name)}
        for lp in ast.walk(fn):
            if isinstance(lp, ast.For) and any(x is a for x in ast.walk(lp)):
                tnames = {x.id for x in ast.walk(lp.target) if isinstance(x, ast.Name)}
                if tnames & used:
                    used |= {x.id for x in ast.walk(lp.iter) if isinstance(x, ast.Name)}
        for nm in sorted(used & set(arrays)):
            for st, dt in arrays[nm]:
                n += 1
                ok = dt == want
                chk.ob(rule, f"{qual}: `{seg(st, 40)}`, a factor of `{a.target.id} += …`, is built with dtype={want}", ok, loc=f"{fi.module}.py:{st.lineno}",
                       detail="" if ok else f"{qual}: `{seg(st, 50)}` has no `dtype={want}` although it is a factor of the in-place update `{seg(a, 50)}` of an array created with dtype={want}: the table may hold Fractions on the float path (Chebyshev weights for 3 nodes or fewer), the product is an object array and numpy refuses to cast it into the float64 accumulator (UFuncTypeError) — knot_remove / degree_decrease of a float curve of degree 0 raise instead of succeeding or refusing with ValueError",
                       func=qual, construct=f"factor {nm} without the accumulator's dtype")
    chk.floor(rule, f"arrays that are factors of an in-place accumulation in {qual}", n, 3)
    return n


# ---------------------------------------------------------------------------------------------------------
# UNION-DEGREE: U | V writes every multiplicity in the common degree before it takes the maximum
def union_degree(r: R, chk, qual: str = "heavy.ImmutableKnotVector.__or__", rule="UNION-DEGREE"):
    """A spline of degree p with a knot of multiplicity m there is C^(p-m); written in degree r = max(p, q) the same continuity
    needs multiplicity m + (r - p).  `U | V` has to hold every spline over U and over V, so what it compares per knot is the
    multiplicity raised by the degree difference: the value stored into the table of multiplicities depends — through its
    reaching definitions — on a `.degree`."""
    fi = r.prog.func(qual)
    fn = fi.node
    pos = _block_defs(fn)
    n = 0
    for st in ast.walk(fn):
        if not (isinstance(st, ast.Assign) and len(st.targets) == 1 and isinstance(st.targets[0], ast.Subscript) and isinstance(st.targets[0].value, ast.Name) and "mult" in st.targets[0].value.id.lower()):
            continue
        n += 1
        ex = resolve_reaching(fn, st.value, st, params=fi.params, pos=pos)
        ok = any(isinstance(x, ast.Attribute) and x.attr == "degree" for x in ast.walk(ex))
        chk.ob(rule, f"{qual}: `{seg(st, 40)}` stores a multiplicity written in the common degree", ok, loc=f"{fi.module}.py:{st.lineno}",
               detail="" if ok else f"{qual}: `{seg(st, 50)}` stores `{seg(ex, 50)}`, which does not involve the degree of either operand: for different degrees the multiplicities of the lower-degree vector are not raised by the difference, the union is not a space that holds its splines — A + B raises (shapes do not match) and A / B is silently wrong for polynomial curves of different degrees when the lower-degree curve has an interior knot",
               func=qual, construct="union multiplicity ignores the degrees")
    chk.floor(rule, f"stores into the table of multiplicities in {qual}", n, 1)
    # the raise by the degree difference is a statement about a knot OF THAT OPERAND: a knot the operand does not have keeps
    # multiplicity 0 (no constraint), not 0 + raised
    k = 0
    for b in ast.walk(fn):
        if not (isinstance(b, ast.BinOp) and isinstance(b.op, ast.Add)):
            continue
        call = next((x for x in (b.left, b.right) if isinstance(x, ast.Call) and isinstance(x.func, ast.Attribute) and x.func.attr in ("mult", "count") and len(x.args) == 1 and isinstance(x.args[0], ast.Name) and isinstance(x.func.value, ast.Name)), None)
        if call is None:
            continue
        vec, knot = call.func.value.id, call.args[0].id
        loops = [l for l in ast.walk(fn) if isinstance(l, (ast.For, ast.comprehension)) and knot in _target_names(l.target) and (isinstance(l, ast.comprehension) or any(y is b for s in l.body for y in ast.walk(s)))]
        if not loops:
            continue
        k += 1
        it = loops[-1].iter
        own = any(isinstance(x, ast.Name) and x.id == vec for x in ast.walk(it))
        guarded = any(isinstance(g, ast.If) and any(y is b for s in g.body for y in ast.walk(s)) and vec in seg(g.test) and knot in seg(g.test) for g in ast.walk(fn))
        ok = own or guarded
        chk.ob(rule, f"{qual}: `{seg(b, 40)}` is evaluated at the knots of `{vec}` itself", ok, loc=f"{fi.module}.py:{b.lineno}",
               detail="" if ok else f"{qual}: `{seg(b, 50)}` is evaluated for every `{knot}` of `{seg(it, 30)}`, not only for the knots of `{vec}`: a knot that `{vec}` does not have gets 0 + the degree difference instead of no constraint, so with degrees that differ by 2 or more the union carries surplus copies of the interior knots of the higher-degree operand — U | V is no longer the coarsest common refinement (KnotVector([0,0,0,0,1/2,1,1,1,1]) | KnotVector([0,0,1,1]) doubles the knot 1/2)",
               func=qual, construct="degree difference added at knots the operand does not have")
    chk.note(f"{rule}: {k} raised multiplicities `X.mult(knot) + d` examined in {qual}")
    return n


# ---------------------------------------------------------------------------------------------------------
# INPLACE-MIX: what is computed from one operand is not updated in place with what is computed from the other
def inplace_mix(r: R, chk, quals: List[str], rule="INPLACE-MIX", floor: int = 0):
    """`x = f(A); x += g(B)`: numpy keeps the dtype of x and refuses the update when g(B) is of a wider kind (int points and float
    points, float points and Fraction points): A + B raises where B + A works.  In the curve-curve arms of the operators an
    in-place update never has its target rooted in one operand only and its value in the other only."""
    n = 0
    for q in quals:
        ctx = r.root(q)
        fi = ctx.fi

        def roots(e):
            v = ctx.val(e)
            if v is None:
                return set()
            # the number type of an array of points / weights comes from the points / weights, not from the knot vectors
            return {d[1] for d in v.all_dep() if d[0] == "PF" and d[1] in (0, 1) and ("ctrlpoints" in d[2] or "weights" in d[2])}

        for a in ast.walk(fi.node):
            if not (isinstance(a, ast.AugAssign) and isinstance(a.target, ast.Name)):
                continue
            # the target just before the update: its last plain assignment
            d = reaching_assign(fi.node, a, a.target.id)
            if d is None:
                continue
            rt, rv = roots(d.value), roots(a.value)
            if not rt or not rv:
                continue
            n += 1
            ok = not (len(rt) == 1 and len(rv) == 1 and rt != rv)
            chk.ob(rule, f"{q}: `{seg(a, 50)}` does not force the number type of one operand on the other", ok, loc=r.loc(ctx, a),
                   detail="" if ok else f"{q}: `{seg(d, 40)}` is computed from `{fi.params[next(iter(rt))]}` alone and then updated in place with `{seg(a.value, 40)}`, computed from `{fi.params[next(iter(rv))]}` alone: the array keeps the dtype of the first and numpy refuses a value of a wider kind (int points + float points, float points + Fraction points: UFuncTypeError) — A + B raises where B + A works",
                   func=q, construct="in-place update across the two operands")
    chk.floor(rule, "in-place updates in the curve-curve operators examined", n, floor)
    return n


# ---------------------------------------------------------------------------------------------------------
# WALK-ONCE: a sequence argument is walked by one consumer only, unless it has been materialised first
def walk_once(r: R, chk, quals: List[str], rule="WALK-ONCE", floor: int = 1, only=None):
    """`list(nodes)` followed by `self.valid(nodes)`: a one-pass iterable (generator, map, iter) is exhausted by the first walk and
    the second sees nothing — the validity test passes vacuously and nodes outside the interval are inserted.  Until the parameter
    has been rebound to `tuple(p)` / `list(p)`, at most one call / loop may consume it."""
    n = 0
    for q in quals:
        fi = r.prog.func(q)
        for p in [p_ for p_ in fi.params if p_ not in ("self", "cls") and (only is None or p_ in only)]:
            order = []
            for st in ast.walk(fi.node):
                if isinstance(st, ast.stmt):
                    order.append(st)
            consumers = []
            rebound_at = None
            for st in fi.node.body:
                for x in ast.walk(st):
                    if isinstance(x, ast.Assign) and any(isinstance(t, ast.Name) and t.id == p for t in x.targets) and isinstance(x.value, ast.Call) and seg(x.value.func) in ("tuple", "list", "sorted") and x.value.args and rebound_at is None \
                            and sum(1 for y in ast.walk(x.value) if isinstance(y, ast.Name) and y.id == p) == 1:
                        # `p = tuple(p)`, `p = tuple(set(p) - set(limits))`: the one walk whose result is kept
                        rebound_at = x
                if rebound_at is not None:
                    break
                for x in ast.walk(st):
                    if isinstance(x, ast.Call) and seg(x.func) not in ("isinstance", "type", "id", "callable", "hasattr", "float", "int") and any(isinstance(a, ast.Name) and a.id == p for a in list(x.args) + [k.value for k in x.keywords]):
                        consumers.append(x)
                    if isinstance(x, (ast.For, ast.comprehension)) and isinstance(x.iter, ast.Name) and x.iter.id == p:
                        consumers.append(x.iter)
            if not consumers and rebound_at is None:
                continue
            n += 1
            ok = len(consumers) <= 1
            chk.ob(rule, f"{q}: `{p}` is walked by one consumer before it is materialised", ok, loc=f"{fi.module}.py:{getattr(consumers[min(1, len(consumers) - 1)], 'lineno', fi.node.lineno) if consumers else rebound_at.lineno}",
                   detail="" if ok else f"{q}: `{p}` is consumed by `{seg(consumers[0], 40)}` and again by `{seg(consumers[1], 40)}` without `{p} = tuple({p})` in between: a one-pass iterable is exhausted by the first, the second sees nothing — a validity test passes vacuously and nodes outside the interval are inserted (the vector comes out with knots beyond its ends)",
                   func=q, construct=f"{p} walked twice")
    chk.floor(rule, "sequence parameters of the knot-vector editing functions examined", n, floor)
    return n


# ---------------------------------------------------------------------------------------------------------
# TUPLE-MUTATE: no list-only method is called on a value that is a tuple on every path
LIST_ONLY = ("pop", "append", "extend", "insert", "remove", "sort", "reverse", "clear")
_TUPLE_MUTATE_CONTROL = None  # the control is the type domain itself: a local assigned tuple(...) must come out as {"tuple"}


def tuple_mutate(r: R, chk, entries: List[str], rule="TUPLE-MUTATE"):
    """`x = tuple(...)` ... `x.pop(i)` raises AttributeError — on the one path where it is reached (here: a sampled value of the
    weight function that is exactly 0), so the refusal that was meant (ValueError: the weight function has a zero) never happens.
    In every function reachable from the entries, a call of a list-only method has a receiver that may be something else than a tuple."""
    from .divisions import reachable_functions

    n = seen_tuple = 0
    for q in reachable_functions(r, entries):
        ctx = r.A.roots.get(q)
        if ctx is None:
            continue
        for c in ast.walk(ctx.fi.node):
            if isinstance(c, ast.Assign) and isinstance(c.value, ast.Call) and seg(c.value.func) == "tuple" and len(c.targets) == 1 and isinstance(c.targets[0], ast.Name):
                v0 = ctx.val(c.value)
                if v0 is not None and v0.ty == {"tuple"}:
                    seen_tuple += 1
            if not (isinstance(c, ast.Call) and isinstance(c.func, ast.Attribute) and c.func.attr in LIST_ONLY):
                continue
            v = ctx.val(c.func.value)
            if v is None or not v.ty:
                continue
            n += 1
            bad = v.ty <= {"tuple"}
            chk.ob(rule, f"{q}: `{seg(c, 40)}` is not called on a tuple", not bad, loc=r.loc(ctx, c),
                   detail="" if not bad else f"{q}: `{seg(c, 40)}` is called on `{seg(c.func.value, 30)}`, which is a tuple on every path: AttributeError instead of the intended handling — a weight function with a sampled value of exactly 0 (weights (0, 1), (1, 0, 0, 1)) is refused with AttributeError, not with the ValueError that a zero of the weight function must give",
                   func=q, construct=f"list method {c.func.attr} on a tuple")
    chk.floor(rule, "list-only method calls with a typed receiver on the path", n, 3)
    chk.floor(rule, "positive control: `tuple(...)` values typed as tuple by the engine", seen_tuple, 1)
    return n


# ---------------------------------------------------------------------------------------------------------
# MATRIX-OPERAND: the k-th matrix of `f(U_a, U_b)` multiplies the points of the operand whose knot vector was the k-th argument
def matrix_operand(r: R, chk, qual: str, helper_suffix: str = "add_spline_curve", rule="MATRIX-OPERAND"):
    """`matra, matrb = add_spline_curve(vecta, vectb)`: matra writes a spline over U_a in the common space, matrb one over U_b.
    A product `matrix @ X.ctrlpoints` has to pair each matrix with the control points of its own operand; with the other one the
    shapes still fit whenever both curves have the same number of control points, and the sum is silently wrong."""
    ctx = r.root(qual)
    fi = ctx.fi

    def data_root(e):
        v = ctx.val(e)
        if v is None:
            return None
        rs = {d[1] for d in v.all_dep() if d[0] == "PF" and d[1] in (0, 1) and ("ctrlpoints" in d[2] or "weights" in d[2])}
        return next(iter(rs)) if len(rs) == 1 else None

    def kv_root(e):
        v = ctx.val(e)
        if v is None:
            return None
        rs = {d[1] for d in v.all_dep() if d[0] in ("P", "PF") and d[1] in (0, 1)}
        return next(iter(rs)) if len(rs) == 1 else None

    owner = {}
    for a in ast.walk(fi.node):
        if isinstance(a, ast.Assign) and len(a.targets) == 1 and isinstance(a.targets[0], ast.Tuple) and isinstance(a.value, ast.Call) and seg(a.value.func).endswith(helper_suffix):
            for t, arg in zip(a.targets[0].elts, a.value.args):
                if isinstance(t, ast.Name) and kv_root(arg) is not None:
                    owner[t.id] = kv_root(arg)
    n = 0
    for b in ast.walk(fi.node):
        l = rr = None
        if isinstance(b, ast.BinOp) and isinstance(b.op, ast.MatMult):
            l, rr = b.left, b.right
        elif isinstance(b, ast.Call) and seg(b.func) in ("np.dot", "np.matmul") and len(b.args) == 2:
            l, rr = b.args
        if l is None:
            continue
        while isinstance(l, ast.Call) and seg(l.func) in ("np.array", "np.asarray") and l.args:
            l = l.args[0]
        if not (isinstance(l, ast.Name) and l.id in owner):
            continue
        dr = data_root(rr)
        if dr is None:
            continue
        n += 1
        ok = dr == owner[l.id]
        chk.ob(rule, f"{qual}: `{seg(b, 50)}` pairs the matrix with the points of its own operand", ok, loc=r.loc(ctx, b),
               detail="" if ok else f"{qual}: `{seg(b, 50)}` applies the matrix that belongs to `{fi.params[owner[l.id]]}`'s knot vector to the control points of `{fi.params[dr]}`: when both curves have the same number of control points the shapes fit and A + B / A - B are silently wrong for different interior knots (otherwise a shape error)",
               func=qual, construct="transformation matrix applied to the other operand's points")
    chk.floor(rule, f"matrix-times-points products next to {helper_suffix} in {qual}", n, 1)
    return n


# ---------------------------------------------------------------------------------------------------------
# PRODUCT-SAME-NODES: the two factors of a span-by-span weighted integral are sampled at the same nodes
def product_same_nodes(r: R, chk, qual: str, rule="PRODUCT-SAME-NODES"):
    """int g(u) C(u) du over a span = width * sum_k w_k g(u_k) C(u_k): inside the span loop every comprehension that samples a
    factor (`piece.eval(node) for node in X`, `function(node) for node in Y`) walks the same X — the nodes mapped onto the span —
    not the reference nodes of [0, 1]."""
    fi = r.prog.func(qual)
    n = 0
    for lp in ast.walk(fi.node):
        if not isinstance(lp, ast.For):
            continue
        samples = []
        for c in ast.walk(lp):
            if isinstance(c, (ast.GeneratorExp, ast.ListComp)) and len(c.generators) == 1 and isinstance(c.generators[0].target, ast.Name) and isinstance(c.generators[0].iter, ast.Name):
                t = c.generators[0].target.id
                if isinstance(c.elt, ast.Call) and len(c.elt.args) == 1 and isinstance(c.elt.args[0], ast.Name) and c.elt.args[0].id == t:
                    samples.append((c, c.generators[0].iter.id))
        if len(samples) < 2:
            continue
        n += 1
        names = {nm for _, nm in samples}
        ok = len(names) == 1
        chk.ob(rule, f"{qual}: all factors of the span integral are sampled over `{samples[0][1]}`", ok, loc=f"{fi.module}.py:{samples[0][0].lineno}",
               detail="" if ok else f"{qual}: the factors of the integrand are sampled over different node lists ({', '.join('`' + seg(c_, 40) + '`' for c_, _ in samples)}): one factor is read at the reference nodes of [0, 1] instead of the nodes mapped onto the span — the weighted integral is wrong for every curve that is multi-span or not on [0, 1] as soon as the weight function is not constant",
               func=qual, construct="factors sampled at different nodes")
    chk.floor(rule, f"span loops with two sampled factors in {qual}", n, 1)
    return n


# ---------------------------------------------------------------------------------------------------------
# ABS-INSIDE: the error of a vector-valued fit is reduced over absolute values
def abs_inside(r: R, chk, quals: List[str], rule="ABS-INSIDE", floor: int = 1):
    """P^T E P is a matrix for vector-valued points (one entry per pair of coordinates).  The number compared with the tolerance is
    the largest (or the sum) of the ABSOLUTE entries: `abs(np.sum(M))` lets entries of opposite sign cancel — a curve in the plane
    x + y + z = 1 (barycentric points) has error 0 whatever is removed."""
    n = 0
    for q in quals:
        fi = r.prog.func(q)
        for a in ast.walk(fi.node):
            if not (isinstance(a, ast.Assign) and len(a.targets) == 1 and isinstance(a.targets[0], ast.Name) and "error" in a.targets[0].id.lower()):
                continue
            for c in ast.walk(a.value):
                if isinstance(c, ast.Call) and seg(c.func) in ("np.sum", "np.max", "np.amax", "np.mean", "sum", "max", "np.trace") and c.args:
                    arg = c.args[0]
                    if not any(isinstance(x, ast.Name) and "error" in x.id.lower() for x in ast.walk(arg)):
                        continue
                    n += 1
                    inner_abs = isinstance(arg, ast.Call) and seg(arg.func) in ("np.abs", "abs", "np.absolute", "np.fabs")
                    additive = seg(c.func) in ("np.sum", "np.mean", "sum", "np.trace")
                    ok = inner_abs or not additive
                    chk.ob(rule, f"{q}: `{seg(c, 40)}` reduces absolute values", ok, loc=f"{fi.module}.py:{c.lineno}",
                           detail="" if ok else f"{q}: `{seg(a, 60)}` adds up the signed entries of the error matrix before taking the absolute value: entries of opposite sign cancel, so for vector-valued control points whose coordinates add up to something smooth (a curve in the plane x + y + z = 1) the error handed to the tolerance gate is 0 and a knot / degree that is not removable is removed",
                           func=q, construct="error entries summed with their signs")
    chk.floor(rule, "reductions of the error matrix to one number", n, floor)
    return n


# ---------------------------------------------------------------------------------------------------------
# DEFAULT-SAME-OPERAND: the default given to a missing attribute of one operand is sized by that operand
def default_same_operand(r: R, chk, qual: str, rule="DEFAULT-SAME-OPERAND", floor: int = 2):
    """`w1 = B.weights` ... `if w1 is None: w1 = (1,) * n`: the stand-in weights of a polynomial operand have one entry per control
    point of THAT operand.  The value assigned under `if X is None:` depends on the same operand as X does, never on the other one
    only (n taken from A gives a weight vector of the wrong length whenever the two curves have different numbers of points)."""
    ctx = r.root(qual)
    fi = ctx.fi

    # syntactic provenance: the objects (`selfcopy`, `othercopy`, `self`, `other`) whose attributes a name is read from
    defs = {}
    for a in ast.walk(fi.node):
        if isinstance(a, ast.Assign) and len(a.targets) == 1:
            t, v = a.targets[0], a.value
            if isinstance(t, ast.Name):
                defs.setdefault(t.id, []).append(v)
            elif isinstance(t, ast.Tuple) and isinstance(v, ast.Tuple) and len(t.elts) == len(v.elts):
                for x, y in zip(t.elts, v.elts):
                    if isinstance(x, ast.Name):
                        defs.setdefault(x.id, []).append(y)

    def roots(e, depth=3, skip=None):
        out = set()
        for x in ast.walk(e):
            if isinstance(x, ast.Attribute) and isinstance(x.value, ast.Name):
                out.add(x.value.id)
        if depth > 0:
            for x in ast.walk(e):
                if isinstance(x, ast.Name) and x.id in defs and x.id != skip and not any(isinstance(p_, ast.Attribute) and p_.value is x for p_ in ast.walk(e)):
                    for d_ in defs[x.id]:
                        if not (isinstance(d_, ast.BinOp) and isinstance(d_.left, ast.Tuple)):
                            out |= roots(d_, depth - 1, skip=x.id)
        return out

    n = 0
    for st in ast.walk(fi.node):
        if not (isinstance(st, ast.If) and isinstance(st.test, ast.Compare) and len(st.test.ops) == 1 and isinstance(st.test.ops[0], ast.Is) and isinstance(st.test.left, ast.Name) and isinstance(st.test.comparators[0], ast.Constant) and st.test.comparators[0].value is None):
            continue
        x = st.test.left.id
        inner = [a for a in st.body if isinstance(a, ast.Assign) and len(a.targets) == 1 and isinstance(a.targets[0], ast.Name) and a.targets[0].id == x]
        if not inner or st.orelse:
            continue
        others = [d_ for d_ in defs.get(x, []) if d_ is not inner[0].value]
        rx = set().union(*[roots(d_, 0) for d_ in others]) if others else set()
        rv = roots(inner[0].value)
        if len(rx) != 1 or not rv:
            continue
        n += 1
        ok = rx <= rv
        chk.ob(rule, f"{qual}: the default of `{x}` is sized by the operand `{x}` comes from", ok, loc=r.loc(ctx, inner[0]),
               detail="" if ok else f"{qual}: `{seg(inner[0], 40)}` under `if {x} is None:` is computed from `{', '.join(sorted(rv))}` while `{x}` belongs to `{next(iter(rx))}`: the stand-in has one entry per control point of the wrong curve — joining a rational curve with a polynomial one that has another number of control points raises (or gives a weight vector of the wrong length)",
               func=qual, construct=f"default of {x} taken from the other operand")
    chk.floor(rule, f"defaults under `is None` tests in {qual}", n, floor)
    return n


# ---------------------------------------------------------------------------------------------------------
# PARAM-KEPT: the span lookup decides on the caller's parameter itself
def param_kept(r: R, chk, quals: List[str], rule="PARAM-KEPT"):
    """The span of u is k with U[k] <= u < U[k+1], decided on u itself: the callers compute the local coordinate from the same u.  A
    lookup that first replaces u by something else (a knot it is "close" to) picks the piece on the other side of the knot for a
    parameter just below it, while the local coordinate still comes from the original u — the wrong polynomial piece is evaluated."""
    n = 0
    for q in quals:
        fi = r.prog.func(q)
        p = next((p_ for p_ in fi.params if p_ not in ("self", "cls")), None)
        if p is None:
            continue
        n += 1
        rebinds = [a for a in ast.walk(fi.node) if (isinstance(a, ast.Assign) and any(p in _target_names(t) for t in a.targets)) or (isinstance(a, ast.AugAssign) and p in _target_names(a.target)) or (isinstance(a, ast.For) and p in _target_names(a.target))]
        ok = not rebinds
        chk.ob(rule, f"{q}: `{p}` is looked up as the caller gave it", ok, loc=f"{fi.module}.py:{(rebinds[0] if rebinds else fi.node).lineno}",
               detail="" if ok else f"{q}: `{seg(rebinds[0], 40)}` replaces the parameter before the comparison with the knots: a parameter within that closeness below an interior knot is given the span to the right of the knot while the evaluation computes its local coordinate from the original value — the polynomial piece of the wrong side is evaluated (a jump at a knot of full multiplicity is crossed early)",
               func=q, construct=f"parameter {p} rebound before the lookup")
    chk.floor(rule, "single-node lookups examined", n, len(quals))
    return n


# ---------------------------------------------------------------------------------------------------------
# MULT-AWARE: the copies of a knot that are inserted / removed to reach full multiplicity are counted from its multiplicity
def mult_aware(r: R, chk, quals: List[str], rule="MULT-AWARE", floor: int = 1):
    """Splitting a spline into Bezier pieces raises every interior knot to multiplicity degree + 1: a knot that already occurs m
    times needs degree + 1 - m copies, and as many are taken out again afterwards.  The list of nodes handed to
    `Operations.knot_insert` / `knot_remove` in these functions is therefore built from `knotvector.mult(node)`; a fixed count per
    knot is right for simple knots only."""
    n = 0
    for q in quals:
        fi = r.prog.func(q)
        fn = fi.node
        multnames = {a.targets[0].id for a in ast.walk(fn) if isinstance(a, ast.Assign) and len(a.targets) == 1 and isinstance(a.targets[0], ast.Name) and any(isinstance(c, ast.Call) and isinstance(c.func, ast.Attribute) and c.func.attr == "mult" for c in ast.walk(a.value))}

        def aware(e):
            return any((isinstance(x, ast.Name) and x.id in multnames) or (isinstance(x, ast.Call) and isinstance(x.func, ast.Attribute) and x.func.attr == "mult") for x in ast.walk(e))

        for c in ast.walk(fn):
            if not (isinstance(c, ast.Call) and seg(c.func).endswith(("Operations.knot_remove", "Operations.knot_insert")) and len(c.args) >= 2 and isinstance(c.args[1], ast.Name)):
                continue
            nm = c.args[1].id
            defs = [a for a in ast.walk(fn) if (isinstance(a, ast.Assign) and any(nm in _target_names(t) for t in a.targets)) or (isinstance(a, ast.AugAssign) and nm in _target_names(a.target))]
            defs += [x.value for x in ast.walk(fn) if isinstance(x, ast.Expr) and isinstance(x.value, ast.Call) and isinstance(x.value.func, ast.Attribute) and x.value.func.attr in ("extend", "append") and isinstance(x.value.func.value, ast.Name) and x.value.func.value.id == nm]
            if not defs:
                continue
            n += 1
            ok = any(aware(d.value if isinstance(d, (ast.Assign, ast.AugAssign)) else d) for d in defs)
            chk.ob(rule, f"{q}: the nodes of `{seg(c, 40)}` are counted from the multiplicities", ok, loc=f"{fi.module}.py:{c.lineno}",
                   detail="" if ok else f"{q}: `{nm}`, handed to `{seg(c, 50)}`, is built without `mult(...)`: a fixed number of copies per interior knot is right only for simple knots — for a knot of multiplicity 2 or more too many copies are taken out, the elevation matrix has too few rows and degree_increase / Derivate of a rational spline with a repeated knot raise",
                   func=q, construct=f"{nm} not counted from the multiplicities")
    chk.floor(rule, "node lists handed to Operations.knot_insert / knot_remove", n, floor)
    return n


# ---------------------------------------------------------------------------------------------------------
# UFUNC-FLOAT: numpy's float-only functions are given floats
FLOAT_ONLY = ("np.sqrt", "np.isfinite", "np.isnan", "np.isinf", "np.linalg.norm", "np.exp", "np.log", "np.arccos", "np.hypot")


def ufunc_float(r: R, chk, quals: List[str], rule="UFUNC-FLOAT", floor: int = 1):
    """`np.sqrt`, `np.isfinite`, `np.linalg.norm` ... have no loop for Python objects: for a Fraction (a curve with exact knots and
    points evaluates to Fractions) they raise TypeError.  Where such a function is applied to a value of the curve (a point, a
    difference of points, an inner product) or to a parameter, the value is converted first: `float(x)`, or an array built with a
    float dtype."""
    from .common import expand_locals

    n = 0
    for q in quals:
        fi = r.prog.func(q)
        fn = fi.node
        params = {p for p in fi.params if p not in ("self", "cls")}
        # locals that are already float: float(...), np.array(..., dtype=float...), loop targets over generators / lists of such
        floaty = set()

        def is_floaty(e):
            if isinstance(e, ast.Call) and seg(e.func) == "float":
                return True
            if isinstance(e, ast.Call) and seg(e.func) in ("np.array", "np.asarray") and any(k.arg == "dtype" and "float" in seg(k.value) for k in e.keywords):
                return True
            if isinstance(e, ast.Name) and e.id in floaty:
                return True
            return False

        grow = True
        while grow:
            grow = False
            for a in ast.walk(fn):
                if isinstance(a, ast.Assign) and len(a.targets) == 1 and isinstance(a.targets[0], ast.Name) and a.targets[0].id not in floaty:
                    v = a.value
                    if is_floaty(v) or (isinstance(v, (ast.GeneratorExp, ast.ListComp)) and is_floaty(v.elt)):
                        floaty.add(a.targets[0].id)
                        grow = True
                if isinstance(a, (ast.comprehension, ast.For)) and isinstance(a.iter, ast.Name) and a.iter.id in floaty and isinstance(a.target, ast.Name) and a.target.id not in floaty:
                    floaty.add(a.target.id)
                    grow = True
        for c in ast.walk(fn):
            if not (isinstance(c, ast.Call) and seg(c.func) in FLOAT_ONLY and c.args):
                continue
            a0 = c.args[0]
            ex = expand_locals(fi, a0)
            from_curve = any((isinstance(x, ast.Call) and isinstance(x.func, ast.Attribute) and x.func.attr in ("eval", "__call__")) or (isinstance(x, ast.Call) and isinstance(x.func, ast.Name) and x.func.id in ("curve", "bezier")) or (isinstance(x, ast.Name) and x.id in params) for x in ast.walk(ex))
            # comprehension / loop targets that walk evaluated values
            if not from_curve:
                names = {x.id for x in ast.walk(a0) if isinstance(x, ast.Name)}
                for g in ast.walk(fn):
                    if isinstance(g, (ast.comprehension, ast.For)) and isinstance(g.target, ast.Name) and g.target.id in names:
                        it = expand_locals(fi, g.iter)
                        if any(isinstance(x, ast.Call) and isinstance(x.func, ast.Attribute) and x.func.attr in ("eval", "__call__") for x in ast.walk(it)):
                            from_curve = True
            if not from_curve:
                continue
            n += 1
            ok = is_floaty(a0)
            chk.ob(rule, f"{q}: `{seg(c, 40)}` is given a float", ok, loc=f"{fi.module}.py:{c.lineno}",
                   detail="" if ok else f"{q}: `{seg(c, 50)}` applies a float-only numpy function to a value of the curve / a parameter as it is: for a curve with exact (Fraction) knots and points that value is a Fraction (or an object array of Fractions) and numpy raises TypeError — the operation fails on exact data where it works on the same data given as floats",
                   func=q, construct=f"float-only numpy function on an unconverted value: {seg(c.func)}")
    chk.floor(rule, "float-only numpy functions applied to values of a curve", n, floor)
    return n


# ---------------------------------------------------------------------------------------------------------
# COUNT-PAIR: a knot vector shortened by a data-dependent selection goes with control points shortened by the same kind of selection
def _filters_in(expr):
    """comprehensions with an `if` clause inside an expression"""
    return [c for c in ast.walk(expr) if isinstance(c, (ast.ListComp, ast.GeneratorExp, ast.SetComp)) and any(g.ifs for g in c.generators)]


def _loop_filters(fn, expr):
    """selections written as `for x in S: if c: L.append(x)` behind the names of an expression (through plain assignments):
    returned as comprehension nodes `[x for x in S if c]` so that they are read like the others"""
    names, work = set(), [x.id for x in ast.walk(expr) if isinstance(x, ast.Name)]
    while work:
        nm = work.pop()
        if nm in names:
            continue
        names.add(nm)
        for a in ast.walk(fn):
            if isinstance(a, ast.Assign) and any(nm in _target_names(t) for t in a.targets):
                work += [x.id for x in ast.walk(a.value) if isinstance(x, ast.Name)]
    out = []
    for lp in ast.walk(fn):
        if not isinstance(lp, ast.For):
            continue
        for cond in ast.walk(lp):
            if not isinstance(cond, ast.If):
                continue
            for x in ast.walk(cond):
                if isinstance(x, ast.Call) and isinstance(x.func, ast.Attribute) and x.func.attr == "append" and isinstance(x.func.value, ast.Name) and x.func.value.id in names and x.args:
                    comp = ast.ListComp(elt=x.args[0], generators=[ast.comprehension(target=lp.target, iter=lp.iter, ifs=[cond.test], is_async=0)])
                    ast.copy_location(comp, cond)
                    ast.fix_missing_locations(comp)
                    out.append(comp)
    return out


def _returned_filters(r: R, qual: str, depth: int = 2):
    """filtered selections in what a helper returns (followed into the helpers it calls)"""
    fi = r.prog.funcs.get(qual)
    if fi is None:
        return []
    fn = fi.node
    pos = _block_defs(fn)
    out = []
    for ret in ast.walk(fn):
        if isinstance(ret, ast.Return) and ret.value is not None:
            e = resolve_reaching(fn, ret.value, ret, pos=pos)
            out += [(qual, c) for c in _filters_in(e) + _loop_filters(fn, ret.value)]
            if depth > 0:
                for c in ast.walk(e):
                    if isinstance(c, ast.Call) and isinstance(c.func, ast.Attribute):
                        for q2 in r.prog.funcs:
                            if q2 != qual and q2.endswith("." + c.func.attr) and q2.split(".")[0] == qual.split(".")[0]:
                                out += _returned_filters(r, q2, depth - 1)
    return out


def count_pair(r: R, chk, qual: str, rule="COUNT-PAIR"):
    """`Curve(U - S, M @ P)`: the constructor needs len(M @ P) = npts(U - S).  When S is chosen by the data (the knots of full
    multiplicity: both ends, and every interior knot where the curve may jump), the rows of M have to be chosen by the data as
    well — with a fixed number of rows the counts differ as soon as an interior knot is selected.  And a selection of rows may
    only read the knots: one that reads the values of the control points changes the count for particular point values."""
    fi = r.prog.func(qual)
    fn = fi.node
    pos = _block_defs(fn)
    n = 0
    for c in ast.walk(fn):
        if not (isinstance(c, ast.Call) and len(c.args) == 2 and (seg(c.func).endswith("__class__") or seg(c.func) in ("Curve", "cls"))):
            continue
        st = _stmt_map(fn).get(id(c))
        vec = resolve_reaching(fn, c.args[0], st, pos=pos)
        pts = resolve_reaching(fn, c.args[1], st, pos=pos)
        fv = [f for f in _filters_in(vec) + _loop_filters(fn, c.args[0])]
        fp = [(qual, f) for f in _filters_in(pts) + _loop_filters(fn, c.args[1])]
        for call in ast.walk(pts):
            if isinstance(call, ast.Call) and isinstance(call.func, ast.Attribute) and seg(call.func).startswith("heavy."):
                for q2 in r.prog.funcs:
                    if q2.startswith("heavy.") and q2.endswith("." + call.func.attr) and seg(call.func).split(".")[-2] in q2:
                        fp += _returned_filters(r, q2)
        if not fv and not fp:
            continue
        n += 1
        ok = not fv or bool(fp)
        chk.ob(rule, f"{qual}: `{seg(c, 50)}`: knots and control points are selected together", ok, loc=f"{fi.module}.py:{c.lineno}",
               detail="" if ok else f"{qual}: the knot vector of `{seg(c, 50)}` loses one knot for every element of `{seg(fv[0], 70)}` — a number that depends on the data (every interior knot of full multiplicity counts, not only the two ends) — while the control points `{seg(c.args[1], 30)}` come from a matrix with a fixed number of rows: for a curve with a jump (an interior knot repeated degree + 1 times) the constructor gets one control point too many per such knot and Derivate raises ValueError instead of returning the derivative",
               func=qual, construct="fixed number of rows for a data-dependent number of knots")
        for q_, f in fp:
            gen = f.generators[0]
            elems = _target_names(gen.target)
            src_names = {x.id for x in ast.walk(gen.iter) if isinstance(x, ast.Name)}
            over_points = any("ctrlpoint" in s.lower() or "point" in s.lower() for s in src_names) or "ctrlpoints" in seg(gen.iter)
            reads_elem = any(isinstance(x, ast.Name) and x.id in elems for i_ in gen.ifs for x in ast.walk(i_))
            reads_points = any("ctrlpoints" in seg(i_) or "points" in seg(i_) for i_ in gen.ifs)
            bad = (over_points and reads_elem) or reads_points
            n += 1
            chk.ob(rule, f"{q_}: the selection `{seg(f, 50)}` reads knots only", not bad, loc=f"{r.prog.func(q_).module}.py:{f.lineno}",
                   detail="" if not bad else f"{q_}: `{seg(f, 70)}` keeps or drops a control point of the derivative by its VALUE: whenever a difference of neighbouring control points is zero (two equal neighbours — nothing unusual) a point disappears, the count no longer matches the knot vector and Derivate raises ValueError; which points exist is decided by the knots alone",
                   func=q_, construct="control points selected by value")
    chk.floor(rule, f"constructor calls with a data-dependent selection in {qual}", n, 1)
    return n


# ---------------------------------------------------------------------------------------------------------
# AXIS-FIRST: the control points handed to a constructor have the control-point index as their FIRST axis for every point shape
def _axes(fn, e, at, pos, env, depth=10):
    """symbolic axes of an array expression: a tuple of axis names, '*x' for the (possibly empty) axes of one control point;
    None when not known.  `env` maps `self.ctrlpoints`-like sources and helper results to their axes."""
    if depth <= 0 or e is None:
        return None
    s = seg(e)
    if s in env:
        return env[s]
    if isinstance(e, ast.Name):
        st = reaching_assign(fn, at, e.id, pos)
        if isinstance(st, ast.Assign) and len(st.targets) == 1 and isinstance(st.targets[0], ast.Name):
            return _axes(fn, st.value, st, pos, env, depth - 1)
        return None
    if isinstance(e, ast.Call):
        f = seg(e.func)
        if f in ("np.array", "tuple", "list", "np.asarray") and e.args:
            return _axes(fn, e.args[0], at, pos, env, depth - 1)
        for suffix, ax in env.items():
            if suffix.startswith("call:") and f.endswith(suffix[5:]):
                return ax
        if f == "np.moveaxis" and len(e.args) == 3 and seg(e.args[1]) == "0" and seg(e.args[2]) == "-1":
            x = _axes(fn, e.args[0], at, pos, env, depth - 1)
            return None if x is None else x[1:] + x[:1]
        if f == "np.moveaxis" and len(e.args) == 3 and seg(e.args[1]) == "-1" and seg(e.args[2]) == "0":
            x = _axes(fn, e.args[0], at, pos, env, depth - 1)
            return None if x is None else x[-1:] + x[:-1]
        if f == "np.transpose" and len(e.args) == 1:
            x = _axes(fn, e.args[0], at, pos, env, depth - 1)
            return None if x is None else tuple(reversed(x))
        if f == "np.tensordot" and len(e.args) >= 2:
            k = next((kw.value for kw in e.keywords if kw.arg == "axes"), e.args[2] if len(e.args) > 2 else ast.Constant(value=2))
            if not (isinstance(k, ast.Constant) and isinstance(k.value, int)):
                return None
            x, y = _axes(fn, e.args[0], at, pos, env, depth - 1), _axes(fn, e.args[1], at, pos, env, depth - 1)
            if x is None or y is None or len(x) < k.value or len(y) < k.value:
                return None
            return x[:len(x) - k.value] + y[k.value:]
        if f == "np.dot" and len(e.args) == 2:
            x, y = _axes(fn, e.args[0], at, pos, env, depth - 1), _axes(fn, e.args[1], at, pos, env, depth - 1)
            return None if x is None or y is None or not x or not y else x[:-1] + y[1:]
        return None
    if isinstance(e, ast.BinOp) and isinstance(e.op, ast.MatMult):
        x, y = _axes(fn, e.left, at, pos, env, depth - 1), _axes(fn, e.right, at, pos, env, depth - 1)
        return None if x is None or y is None or not x or not y else x[:-1] + y[1:]
    if isinstance(e, ast.BinOp) and isinstance(e.op, (ast.Add, ast.Sub)):
        return _axes(fn, e.left, at, pos, env, depth - 1) or _axes(fn, e.right, at, pos, env, depth - 1)
    if isinstance(e, ast.Subscript):
        x = _axes(fn, e.value, at, pos, env, depth - 1)
        if x is None:
            return None
        idx = e.slice.elts if isinstance(e.slice, ast.Tuple) else [e.slice]
        if len(idx) > len(x):
            return None
        return tuple(a for a, i in zip(x, list(idx) + [ast.Slice()] * (len(x) - len(idx))) if isinstance(i, ast.Slice))
    if isinstance(e, ast.ListComp) and len(e.generators) == 1:
        g = e.generators[0]
        lead = "n"
        it = g.iter
        if isinstance(it, ast.Call) and seg(it.func) == "range" and len(it.args) == 1 and isinstance(it.args[0], ast.Subscript) and isinstance(it.args[0].value, ast.Attribute) and it.args[0].value.attr == "shape":
            base = _axes(fn, it.args[0].value.value, at, pos, env, depth - 1)
            k = it.args[0].slice
            if base is not None and isinstance(k, ast.Constant) and isinstance(k.value, int) and k.value < len(base):
                lead = base[k.value]
        else:
            base = _axes(fn, it, at, pos, env, depth - 1)
            if base:
                lead = base[0]
        inner_env = dict(env)
        if isinstance(g.target, ast.Name):
            base = _axes(fn, it, at, pos, env, depth - 1)
            if base:
                inner_env[g.target.id] = base[1:]
        el = _axes(fn, e.elt, at, pos, inner_env, depth - 1)
        if el is None:
            if isinstance(e.elt, ast.BinOp) and isinstance(e.elt.op, (ast.Mult, ast.MatMult, ast.Div)):
                el = ("*x",)
            else:
                return None
        return (lead,) + tuple(el)
    return None


def axis_first(r: R, chk, quals: List[str], rule="AXIS-FIRST", floor: int = 1):
    """A curve keeps its control points as a sequence indexed by the basis function: axis 0.  Products written with tensordot /
    moveaxis / @ are followed axis by axis with the shape of ONE control point left open ('*d': empty for scalar-valued curves,
    one axis for points in the plane or in space).  What reaches `Curve(vector, ctrlpoints)` has to start with the axis of the
    result's basis functions whatever '*d' is: a shape that starts with '*d' is right for scalar-valued curves only."""
    n = 0
    for q in quals:
        fi = r.prog.func(q)
        fn = fi.node
        pos = _block_defs(fn)
        stmts = _stmt_map(fn)
        a, b = fi.params[0], fi.params[1]
        env = {f"{a}.ctrlpoints": ("a", "*d"), f"{b}.ctrlpoints": ("b", "*e"), "call:mul_spline_curve": ("a", "c", "b")}
        for c in ast.walk(fn):
            if not (isinstance(c, ast.Call) and seg(c.func) in ("Curve", "self.__class__", "cls") and len(c.args) == 2):
                continue
            ax = _axes(fn, c.args[1], stmts.get(id(c)), pos, env)
            if ax is None:
                continue
            n += 1
            ok = bool(ax) and not ax[0].startswith("*")
            chk.ob(rule, f"{q}: `{seg(c, 40)}`: the control points start with the axis of the basis functions (axes {ax})", ok, loc=f"{fi.module}.py:{c.lineno}",
                   detail="" if ok else f"{q}: the control points of `{seg(c, 40)}` have the axes ({', '.join(ax)}): with '{ax[0]}' the axes of one control point of `{a}`, the index of the control point comes first only when `{a}` is scalar-valued — for a curve in the plane or in space the constructor receives one 'control point' per coordinate and raises ValueError (the number of control points must be the same as npts): A * B fails for every vector-valued A, and with it A + B, A - B of vector-valued rational curves and Derivate of every multi-span rational curve in the plane",
                   func=q, construct="control-point axis not first")
    chk.floor(rule, "constructor calls whose control-point axes are followed", n, floor)
    return n


# ---------------------------------------------------------------------------------------------------------
# COMMIT-LOOP: a composite that commits step by step until the step is refused (`except ValueError`) lets nothing else escape
def _commit_loops(fn):
    """(try statement, atomic self-calls in its body) for every `try: ... self.m(...) ... except ValueError` whose call sits in a loop"""
    out = []
    for t in ast.walk(fn):
        if not isinstance(t, ast.Try):
            continue
        if not any(h.type is not None and "ValueError" in seg(h.type) for h in t.handlers):
            continue
        calls = [c for s in t.body for c in ast.walk(s) if isinstance(c, ast.Call) and isinstance(c.func, ast.Attribute) and isinstance(c.func.value, ast.Name) and c.func.value.id == "self"]
        in_loop = any(isinstance(x, (ast.While, ast.For)) for s in t.body for x in ast.walk(s)) or any(isinstance(l, (ast.For, ast.While)) and any(y is t for y in ast.walk(l)) for l in ast.walk(fn))
        if calls and in_loop:
            out.append((t, calls))
    return out


def commit_loop(r: R, chk, quals: List[str], rule="COMMIT-LOOP", floor: int = 2):
    """`try: while True: self.step(...)  except ValueError: pass` — every accepted step is committed, the refusal of the last one is
    the ValueError that ends the loop.  Between two commits nothing else may escape:
    (a) an element of a caller's sequence that the steps receive one by one has been probed (`float(x)`) for all elements BEFORE
        the first step — otherwise the TypeError of a non-number comes after the steps of the elements before it;
    (b) in the knot-vector methods the step reaches, a request that cannot be satisfied is not refused by an `assert` on an
        ordering of the request: AssertionError is not caught by the loop, it escapes after the commits."""
    from .divisions import reachable_functions

    n = 0
    asserts_seen = 0
    for q in quals:
        fi = r.prog.func(q)
        fn = fi.node
        pos = _block_defs(fn)
        loops = _commit_loops(fn)
        for t, calls in loops:
            # (a) caller's sequence walked around the try
            for lp in ast.walk(fn):
                if not (isinstance(lp, ast.For) and any(y is t for y in ast.walk(lp))):
                    continue
                src = operand_roots(fn, lp.iter, lp, pos, list(fi.params))
                seqs = [fi.params[i] for i in src if fi.params[i] not in ("self", "tolerance")]
                for p in seqs:
                    n += 1
                    probed = False
                    cur = lp
                    while cur is not None and id(cur) in pos and not probed:
                        stmts, i, up = pos[id(cur)]
                        for s in stmts[:i]:
                            for f_ in ast.walk(s):
                                if isinstance(f_, (ast.For, ast.comprehension)) and operand_roots(fn, f_.iter, s, pos, [p]) and any(isinstance(c, ast.Call) and seg(c.func) in ("float", "int", "self.knotvector.valid", "self.knotvector.span", "self.knotvector.mult") for c in ast.walk(f_ if isinstance(f_, ast.For) else s)):
                                    probed = True
                                if isinstance(f_, ast.Call) and seg(f_.func) in ("self.knotvector.valid", "self.knotvector.span", "self.knotvector.mult") and f_.args and operand_roots(fn, f_.args[0], s, pos, [p]):
                                    probed = True
                        cur = up
                    chk.ob(rule, f"{q}: every element of `{p}` is probed before the first committed step", probed, loc=f"{fi.module}.py:{lp.lineno}",
                           detail="" if probed else f"{q}: the loop `for {seg(lp.target)} in {seg(lp.iter, 30)}` hands the elements of the caller's `{p}` one by one to `{seg(calls[0], 40)}`, each accepted step committed; nothing looked at ALL elements before the first step, so an element that is not a number ({p} = [1/2, None]) raises TypeError after the knots before it have been removed — the operation raised and the curve is not as it was",
                           func=q, construct=f"elements of {p} validated between commits")
            # (b) refusals by assert in the knot-vector methods under the step
            entries = []
            ctx = r.root(q)
            for cr in ctx.calls:
                if any(cr.node is c for c in calls):
                    entries += [f.qual for f in cr.callees]
            for q2 in reachable_functions(r, entries):
                if not (q2.startswith("knotspace.KnotVector.") or q2.startswith("heavy.ImmutableKnotVector.")):
                    continue
                f2 = r.prog.func(q2)
                params = [p_ for p_ in f2.params if p_ not in ("self", "cls")]
                for a in _request_asserts(f2.node, params):
                    n += 1
                    chk.ob(rule, f"{q2}: no request is refused by an assert under {q}", False, loc=f"{f2.module}.py:{a.lineno}",
                           detail=f"{q2}: `{seg(a, 50)}` refuses a request with AssertionError; {q} repeats `{seg(calls[0], 40)}` until it is refused and catches ValueError only: at the natural end of the loop (nothing left to reduce: the degree would become negative) the AssertionError escapes AFTER the accepted steps have been committed — the operation raises and the curve has changed",
                           func=q2, construct="refusal by assert under a commit loop")
                n += 1
                chk.ob(rule, f"{q2} (reached from the steps of {q}): refusals are not asserts on the request", True, loc=f"{f2.module}.py:{f2.node.lineno}", func=q2)
    # positive control: the predicate recognises the one request-assert of the class (scale: assert value > 0)
    for q2 in r.prog.funcs:
        if q2.startswith("knotspace.KnotVector."):
            f2 = r.prog.func(q2)
            asserts_seen += len(_request_asserts(f2.node, [p_ for p_ in f2.params if p_ not in ("self", "cls")]))
    chk.floor(rule, "commit loops and knot-vector methods under them examined", n, floor)
    chk.floor(rule, "positive control: asserts on an ordering of a request in KnotVector (scale)", asserts_seen, 1)
    return n


def _request_asserts(fn, params):
    tainted = set(params)
    grow = True
    while grow:
        grow = False
        for a in ast.walk(fn):
            if isinstance(a, ast.Assign) and any(isinstance(y, ast.Name) and y.id in tainted for y in ast.walk(a.value)):
                for t in a.targets:
                    for nm in _target_names(t):
                        if nm not in tainted:
                            tainted.add(nm)
                            grow = True
    out = []
    for a in ast.walk(fn):
        if isinstance(a, ast.Assert):
            for c in ast.walk(a.test):
                if isinstance(c, ast.Compare) and any(isinstance(o, (ast.Lt, ast.LtE, ast.Gt, ast.GtE)) for o in c.ops) and any(isinstance(y, ast.Name) and y.id in tainted for y in ast.walk(c)):
                    out.append(a)
                    break
    return out


# ---------------------------------------------------------------------------------------------------------
# EXACT-PATH: an operation that is always exact never takes the refitting path for a curve that has control points
def exact_path(r: R, chk, quals: List[str], rule="EXACT-PATH", floor: int = 1):
    """knot insertion and degree elevation have an exact matrix; `self.knotvector = U` / `self.update(U)` refit by least squares and
    ACCEPT OR REFUSE with an absolute tolerance (and re-infer the degree from the new vector).  In these operations the refitting
    path is the shortcut for a curve without control points only: it is reached under `self.ctrlpoints is None` or not at all."""
    from .c08 import path_facts

    n = 0
    for q in quals:
        ctx = r.root(q)
        for cr in ctx.calls:
            refit = (cr.kind == "setter" and any(f.qual.endswith("knotvector.setter") for f in cr.callees)) or any(f.qual in ("curves.BaseCurve.update", "curves.Curve.fit_curve") for f in cr.callees)
            if not refit:
                continue
            n += 1
            facts = path_facts(ctx, cr.cfgnode)
            ok = ("self.ctrlpoints is None", True) in facts
            chk.ob(rule, f"{q}: `{seg(ctx.cfg.nodes[cr.cfgnode].ast, 40)}` (the refitting path) only where `self.ctrlpoints is None`", ok, loc=r.loc(ctx, cr.node),
                   detail="" if ok else f"{q}: `{seg(ctx.cfg.nodes[cr.cfgnode].ast, 50)}` hands the new knot vector to the least-squares update although the path has not established `self.ctrlpoints is None` (tests on the way: {', '.join(sorted(('' if p_ else 'not ') + t_ for t_, p_ in facts)) or 'none that holds on every path'}): a curve WITH control points is refitted and accepted or refused by the absolute tolerance instead of being transformed by the exact matrix — a request that must be refused (both end knots) is accepted with a higher degree whenever the curve happens to be representable, and a valid insertion into float data of large magnitude is refused",
                   func=q, construct="refit instead of the exact matrix")
    chk.floor(rule, "refitting calls in the exact refinement operations", n, floor)
    return n


# ---------------------------------------------------------------------------------------------------------
# WEIGHTS-EVERY-DEGREE: what an evaluator keeps as weights is decided by the weights alone, not by the sub-degree
def weights_every_degree(r: R, chk, qual: str, rule="WEIGHTS-EVERY-DEGREE"):
    """w_i N_ij / sum_k w_k N_kj is the definition for EVERY j <= p.  The evaluator of f[i, j] keeps the weights of f; a value that is
    chosen by a test on anything else (the sub-degree, the degree of the vector) drops the weights for some j."""
    fi = r.prog.func(qual)
    fn = fi.node
    pos = _block_defs(fn)
    n = 0

    def enclosing_tests(node):
        out = []
        for x in ast.walk(fn):
            if isinstance(x, (ast.If, ast.While)) and any(y is node for s in x.body + x.orelse for y in ast.walk(s)):
                out.append(x.test)
        return out

    for a in ast.walk(fn):
        if not (isinstance(a, ast.Assign) and any(isinstance(t, ast.Attribute) and "weights" in t.attr for t in a.targets)):
            continue
        n += 1
        val = resolve_reaching(fn, a.value, a, pos=pos)
        tests = [x.test for x in ast.walk(val) if isinstance(x, ast.IfExp) and not (isinstance(x.test, ast.Name) and x.test.id == "__path__")] + enclosing_tests(a)
        foreign = [t for t in tests if "weights" not in seg(t)]
        reads = "weights" in seg(val)
        ok = not foreign and reads
        chk.ob(rule, f"{qual}: `{seg(a, 50)}` keeps the weights of the function for every sub-degree", ok, loc=f"{fi.module}.py:{a.lineno}",
               detail="" if ok else (f"{qual}: `{seg(a, 70)}` chooses what is kept as weights by the test `{seg(foreign[0], 40)}`, which is not a test of the weights: for the sub-degrees where it fails the evaluator works without weights and f[i, j] returns the polynomial N_ij instead of w_i N_ij / sum_k w_k N_kj" if foreign else f"{qual}: `{seg(a, 70)}` does not read the weights of the function"),
               func=qual, construct="weights kept for some sub-degrees only")
    chk.floor(rule, f"stores of the evaluator's weights in {qual}", n, 1)
    return n


# ---------------------------------------------------------------------------------------------------------
# ERROR-NONNEG: the error a fit returns is non-negative by construction
def _nonneg(e) -> bool:
    if isinstance(e, ast.Constant):
        return isinstance(e.value, (int, float)) and not isinstance(e.value, bool) and e.value >= 0
    if isinstance(e, ast.Call):
        f = seg(e.func)
        if f in ("abs", "np.abs", "np.absolute", "np.fabs", "np.linalg.norm", "norm", "np.square"):
            return True
        if f in ("np.max", "np.amax", "max", "np.sum", "sum", "np.mean", "np.min", "min", "float", "np.sqrt") and e.args:
            return all(_nonneg(a) for a in e.args)
        if isinstance(e.func, ast.Attribute) and e.func.attr in ("max", "sum", "min", "mean") and not e.args:
            return _nonneg(e.func.value)
        return False
    if isinstance(e, ast.BinOp):
        if isinstance(e.op, (ast.Add, ast.Mult, ast.Div)):
            return _nonneg(e.left) and _nonneg(e.right)
        if isinstance(e.op, ast.Pow) and isinstance(e.right, ast.Constant) and isinstance(e.right.value, int) and e.right.value % 2 == 0:
            return True
        return False
    if isinstance(e, ast.IfExp):
        return _nonneg(e.body) and _nonneg(e.orelse)
    return False


def _nonneg_name(fn, name, at, pos) -> bool:
    """`name` read at `at` is non-negative: going back through the statements before it, every assignment is of a non-negative
    value and every update is `+=` / `*=` of a non-negative value (also inside loops and branches), down to a plain assignment"""
    def targets_name(s_):
        return (isinstance(s_, ast.Assign) and any(name in _target_names(t) for t in s_.targets)) or (isinstance(s_, ast.AugAssign) and name in _target_names(s_.target))

    def value_ok(s_):
        v = resolve_reaching(fn, s_.value, s_, pos=pos)
        return _nonneg(v) or _nonneg(s_.value)

    cur = at
    while cur is not None and id(cur) in pos:
        stmts, i, up = pos[id(cur)]
        for s_ in reversed(stmts[:i]):
            if isinstance(s_, ast.Assign) and targets_name(s_):
                return value_ok(s_)
            if isinstance(s_, ast.AugAssign) and targets_name(s_):
                if not (isinstance(s_.op, (ast.Add, ast.Mult)) and value_ok(s_)):
                    return False
                continue
            inner = [x for x in ast.walk(s_) if x is not s_ and targets_name(x)]
            for x in inner:
                if isinstance(x, ast.AugAssign) and not isinstance(x.op, (ast.Add, ast.Mult)):
                    return False
                if not value_ok(x):
                    return False
        cur = up
    return False


def error_nonneg(r: R, chk, qual: str, rule="ERROR-NONNEG", floor: int = 2):
    """P^T E P is non-negative in exact arithmetic (E is a Gram residual), and a rounding residue of either sign in floats.  What the
    fit returns is compared with the tolerance and reported as a squared distance: it is an absolute value (or a maximum / a sum of
    absolute values) on every path — `np.max(M)` of the signed entries returns -2e-17 for a curve inside the space."""
    fi = r.prog.func(qual)
    fn = fi.node
    pos = _block_defs(fn)
    n = 0
    for ret in ast.walk(fn):
        if not (isinstance(ret, ast.Return) and ret.value is not None and not (isinstance(ret.value, ast.Constant) and ret.value.value is None)):
            continue
        n += 1
        e = resolve_reaching(fn, ret.value, ret, pos=pos)
        ok = _nonneg(e)
        if not ok and isinstance(ret.value, ast.Name):
            ok = _nonneg_name(fn, ret.value.id, ret, pos)
        chk.ob(rule, f"{qual}: `{seg(ret, 30)}` returns an absolute value", ok, loc=f"{fi.module}.py:{ret.lineno}",
               detail="" if ok else f"{qual}: the value of `{seg(ret, 30)}` is `{seg(e, 90)}`: not an absolute value (or a maximum / sum of absolute values) on this path — the entries of P^T E P carry the sign of their rounding residue, so for a curve that lies in the target space with float knots the returned 'squared error' is negative (-1.9e-17): the returned error is not non-negative",
               func=qual, construct="signed error returned")
    chk.floor(rule, f"returns of an error in {qual}", n, floor)
    return n


# ---------------------------------------------------------------------------------------------------------
# INTERP-COUNT: the knots are interpolation nodes of a refit only where the new vector has degree >= 1
def interp_count(r: R, chk, module: str = "curves", rule="INTERP-COUNT", floor: int = 2):
    """A knot vector of degree 0 has npts + 1 distinct knots: handed to the constrained least squares as interpolation nodes they
    are more than the control points, and func2func raises NotImplementedError.  Every call that passes `U.knots` as nodes of
    update / fit_curve does so under a test of the degree (`knots if degree != 0 else None`)."""
    n = 0
    for q, fi in sorted(r.prog.funcs.items()):
        if fi.module != module:
            continue
        fn = fi.node
        pos = None
        for c in ast.walk(fn):
            if not (isinstance(c, ast.Call) and isinstance(c.func, ast.Attribute) and c.func.attr in ("update", "fit_curve")):
                continue
            arg = next((k.value for k in c.keywords if k.arg == "nodes"), None)
            if arg is None and c.func.attr == "update" and len(c.args) >= 3:
                arg = c.args[2]
            if arg is None and c.func.attr == "fit_curve" and len(c.args) >= 2:
                arg = c.args[1]
            if arg is None:
                continue
            pos = pos or _block_defs(fn)
            st = _stmt_map(fn).get(id(c))
            e = resolve_reaching(fn, arg, st, params=tuple(fi.params), pos=pos)
            knots = [x for x in ast.walk(e) if isinstance(x, ast.Attribute) and x.attr == "knots"]
            if not knots:
                continue
            n += 1
            guarded = all(any(isinstance(i, ast.IfExp) and "degree" in seg(i.test) and any(y is k for y in ast.walk(i)) for i in ast.walk(e)) for k in knots)
            if not guarded:
                # statement form: the call, or an assignment of `.knots` that reaches it, sits under `if ... degree ...`
                for x in ast.walk(fn):
                    if not (isinstance(x, ast.If) and "degree" in seg(x.test)):
                        continue
                    inside = [y for s in x.body + x.orelse for y in ast.walk(s)]
                    if any(y is c for y in inside):
                        guarded = True
                    if any(isinstance(y, ast.Assign) and any(isinstance(z, ast.Attribute) and z.attr == "knots" for z in ast.walk(y.value)) for y in inside) \
                            and any(isinstance(i, ast.IfExp) and isinstance(i.test, ast.Name) and i.test.id == "__path__" and any(y is k for k in knots for y in ast.walk(i)) for i in ast.walk(e)):
                        guarded = True
            chk.ob(rule, f"{q}: `{seg(c, 40)}` passes the knots as nodes under a test of the degree", guarded, loc=f"{fi.module}.py:{c.lineno}",
                   detail="" if guarded else f"{q}: `{seg(c, 50)}` passes `{seg(knots[0], 30)}` as interpolation nodes whatever the degree: a vector of degree 0 has one knot more than control points, the constrained fit raises NotImplementedError — reached from A == B (both operands are refined to the common vector through this call) for piecewise constant curves on different knot vectors, where == and != raise instead of answering",
                   func=q, construct="knots as interpolation nodes without the degree test")
    chk.floor(rule, "refits that interpolate at the knots", n, floor)
    return n


# ---------------------------------------------------------------------------------------------------------
# SAMPLE-COUNT: the random weights are drawn with the requested count, not cut out of an array of fixed length
def sample_count(r: R, chk, qual: str = "knotspace.GeneratorKnotVector.random", rule="SAMPLE-COUNT"):
    """random(p, n) = weight(p, w) with len(w) = n - p spans, for EVERY n > p.  The sample that becomes w is made by a call that is
    given the count (`randint(a, b, n - p)`, `[f() for _ in range(n - p)]`); a slice `X[: n - p]` has n - p elements only while
    the array X is long enough — cut out of an array of fixed length the count is silently capped."""
    fi = r.prog.func(qual)
    fn = fi.node
    pos = _block_defs(fn)
    n = 0
    for c in ast.walk(fn):
        if not (isinstance(c, ast.Call) and seg(c.func).endswith("weight") and len(c.args) >= 2):
            continue
        st = _stmt_map(fn).get(id(c))
        e = resolve_reaching(fn, c.args[1], st, params=tuple(fi.params), pos=pos)
        # a list filled by `for x in SAMPLE: L.append(f(x))`: the sample is what the loop walks
        extra = []
        if isinstance(c.args[1], ast.Name):
            for lp in ast.walk(fn):
                if isinstance(lp, ast.For) and any(isinstance(x, ast.Call) and isinstance(x.func, ast.Attribute) and x.func.attr in ("append", "extend") and isinstance(x.func.value, ast.Name) and x.func.value.id == c.args[1].id for b in lp.body for x in ast.walk(b)):
                    extra.append(resolve_reaching(fn, lp.iter, lp, params=tuple(fi.params), pos=pos))
        if extra:
            e = ast.Tuple(elts=[e] + extra, ctx=ast.Load())
        n += 1
        slices = [x for x in ast.walk(e) if isinstance(x, ast.Subscript) and isinstance(x.slice, ast.Slice)]
        capped = []
        for sl in slices:
            base = sl.value
            # the array that is sliced has a length fixed by constants only (permutation(999), arange(1000), a literal list)
            names = [y for y in ast.walk(base) if isinstance(y, ast.Name) and y.id in fi.params]
            if not names:
                capped.append(sl)
        sized = [x for x in ast.walk(e) if isinstance(x, ast.Call) and any(isinstance(y, ast.BinOp) and isinstance(y.op, ast.Sub) and {z.id for z in ast.walk(y) if isinstance(z, ast.Name)} >= {"npts", "degree"} for a in list(x.args) + [k.value for k in x.keywords] for y in ast.walk(a))]
        ok = not capped and bool(sized)
        chk.ob(rule, f"{qual}: the weights of `{seg(c, 40)}` are drawn with the count npts - degree", ok, loc=f"{fi.module}.py:{c.lineno}",
               detail="" if ok else (f"{qual}: the weights handed to `{seg(c, 40)}` are the slice `{seg(capped[0], 50)}` of an array whose length does not depend on the request: for npts - degree beyond that length the slice is shorter than asked and random(p, n) silently returns a vector with fewer control points than requested" if capped else f"{qual}: no call on the way to the weights of `{seg(c, 40)}` is given the count npts - degree"),
               func=qual, construct="sample count capped by a fixed array")
    chk.floor(rule, f"calls of weight(...) in {qual}", n, 1)
    return n


# ---------------------------------------------------------------------------------------------------------
# TOL-AGREE: the per-piece and the whole-curve selection of the best pairs use one tolerance
def tol_agree(r: R, chk, module: str = "advanced", callee: str = "pairs_min_distance", rule="TOL-AGREE"):
    """`pairs_min_distance(pairs, A, B, tol)` keeps the pairs whose residual is within tol of the best one.  It is applied to the
    candidates of every pair of pieces and again to their union: the clamped candidate of a NEIGHBOURING piece (a Newton iterate
    stopped at the piece's end) survives its own piece pair, where it is alone, and is dropped at the curve level because the true
    crossing is better by more than tol.  The second selection therefore may not be more tolerant than the first: every call
    site gives the same tolerance (the default, or one expression)."""
    sites = []
    for q, fi in sorted(r.prog.funcs.items()):
        if fi.module != module:
            continue
        for c in ast.walk(fi.node):
            if isinstance(c, ast.Call) and seg(c.func).endswith(callee):
                tol = next((k.value for k in c.keywords if k.arg == "tolerance"), c.args[3] if len(c.args) > 3 else None)
                sites.append((q, fi, c, "default" if tol is None else seg(tol)))
    # the default of the callee stands for a site that gives none; constants are compared by value (1e-9 == 0.000000001)
    dflt = None
    for q, fi in r.prog.funcs.items():
        if fi.module == module and q.endswith("." + callee):
            a = fi.node.args
            names = [x.arg for x in a.args]
            if "tolerance" in names and len(a.defaults) >= len(names) - names.index("tolerance"):
                dflt = seg(a.defaults[names.index("tolerance") - (len(names) - len(a.defaults))])

    def canon(t):
        t = dflt if (t == "default" and dflt is not None) else t
        try:
            return repr(float(ast.literal_eval(t)))
        except Exception:
            return t

    sites = [(q, fi, c, canon(t)) for q, fi, c, t in sites]
    vals = sorted({s[3] for s in sites})
    for q, fi, c, t in sites:
        ok = len(vals) <= 1
        chk.ob(rule, f"{q}: `{seg(c, 40)}` uses the common tolerance ({t})", ok, loc=f"{fi.module}.py:{c.lineno}",
               detail="" if ok else f"{q}: `{seg(c, 60)}` selects with tolerance {t} while the other call sites use {', '.join(v for v in vals if v != t)}: with a more tolerant selection on the union than on the pieces, the clamped candidate of the neighbouring piece (residual below the bound, parameters off by up to 1e-7) is kept next to the true crossing — one crossing just past a polyline vertex comes back as two pairs, one of them with wrong parameters",
               func=q, construct="selection tolerances differ")
    chk.floor(rule, f"call sites of {callee}", len(sites), 2)
    return len(sites)


# ---------------------------------------------------------------------------------------------------------
# ERROR-COVERS: every quantity the fit replaces by its projection is measured by the error that is returned
def error_covers(r: R, chk, qual: str = "curves.Curve.fit_curve", rule="ERROR-COVERS", floor: int = 2):
    """`Y = T @ X` replaces X by its least-squares image; `X^T E X` is the squared distance between the two.  In the branch that
    fits homogeneous coordinates both the weighted points AND the weights are replaced: the error handed to the tolerance gate
    contains the quadratic form of E for each of them — with the weights left out, a rational curve whose weighted points are
    reducible but whose weights are not is 'reduced' without error.  (T, E) are the two results of the least-squares operator
    (`T, E = spline2spline(...)` / `func2func(...)`), under whatever names — followed through copies and `np.array`."""
    fi = r.prog.func(qual)
    fn = fi.node
    pos = _block_defs(fn)
    tnames, enames = set(), set()
    for a in ast.walk(fn):
        if isinstance(a, ast.Assign) and len(a.targets) == 1 and isinstance(a.targets[0], ast.Tuple) and len(a.targets[0].elts) == 2 and isinstance(a.value, ast.Call) \
                and all(isinstance(t, ast.Name) for t in a.targets[0].elts) and any(seg(a.value.func).endswith(sfx) for sfx in ("spline2spline", "func2func", "lstsq")):
            tnames.add(a.targets[0].elts[0].id)
            enames.add(a.targets[0].elts[1].id)
    grow = True
    while grow:
        grow = False
        for a in ast.walk(fn):
            if isinstance(a, ast.Assign) and len(a.targets) == 1 and isinstance(a.targets[0], ast.Name):
                v = a.value
                while isinstance(v, ast.Call) and seg(v.func) in ("np.array", "np.asarray", "tuple") and v.args:
                    v = v.args[0]
                if isinstance(v, ast.Name):
                    for grp in (tnames, enames):
                        if v.id in grp and a.targets[0].id not in grp:
                            grp.add(a.targets[0].id)
                            grow = True
    keep = tuple(tnames | enames)
    loops = [l for l in ast.walk(fn) if isinstance(l, ast.For) and isinstance(l.iter, (ast.Tuple, ast.List)) and isinstance(l.target, ast.Name)]

    def text(e, at):
        return seg(resolve_reaching(fn, e, at, keep=keep, params=tuple(fi.params), pos=pos), 400)

    def with_matrix(e, names):
        """operands that meet one of the matrices `names` in a call / a matrix product"""
        out = []
        for c in ast.walk(e):
            if isinstance(c, ast.Call):
                args = list(c.args) + [k.value for k in c.keywords]
                if any(isinstance(a, ast.Name) and a.id in names for a in args):
                    out += [a for a in args if not (isinstance(a, ast.Name) and a.id in names)]
            if isinstance(c, ast.BinOp) and isinstance(c.op, ast.MatMult) and isinstance(c.left, ast.Name) and c.left.id in names:
                out.append(c.right)
        return out

    n = 0
    sm = _stmt_map(fn)
    for ret in ast.walk(fn):
        if not (isinstance(ret, ast.Return) and ret.value is not None):
            continue
        # the statements before the return, in its own block and the enclosing ones
        before, cur = [], ret
        while cur is not None and id(cur) in pos:
            stmts, idx, up = pos[id(cur)]
            before = list(stmts[:idx]) + before
            cur = up
        fitted = []
        for st in before:
            if isinstance(st, ast.Assign):
                for x in with_matrix(st.value, tnames):
                    if not isinstance(x, ast.Constant):
                        fitted.append((st, x, text(x, st)))
        if not fitted:
            continue
        err = resolve_reaching(fn, ret.value, ret, keep=keep, params=tuple(fi.params), pos=pos)
        measured = {seg(x, 400) for x in with_matrix(err, enames)}
        for st in before:
            for node in ast.walk(st):
                if not isinstance(node, (ast.Call, ast.BinOp)):
                    continue
                for x in with_matrix(node, enames) if not any(isinstance(ch, (ast.Call, ast.BinOp)) and ch is not node and with_matrix(ch, enames) for ch in ast.iter_child_nodes(node)) else []:
                    at = sm.get(id(node)) or st
                    lp = next((l for l in loops if isinstance(x, ast.Name) and l.target.id == x.id and any(y is node for b in l.body for y in ast.walk(b))), None)
                    if lp is not None:
                        measured |= {text(el, lp) for el in lp.iter.elts}
                    else:
                        measured.add(text(x, at))
        for st, x, tx in fitted:
            n += 1
            ok = tx in measured
            chk.ob(rule, f"{qual}: the error returned at line {ret.lineno} measures `{seg(x, 30)}` (fitted at line {st.lineno})", ok, loc=f"{fi.module}.py:{st.lineno}",
                   detail="" if ok else f"{qual}: `{seg(st, 50)}` replaces `{seg(x, 30)}` by its least-squares image, but the error returned at line {ret.lineno} (`{seg(err, 80)}`) contains no quadratic form of the error matrix for it: what the fit changes in `{seg(x, 30)}` is not counted, so a reduction that changes the curve through that quantity alone (a rational curve whose weighted points are degree-reducible while its weights are not) is accepted with error 0 — degree_decrease / knot_remove / clean change the function silently",
                   func=qual, construct=f"error ignores the fitted {seg(x, 20)}")
    chk.floor(rule, f"fitted quantities in {qual}", n, floor)
    return n


# ---------------------------------------------------------------------------------------------------------
# INT-RATIO: no true division of one control value (weight / control point) by another
def _value_leaves(fn, e, at, pos, depth=6):
    """the attributes an expression is read from, through subscripts and local copies; None when anything else takes part"""
    out = set()

    def go(x, at_, d):
        if isinstance(x, ast.Subscript):
            return go(x.value, at_, d)
        if isinstance(x, ast.Attribute):
            out.add(x.attr)
            return True
        if isinstance(x, ast.Call) and seg(x.func) in ("tuple", "list") and len(x.args) == 1:
            return go(x.args[0], at_, d)
        if isinstance(x, ast.IfExp):
            return go(x.body, at_, d) and go(x.orelse, at_, d)
        if isinstance(x, (ast.Tuple, ast.List)):
            return all(isinstance(y, ast.Constant) and isinstance(y.value, int) for y in x.elts) and bool(x.elts)
        if isinstance(x, ast.BinOp) and isinstance(x.op, ast.Mult) and isinstance(x.left, (ast.Tuple, ast.List)):
            return go(x.left, at_, d)  # (1,) * n: stand-in integer weights
        if isinstance(x, ast.Name) and d > 0:
            def value_of(st_):
                """the expression assigned to x by `x = e` or element-wise by `x, y = e1, e2`"""
                if not (isinstance(st_, ast.Assign) and len(st_.targets) == 1):
                    return None
                tg = st_.targets[0]
                if isinstance(tg, ast.Name) and tg.id == x.id:
                    return st_.value
                if isinstance(tg, ast.Tuple) and isinstance(st_.value, ast.Tuple) and len(tg.elts) == len(st_.value.elts):
                    for t_, v_ in zip(tg.elts, st_.value.elts):
                        if isinstance(t_, ast.Name) and t_.id == x.id:
                            return v_
                return None

            st = reaching_assign(fn, at_, x.id, pos, compound=True)
            if isinstance(st, ast.If):
                oks = []
                for s_ in ast.walk(st):
                    v_ = value_of(s_)
                    if v_ is not None:
                        oks.append(go(v_, s_, d - 1))
                prev = reaching_assign(fn, st, x.id, pos, compound=True)
                depth_guard = 0
                while isinstance(prev, ast.If) and depth_guard < 4:
                    for s_ in ast.walk(prev):
                        v_ = value_of(s_)
                        if v_ is not None:
                            oks.append(go(v_, s_, d - 1))
                    prev = reaching_assign(fn, prev, x.id, pos, compound=True)
                    depth_guard += 1
                v_ = value_of(prev)
                if v_ is not None:
                    oks.append(go(v_, prev, d - 1))
                return bool(oks) and all(oks)
            v_ = value_of(st)
            if v_ is not None:
                return go(v_, st, d - 1)
        return False

    return out if go(e, at, depth) else None


def int_ratio(r: R, chk, module: str = "curves", rule="INT-RATIO"):
    """Weights and control points may be Python ints (the property promises exact results for int data on Fraction knots).  A true
    division whose numerator AND denominator are both read straight from weights / control points — no knot, no matrix made from
    knots, no Fraction(...) / invert(...) in between — is int / int for such data: a float.  (point / weight after a product with
    a matrix of Fractions is not of this kind: the product made it a Fraction.)"""
    n = hits = 0
    for q, fi in sorted(r.prog.funcs.items()):
        if fi.module != module:
            continue
        fn = fi.node
        pos = sm = None
        for b in ast.walk(fn):
            if not (isinstance(b, ast.BinOp) and isinstance(b.op, ast.Div)):
                continue
            pos = pos or _block_defs(fn)
            sm = sm or _stmt_map(fn)
            st = sm.get(id(b))
            n += 1
            ll, rl = _value_leaves(fn, b.left, st, pos), _value_leaves(fn, b.right, st, pos)
            bad = bool(ll) and bool(rl) and (ll | rl) <= {"weights", "ctrlpoints"}
            hits += bad
            chk.ob(rule, f"{q}: `{seg(b, 40)}` is not a quotient of two control values", not bad, loc=f"{fi.module}.py:{b.lineno}",
                   detail="" if not bad else f"{q}: `{seg(b, 50)}` divides a value read from {sorted(ll)} by a value read from {sorted(rl)}: with int weights / control points on Fraction knots (data for which exact results are promised) this is int / int — a float, which then spreads into every weight, control point and evaluation of the result; exact code multiplies (or uses invert / Fraction) instead",
                   func=q, construct="int / int of control values")
    # positive control: the predicate recognises the pattern on a sample (the unchanged tree has no instance)
    sample = ast.parse("def f(a, b):\n    w0 = a.weights\n    w1 = b.weights\n    if w1 is None:\n        w1 = (1,) * 3\n    k = w0[-1] / w1[0]\n    return k\n").body[0]
    div = next(x for x in ast.walk(sample) if isinstance(x, ast.BinOp) and isinstance(x.op, ast.Div))
    sp, ss = _block_defs(sample), _stmt_map(sample)
    ctl = _value_leaves(sample, div.left, ss[id(div)], sp) == {"weights"} and _value_leaves(sample, div.right, ss[id(div)], sp) == {"weights"}
    chk.floor(rule, "positive control: the quotient of two weights in the built-in sample is recognised", int(ctl), 1)
    chk.floor(rule, f"true divisions in {module}", n, 5)
    return n


# ---------------------------------------------------------------------------------------------------------
# NODE-EACH: nothing in an evaluation over a sequence of nodes is taken from ONE particular node
def node_each(r: R, chk, quals: List[str], param: str = "nodes", rule="NODE-EACH", floor: int = 2):
    """C(u_k) for a sequence (u_k) is one value per node, each computed from its own node: `nodes[0]` (a typed zero, a dtype, a
    shape taken from the first node) makes the values of all other nodes depend on the first one — a float first node turns the
    exact values at the Fraction nodes into floats — and raises IndexError for the empty sequence, which has the answer ()."""
    n = 0
    for q in quals:
        fi = r.prog.func(q)
        if param not in fi.params:
            continue
        n += 1
        hits = [s for s in ast.walk(fi.node) if isinstance(s, ast.Subscript) and isinstance(s.value, ast.Name) and s.value.id == param and isinstance(s.ctx, ast.Load)
                and (isinstance(s.slice, ast.Constant) or (isinstance(s.slice, ast.UnaryOp) and isinstance(s.slice.operand, ast.Constant)))]
        ok = not hits
        chk.ob(rule, f"{q}: no element of `{param}` at a fixed position is read", ok, loc=f"{fi.module}.py:{hits[0].lineno if hits else fi.node.lineno}",
               detail="" if ok else f"{q}: `{seg(hits[0], 30)}` reads ONE particular node of the caller's sequence: what is made from it (a typed zero, a dtype) is used for the values of all nodes — with a float first and Fraction later nodes the exact values come back as floats — and the empty sequence raises IndexError instead of giving ()",
               func=q, construct=f"{param} read at a fixed position")
    sample = ast.parse("def f(nodes):\n    z = 0 * nodes[0]\n    return [z for _ in nodes]\n").body[0]
    ctl = any(isinstance(s, ast.Subscript) and isinstance(s.value, ast.Name) and s.value.id == "nodes" and isinstance(s.slice, ast.Constant) for s in ast.walk(sample))
    chk.floor(rule, "positive control: `nodes[0]` in the built-in sample is recognised", int(ctl), 1)
    chk.floor(rule, f"evaluation functions with a `{param}` parameter examined", n, floor)
    return n


# ---------------------------------------------------------------------------------------------------------
# LSTSQ-ROWS: the matrix of the normal equations is the caller's matrix, every equation with its own weight 1
def lstsq_rows(r: R, chk, qual: str = "heavy.Linalg.lstsq", rule="LSTSQ-ROWS"):
    """(A^T A)^-1 A^T minimises sum_k r_k^2.  Multiplying the k-th equation by c_k minimises sum_k c_k^2 r_k^2 — the same solution
    only when the data are consistent (then every r_k is 0 anyway).  What enters `solve(X.T @ X, X.T)` is the parameter through
    conversions only (np.array, tuple, transpose); no product / quotient is applied to it on the way."""
    fi = r.prog.func(qual)
    fn = fi.node
    pos = _block_defs(fn)
    sm = _stmt_map(fn)
    n = 0
    for c in ast.walk(fn):
        if not (isinstance(c, ast.Call) and seg(c.func).endswith("solve") and len(c.args) == 2):
            continue
        e = resolve_reaching(fn, c.args[0], sm.get(id(c)), params=tuple(fi.params), pos=pos)
        if not any(isinstance(x, ast.BinOp) and isinstance(x.op, ast.MatMult) for x in ast.walk(e)) and not any(isinstance(x, ast.Call) and seg(x.func) in ("np.dot", "np.matmul") for x in ast.walk(e)):
            continue  # the square case: solve(A, I)
        n += 1
        arith = [x for x in ast.walk(e) if isinstance(x, ast.BinOp) and isinstance(x.op, (ast.Mult, ast.Div, ast.Add, ast.Sub)) and any(isinstance(y, ast.Name) for y in ast.walk(x))]
        unresolved = any(isinstance(x, ast.Name) and x.id == "__unresolved__" for x in ast.walk(e))
        ok = not arith and not unresolved
        chk.ob(rule, f"{qual}: the normal equations of `{seg(c, 40)}` are built from the caller's matrix as it is", ok, loc=f"{fi.module}.py:{c.lineno}",
               detail="" if ok else f"{qual}: the matrix of `{seg(c, 50)}` is `{seg(e, 90)}`: the caller's equations are {'rescaled (`' + seg(arith[0], 40) + '`)' if arith else 'rebuilt in a way that is not followed'} before the normal equations are formed — a weighted least squares: sum_k c_k^2 r_k^2 is minimised instead of sum_k r_k^2, so for data outside the space the residual of fit_points is no longer orthogonal to the basis (consistent data are still reproduced, which is all the tests look at)",
               func=qual, construct="equations rescaled before the normal equations")
    chk.floor(rule, f"normal equations in {qual}", n, 1)
    return n


# ---------------------------------------------------------------------------------------------------------
# INT-MATRIX: a transformation matrix that can be an integer identity is multiplied as a matrix of objects
def int_matrix(r: R, chk, quals: List[str], rule="INT-MATRIX", floor: int = 2):
    """The matrices of heavy.Operations / MathOperations hold Fractions for Fraction knots — except where nothing has to be done
    (equal knot vectors: no knot inserted, no degree raised): then they are identities of Python ints.  `np.array(M)` of those is
    an int64 array, and its product with integer control points is int64 arithmetic: 2**62 + 2**62 wraps around silently.  Where
    such a matrix is the left factor of a product, it is converted with dtype="object"."""
    n = 0
    for q in quals:
        fi = r.prog.func(q)
        fn = fi.node
        pos = _block_defs(fn)
        sm = _stmt_map(fn)
        # names bound (directly or by tuple unpacking) to a result of the heavy transformation helpers
        mats = set()
        for a in ast.walk(fn):
            if isinstance(a, ast.Assign) and isinstance(a.value, ast.Call) and any(k in seg(a.value.func) for k in ("Operations.", "add_spline_curve", "matrix_transformation")):
                for t in a.targets:
                    mats |= _target_names(t)
        for c in ast.walk(fn):
            if not (isinstance(c, ast.Call) and seg(c.func) in ("np.array", "np.asarray") and c.args and isinstance(c.args[0], ast.Name) and c.args[0].id in mats):
                continue
            n += 1
            ok = any(k.arg == "dtype" and "object" in seg(k.value) for k in c.keywords)
            chk.ob(rule, f"{q}: `{seg(c, 40)}` is a matrix of objects", ok, loc=f"{fi.module}.py:{c.lineno}",
                   detail="" if ok else f"{q}: `{seg(c, 40)}` lets numpy choose the dtype: for equal knot vectors the transformation is an identity of Python ints, the array is int64 and its product with integer control points (or with the other integer matrix) is computed in 64 bits — Curve(U, [2**62, 1]) + Curve(U, [2**62, 1]) has the control point -9223372036854775808, silently",
                   func=q, construct="transformation matrix converted without dtype=object")
    chk.floor(rule, "conversions of transformation matrices to arrays", n, floor)
    return n
