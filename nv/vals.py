"""Abstract values of the interpreter (product domain: types x points-to x dependences x number kind)."""
from __future__ import annotations

from typing import Optional, Tuple

EMPTY = frozenset()
MAXDEPTH = 3
MAXCONST = 10

# number kinds
#  I library integer (len, range, int literal, counters)   Z user int   Q user Fraction / exact rational
#  F float introduced by the library or given            U unknown number   N not a number
IMMUTABLE_TY = frozenset({"int", "float", "number", "bool", "str", "None", "tuple", "func", "cls", "const"})


def root_of(obj) -> Optional[int]:
    while True:
        k = obj[0]
        if k == "P":
            return obj[1]
        if k in ("F", "E"):
            obj = obj[1]
            continue
        return None


def top_src(obj):
    """dependence source that stands for an object reachable from a parameter: the parameter's
    top-level field it hangs under (PF) or the parameter itself (P); None for fresh / global objects"""
    chain = []
    o = obj
    while o[0] in ("F", "E"):
        chain.append(o)
        o = o[1]
    if o[0] != "P":
        return None
    if chain and chain[-1][0] == "F":
        return ("PF", o[1], chain[-1][2])
    return ("P", o[1])


def obj_depth(obj) -> int:
    d = 0
    while obj[0] in ("F", "E"):
        obj = obj[1]
        d += 1
    return d


class Val:
    __slots__ = ("ty", "pts", "dep", "mdep", "kind", "fsrc", "const", "elem", "items", "dmap", "_h", "_b")

    def __init__(
        self,
        ty=EMPTY,
        pts=EMPTY,
        dep=EMPTY,
        mdep=EMPTY,
        kind=EMPTY,
        fsrc=EMPTY,
        const=None,
        elem: Optional["Val"] = None,
        items: Optional[Tuple["Val", ...]] = None,
        dmap=None,
    ):
        self.ty = frozenset(ty)
        self.pts = frozenset(pts)
        self.dep = frozenset(dep)
        self.mdep = frozenset(mdep)
        self.kind = frozenset(kind)
        self.fsrc = frozenset(fsrc)
        self.const = None if const is None else frozenset(const)
        self.elem = elem
        self.items = items
        self.dmap = dmap  # tuple of (key, Val) for dict literals
        self._h = None
        self._b = None

    # -- structural equality ------------------------------------------------
    def key(self):
        if self._h is None:
            self._h = (
                self.ty,
                self.pts,
                self.dep,
                self.mdep,
                self.kind,
                self.fsrc,
                self.const,
                None if self.elem is None else self.elem.key(),
                None if self.items is None else tuple(i.key() for i in self.items),
                None if self.dmap is None else tuple((k, v.key()) for k, v in self.dmap),
            )
        return self._h

    def __eq__(self, o):
        return isinstance(o, Val) and self.key() == o.key()

    def __hash__(self):
        return hash(self.key())

    def __repr__(self):
        parts = ["|".join(sorted(self.ty)) or "-"]
        if self.kind:
            parts.append("k=" + "".join(sorted(self.kind)))
        if self.pts:
            parts.append("pts=" + ",".join(sorted(fmt_obj(o) for o in self.pts)))
        if self.dep:
            parts.append("dep=" + ",".join(sorted(fmt_src(s) for s in self.dep)))
        if self.const is not None:
            parts.append("const=" + ",".join(sorted(map(str, self.const))))
        if self.elem is not None:
            parts.append("elem=<" + repr(self.elem) + ">")
        if self.items is not None:
            parts.append(f"items[{len(self.items)}]")
        return "Val(" + " ".join(parts) + ")"

    # -- helpers ----------------------------------------------------------------
    def with_(self, **kw) -> "Val":
        d = dict(
            ty=self.ty,
            pts=self.pts,
            dep=self.dep,
            mdep=self.mdep,
            kind=self.kind,
            fsrc=self.fsrc,
            const=self.const,
            elem=self.elem,
            items=self.items,
            dmap=self.dmap,
        )
        d.update(kw)
        return Val(**d)

    def add_dep(self, dep=EMPTY, mdep=EMPTY) -> "Val":
        if (not dep or dep <= self.dep) and (not mdep or mdep <= self.mdep):
            return self
        return self.with_(dep=self.dep | dep, mdep=self.mdep | mdep)

    def all_kinds(self, depth=0) -> frozenset:
        k = set(self.kind)
        if depth < MAXDEPTH:
            if self.elem is not None:
                k |= self.elem.all_kinds(depth + 1)
            if self.items and not self.is_bound():
                for i in self.items:
                    k |= i.all_kinds(depth + 1)
        return frozenset(k)

    def all_fsrc(self, depth=0) -> frozenset:
        k = set(self.fsrc)
        if depth < MAXDEPTH:
            if self.elem is not None:
                k |= self.elem.all_fsrc(depth + 1)
            if self.items and not self.is_bound():
                for i in self.items:
                    k |= i.all_fsrc(depth + 1)
        return frozenset(k)

    def all_dep(self, depth=0) -> frozenset:
        k = set(self.dep)
        if depth < MAXDEPTH:
            if self.elem is not None:
                k |= self.elem.all_dep(depth + 1)
            if self.items and not self.is_bound():
                for i in self.items:
                    k |= i.all_dep(depth + 1)
        return frozenset(k)

    def all_mdep(self, depth=0) -> frozenset:
        k = set(self.mdep)
        if depth < MAXDEPTH:
            if self.elem is not None:
                k |= self.elem.all_mdep(depth + 1)
            if self.items and not self.is_bound():
                for i in self.items:
                    k |= i.all_mdep(depth + 1)
        return frozenset(k)

    def all_pts(self, depth=0) -> frozenset:
        k = set(self.pts)
        if depth < MAXDEPTH:
            if self.elem is not None:
                k |= self.elem.all_pts(depth + 1)
            if self.items and not self.is_bound():
                for i in self.items:
                    k |= i.all_pts(depth + 1)
        return frozenset(k)

    def insts(self):
        return sorted(t[5:] for t in self.ty if t.startswith("inst:"))

    def may_be(self, tag: str) -> bool:
        return tag in self.ty or "?" in self.ty

    def is_unknown(self) -> bool:
        return "?" in self.ty or not self.ty

    def trunc(self, depth=0) -> "Val":
        """cut nesting below MAXDEPTH (termination of the fixpoint)."""
        if self.elem is None and self.items is None and self.dmap is None:
            return self
        if depth >= MAXDEPTH:
            e = self.iter_join()
            extra_dep = e.all_dep() if e is not None else EMPTY
            extra_k = e.all_kinds() if e is not None else EMPTY
            extra_f = e.all_fsrc() if e is not None else EMPTY
            return self.with_(
                elem=None, items=None, dmap=None, dep=self.dep | extra_dep, kind=self.kind | extra_k, fsrc=self.fsrc | extra_f
            )
        return self.with_(
            elem=None if self.elem is None else self.elem.trunc(depth + 1),
            items=None if self.items is None else tuple(i.trunc(depth + 1) for i in self.items),
            dmap=None if self.dmap is None else tuple((k, v.trunc(depth + 1)) for k, v in self.dmap),
        )

    def is_bound(self) -> bool:
        """a bound-method value: `items` holds the receiver, not elements"""
        if self._b is None:
            self._b = any(t.startswith(("bfunc:", "umeth:")) for t in self.ty)
        return self._b

    def iter_join(self) -> Optional["Val"]:
        """joined value of the elements (elem / items / dict keys)"""
        out = self.elem
        if self.is_bound():
            return out
        if self.items:
            for i in self.items:
                out = i if out is None else join(out, i)
        return out


BOT = None  # bottom is represented by None where needed


def join(a: Optional[Val], b: Optional[Val]) -> Optional[Val]:
    if a is None:
        return b
    if b is None:
        return a
    if a is b or a.key() == b.key():
        return a
    if a.const is None or b.const is None:
        const = None
    else:
        const = a.const | b.const
        if len(const) > MAXCONST:
            const = None
    items = None
    elem = None
    if a.is_bound() or b.is_bound():
        ra = a.items[0] if a.is_bound() and a.items else None
        rb = b.items[0] if b.is_bound() and b.items else None
        rj = join(ra, rb)
        items = (rj,) if rj is not None else None
        elem = join(a.iter_join(), b.iter_join())
    elif a.items is not None and b.items is not None and len(a.items) == len(b.items):
        items = tuple(join(x, y) for x, y in zip(a.items, b.items))
        elem = join(a.elem, b.elem)
    else:
        elem = join(a.iter_join(), b.iter_join())
    dmap = None
    if a.dmap is not None and b.dmap is not None and [k for k, _ in a.dmap] == [k for k, _ in b.dmap]:
        dmap = tuple((k, join(v, w)) for (k, v), (_, w) in zip(a.dmap, b.dmap))
    elif a.dmap is not None or b.dmap is not None:
        for dm in (a.dmap, b.dmap):
            if dm:
                for _, v in dm:
                    elem = join(elem, v)
    return Val(
        ty=a.ty | b.ty,
        pts=a.pts | b.pts,
        dep=a.dep | b.dep,
        mdep=a.mdep & b.mdep,
        kind=a.kind | b.kind,
        fsrc=a.fsrc | b.fsrc,
        const=const,
        elem=elem,
        items=items,
        dmap=dmap,
    )


def joinall(vals) -> Optional[Val]:
    out = None
    for v in vals:
        out = join(out, v)
    return out


def fmt_obj(o) -> str:
    k = o[0]
    if k == "P":
        return f"P{o[1]}"
    if k == "F":
        return f"{fmt_obj(o[1])}.{o[2]}"
    if k == "E":
        return f"{fmt_obj(o[1])}[*]"
    if k == "N":
        return "new@" + str(o[1])
    if k == "G":
        return "global:" + str(o[1])
    return str(o)


def fmt_src(s) -> str:
    if s[0] == "P":
        return f"P{s[1]}"
    if s[0] == "PF":
        return f"P{s[1]}.{s[2]}"
    return ":".join(map(str, s))


UNKNOWN = Val(ty={"?"})
NONE = Val(ty={"None"}, const={None}, kind={"N"})


def mk_int(const=None) -> Val:
    return Val(ty={"int"}, kind={"I"}, const=const)


def mk_bool(const=None) -> Val:
    return Val(ty={"bool"}, kind={"N"}, const=const)


def mk_str(const=None) -> Val:
    return Val(ty={"str"}, kind={"N"}, const=const)
