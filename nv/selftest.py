"""thorough tier: seeded-fault / twin validation (filled in later)"""


def run(prop, chk, src):
    chk.selftest = {"status": "not yet built"}
