"""C01 — curve evaluation equals the B-spline / NURBS definition at every parameter."""
from __future__ import annotations

import ast

from ..index import exc_is_sub
from .common import CURVE_FIELDS, R, seg
from .c03 import v1_guard_in
from .c19 import clamp_tests
from .divisions import rule_d

NEED = ("generic",)
ESN = "heavy.eval_spline_nodes"
ERN = "heavy.eval_rational_nodes"
IKV = "heavy.ImmutableKnotVector."


def escapes(r: R, chk, chain, exc="ValueError", rule="X-ESCAPE"):
    """no handler on the call chain catches `exc` (or a superclass)"""
    for caller, callee_suffix in chain:
        ctx = r.root(caller)
        crs = [c for c in ctx.calls if any(f.qual.endswith(callee_suffix) for f in c.callees)]
        chk.floor(rule, f"call of *{callee_suffix} in {caller}", len(crs), 1)
        for cr in crs:
            hs = ctx.cfg.nodes[cr.cfgnode].handlers or []
            caught = [t for tr in hs for h in tr for t in h if exc_is_sub(exc, t)]
            ok = not caught
            chk.ob(rule, f"{caller}: {exc} raised under `{seg(cr.node, 40)}` is not caught here", ok, loc=r.loc(ctx, cr.node), detail="" if ok else f"{caller}: `except {caught[0]}` around `{seg(cr.node, 50)}` swallows the {exc} that a parameter outside the interval must produce", func=caller, construct=f"{exc} swallowed around {callee_suffix}")


def both_limits(r: R, chk, qual: str):
    ctx = r.root(qual)
    fi = ctx.fi
    lim = None
    for n in ast.walk(fi.node):
        if isinstance(n, ast.Assign) and isinstance(n.targets[0], ast.Tuple) and len(n.targets[0].elts) == 2 and "limits" in seg(n.value):
            lim = tuple(e.id for e in n.targets[0].elts if isinstance(e, ast.Name))
    chk.floor("BOTH-LIMITS", f"limits unpacking in {qual}", 1 if lim and len(lim) == 2 else 0, 1)
    node_param = fi.params[1]
    lo_ok = hi_ok = False

    def simple(c):
        if not (isinstance(c, ast.Compare) and len(c.ops) == 1):
            return None
        l, op, rr = c.left, c.ops[0], c.comparators[0]
        if isinstance(op, ast.Lt):
            return (l, True, rr)
        if isinstance(op, ast.LtE):
            return (l, False, rr)
        if isinstance(op, ast.Gt):
            return (rr, True, l)
        if isinstance(op, ast.GtE):
            return (rr, False, l)
        return None

    def disjuncts(e):
        if isinstance(e, ast.BoolOp) and isinstance(e.op, ast.Or):
            return [x for v in e.values for x in disjuncts(v)]
        return [e]

    def conjuncts(e):
        if isinstance(e, ast.BoolOp) and isinstance(e.op, ast.And):
            return [x for v in e.values for x in conjuncts(v)]
        if isinstance(e, ast.Compare) and len(e.ops) > 1:
            parts, left = [], e.left
            for op, rr in zip(e.ops, e.comparators):
                parts.append(ast.Compare(left=left, ops=[op], comparators=[rr]))
                left = rr
            return parts
        return [e]

    # comparisons whose truth makes the function answer False ("rejecting"), as (lower, strict, upper):
    #   if A or B: return False      return not (A or B)      return C and D  (rejecting: not C, not D)
    rejecting = []
    for t in [n for n in r.stmt_nodes(ctx) if n.kind == "test"]:
        arm_false = any(isinstance(ctx.cfg.nodes[x].ast, ast.Return) and isinstance(ctx.cfg.nodes[x].ast.value, ast.Constant) and ctx.cfg.nodes[x].ast.value.value is False for x, lab in t.succ if lab == "t")
        if arm_false and isinstance(t.ast, ast.UnaryOp) and isinstance(t.ast.op, ast.Not):
            # if not (lo <= node <= hi): return False   — rejecting: the negation of every conjunct
            for c in conjuncts(t.ast.operand):
                sc = simple(c)
                if sc is not None:
                    rejecting.append((sc[2], not sc[1], sc[0]))
        elif arm_false:
            rejecting += [simple(d) for d in disjuncts(t.ast)]
    for n in r.stmt_nodes(ctx):
        if isinstance(n.ast, ast.Return) and n.ast.value is not None:
            v = n.ast.value
            while isinstance(v, ast.Call) and seg(v.func) == "bool" and len(v.args) == 1:
                v = v.args[0]
            if isinstance(v, ast.UnaryOp) and isinstance(v.op, ast.Not):
                rejecting += [simple(d) for d in disjuncts(v.operand)]
            elif isinstance(v, (ast.BoolOp, ast.Compare)):
                for c in conjuncts(v):
                    sc = simple(c)
                    if sc is not None:
                        # not (a <= b)  ==  b < a
                        rejecting.append((sc[2], not sc[1], sc[0]))
    for rj in rejecting:
        if rj is None or lim is None or len(lim) != 2:
            continue
        lo_e, strict, hi_e = rj
        if isinstance(lo_e, ast.Name) and lo_e.id == node_param and isinstance(hi_e, ast.Name) and hi_e.id == lim[0] and strict:
            lo_ok = True
        if isinstance(hi_e, ast.Name) and hi_e.id == node_param and isinstance(lo_e, ast.Name) and lo_e.id == lim[1] and strict:
            hi_ok = True
    for side, ok in (("lower", lo_ok), ("upper", hi_ok)):
        chk.ob("BOTH-LIMITS", f"{qual}: a node beyond the {side} limit is invalid", ok, loc=r.loc(ctx, fi.node), detail="" if ok else f"{qual}: no comparison of the node with the {side} limit leads to `return False`: parameters beyond that end are accepted and evaluated", func=qual, construct=f"{side} limit not tested")


def run(m, chk):
    r = R(m, chk)
    chk.explanation = (
        "Static discharge of structural clauses of C01: in heavy.eval_spline_nodes every Horner evaluation is dominated by knotvector.span(node); span is dominated by the valid ⇒ ValueError guard; the single-node validity test "
        "compares with both limits; the ValueError escapes Curve.__call__ → eval → __eval → eval_spline_nodes / eval_rational_nodes (no handler on the chain catches it); the value depends on nodes, knot vector, control points and "
        "— rational branch — weights; divisors on the evaluation path are knot differences or the weight function, never a bare node. The value itself (span arithmetic, coefficient tables, right-continuity) is not decided."
    )
    chk.decides = ["NODE-EACH (no evaluation function reads one particular element of the caller's node sequence: every value comes from its own node, the empty sequence included)", "PARAM-KEPT (span and validity are decided on the caller's parameter itself, never on a value it was replaced by)", "WEIGHT-SCALE (nothing that scales with the weights is compared with a fixed number on the rational evaluation path)", "NODE-LOCAL (no loop over the caller's nodes keeps a forward-only cursor: the answer for a node does not depend on the nodes before it)", "ITER-ONCE (a one-pass iterable of nodes is materialised before anything else walks it)", "MEMO-KEY (no function on the path is memoised by the value of numbers / knot vectors)", "GATE(span before Horner)", "GATE-VALID(span)", "BOTH-LIMITS", "X-ESCAPE", "DEP-MAY", "ARG-FLOW(weights)", "D", 'HALF-OPEN (span tests on the evaluation path are a <= u < b)', 'POLY-ONLY', 'FORM-SELECT (one point for a scalar, a sequence for a sequence, decided by the form of the argument on every path)']
    chk.not_decided = ["curve(u) equals the Cox-de Boor sum", "right-continuity at interior knots / left limit at umax", "order of the results for a sequence"]
    # 1a span dominates horner
    ctx = r.root(ESN)
    horner = [c for c in ctx.calls if any(f.name == "horner_method" for f in c.callees)]
    spans = [c for c in ctx.calls if any(f.qual == IKV + "span" for f in c.callees)]
    chk.floor("GATE-SPAN", "Horner evaluations in eval_spline_nodes", len(horner), 1)
    node_spans = []
    for c in spans:
        a = c.args[0].get("nodes") if c.args else None
        if a is not None and ("P", 1) in a.all_dep():
            node_spans.append(c)
    from .c08 import path_facts

    def bounded_by_knots(nid):
        """every path that avoids span(node) established `a <= node <(=) b` with both bounds taken from the knot data
        (a cached span is reused)"""
        from .extra import path_facts_avoiding

        for txt, pol in path_facts_avoiding(ctx, nid, {s.cfgnode for s in node_spans}):
            try:
                t = ast.parse(txt, mode="eval").body
            except SyntaxError:
                continue
            if pol and isinstance(t, ast.Compare) and len(t.ops) == 2 and all(isinstance(o, (ast.Lt, ast.LtE)) for o in t.ops):
                mid = t.comparators[0]
                if isinstance(mid, ast.Name) and all(isinstance(x, ast.Subscript) for x in (t.left, t.comparators[1])):
                    return True
        return False

    for h in horner:
        ok = any(ctx.cfg.dominates(s.cfgnode, h.cfgnode) for s in node_spans)
        if not ok and node_spans:
            # every path that avoids span(node) must have re-validated the node against two knots
            avoid = {s.cfgnode for s in node_spans}
            ok = h.cfgnode not in ctx.cfg.reachable(ctx.cfg.entry, exc=False, avoid=avoid) or bounded_by_knots(h.cfgnode)
        chk.ob("GATE-SPAN", f"{ESN}: `{seg(h.node, 40)}` only after `knotvector.span(node)`", ok, loc=r.loc(ctx, h.node), detail="" if ok else f"{ESN}: a basis value is computed at {r.loc(ctx, h.node)} without `knotvector.span(node)` having validated the node: a parameter outside the interval yields a value instead of ValueError", func=ESN, construct="evaluation without span(node)")
    # 1a' span membership decided by comparisons is half-open on the right (right-continuity at interior knots)
    from .divisions import reachable_functions

    nho = 0

    def simple(c):
        """one comparison as (lower expr, strict?, upper expr) or None"""
        if not (isinstance(c, ast.Compare) and len(c.ops) == 1):
            return None
        l, op, rr = c.left, c.ops[0], c.comparators[0]
        if isinstance(op, ast.Lt):
            return (l, True, rr)
        if isinstance(op, ast.LtE):
            return (l, False, rr)
        if isinstance(op, ast.Gt):
            return (rr, True, l)
        if isinstance(op, ast.GtE):
            return (rr, False, l)
        return None

    def memberships(fnode):
        """(node, lower strict?, upper strict?) for every `a <op> u <op> b` with u a name and a, b subscripts — written as a
        chained comparison or as two comparisons joined with `and`"""
        out = []
        for c in ast.walk(fnode):
            if isinstance(c, ast.Compare) and len(c.ops) == 2 and all(isinstance(o, (ast.Lt, ast.LtE)) for o in c.ops) and isinstance(c.left, ast.Subscript) and isinstance(c.comparators[1], ast.Subscript) and isinstance(c.comparators[0], ast.Name):
                out.append((c, isinstance(c.ops[0], ast.Lt), isinstance(c.ops[1], ast.Lt)))
            elif isinstance(c, ast.BoolOp) and isinstance(c.op, ast.And):
                parts = [simple(v) for v in c.values]
                for i, p1 in enumerate(parts):
                    for j, p2 in enumerate(parts):
                        if i == j or p1 is None or p2 is None:
                            continue
                        # p1: a <op> u   p2: u <op> b
                        if isinstance(p1[0], ast.Subscript) and isinstance(p1[2], ast.Name) and isinstance(p2[0], ast.Name) and p2[0].id == p1[2].id and isinstance(p2[2], ast.Subscript):
                            out.append((c, p1[1], p2[1]))
        return out

    for q2 in reachable_functions(r, ["curves.Curve.eval", "functions.FunctionEvaluator.eval"]):
        f2 = r.prog.func(q2)
        for c, lo_strict, hi_strict in memberships(f2.node):
            nho += 1
            ok = (not lo_strict) and hi_strict
            chk.ob("HALF-OPEN", f"{q2}: `{seg(c, 50)}` is half-open on the right", ok, loc=f"{f2.module}.py:{c.lineno}",
                   detail="" if ok else f"{q2}: the span membership test `{seg(c, 60)}` is not `a <= u < b`: a parameter equal to an interior knot is attributed to the span on its left, so the value there is the left limit instead of the right-continuous value (visible at knots of multiplicity degree+1 / degree 0)",
                   func=q2, construct=f"span test not half-open: {seg(c, 40)}")
    chk.floor("HALF-OPEN", "span membership comparisons on the evaluation path", nho, 1)
    # 1b span guarded
    sq = IKV + "span"
    c2 = r.root(sq)
    guards = v1_guard_in(r, sq, "nodes")
    from .c03 import _is_valid_probe

    work = [n for n in r.stmt_nodes(c2) if n.kind == "stmt" and not isinstance(n.ast, ast.Raise) and not (isinstance(n.ast, ast.Expr) and isinstance(n.ast.value, ast.Constant)) and not _is_valid_probe(n.ast)]
    bad = [n for n in work if not any(r.guard_dominates(c2, g, n.id) for g in guards)]
    chk.ob("GATE-VALID", f"{sq}: everything after `if not self.valid(nodes): raise ValueError`", not bad, loc=r.loc(c2, bad[0].ast) if bad else r.loc(c2, c2.fi.node), detail="" if not bad else f"{sq}: `{seg(bad[0].ast, 50)}` is reachable without the valid ⇒ ValueError guard", func=sq, construct="unguarded query")
    both_limits(r, chk, IKV + "__valid_single")
    # valid() consults __valid_single for every node
    vq = IKV + "valid"
    c3 = r.root(vq)
    okv = any(f.name.endswith("valid_single") for c in c3.calls for f in c.callees)
    chk.ob("BOTH-LIMITS", f"{vq}: reaches the single-node test", okv, loc=r.loc(c3, c3.fi.node), detail="" if okv else f"{vq}: no longer calls the single-node interval test", func=vq, construct="valid skips the interval test")
    # 1c escape
    escapes(r, chk, [("curves.BaseCurve.__call__", ".eval"), ("curves.Curve.eval", ".__eval"), ("curves.Curve.__eval", "eval_spline_nodes"), ("curves.Curve.__eval", "eval_rational_nodes"), (ERN, "eval_spline_nodes"), (ESN, ".span")])
    # 3 dependence
    q = "curves.Curve.eval"
    c4 = r.root(q)
    for nid, v in sorted(c4.ret_sites.items()):
        have = r.deep_dep(c4, v, heap=c4.ret_states[nid].heap)
        need = ["nodes", "self.knotvector", "self.ctrlpoints", "self.weights"]
        miss = [w for w in r.srcs(c4.fi, need) if not R.dep_has(have, w)]
        chk.ob("DEP-MAY", f"{q}: the value depends on {', '.join(need)}", not miss, loc=r.loc(c4, c4.cfg.nodes[nid].ast), detail="" if not miss else f"{q}: the evaluated point does not depend on {r.fmt_deps(c4.fi, miss)}", func=q, construct=f"value ignores {r.fmt_deps(c4.fi, miss)}")
    from .c05 import arg_flow
    arg_flow(r, chk, "ARG-FLOW", "curves.Curve.__eval", "eval_rational_nodes", "weights", ["self.weights"])
    arg_flow(r, chk, "ARG-FLOW", "curves.Curve.__eval", "eval_rational_nodes", "nodes", ["nodes"])
    arg_flow(r, chk, "ARG-FLOW", "curves.Curve.__eval", "eval_spline_nodes", "nodes", ["nodes"])
    arg_flow(r, chk, "ARG-FLOW", "curves.Curve.__eval", "eval_spline_nodes", "knotvector", ["self.knotvector"])
    rule_d(r, chk, ["curves.Curve.eval"], floor=4)
    from .extra import form_select, poly_only

    form_select(r, chk, q, "nodes")
    poly_only(r, chk, ["curves.Curve.__eval"], floor=1)
    r.pure("PURE", q, ["self", "nodes"])
    from .extra import memo_key

    nm = memo_key(r, chk, entries=['curves.Curve.eval', 'curves.Curve.__call__'])
    from .homog import weight_scale

    weight_scale(r, chk, ['heavy.eval_rational_nodes', 'functions.FunctionEvaluator.__compute_vector', 'curves.Curve.__eval'], floor=3)
    from .extra import param_kept

    param_kept(r, chk, ['heavy.ImmutableKnotVector.__span_single', 'heavy.ImmutableKnotVector.__valid_single'])
    from .extra import node_local

    node_local(r, chk, ['curves.Curve.eval', 'curves.Curve.__call__', 'functions.FunctionEvaluator.eval'], floor=4)
    chk.floor("MEMO-KEY", "functions reachable from the entry points examined for value-keyed memoisation", nm, 3)
    from .extra import node_each

    node_each(r, chk, ["heavy.eval_spline_nodes", "heavy.eval_rational_nodes", "curves.Curve.eval", "curves.Curve.__eval", "curves.BaseCurve.__call__"], floor=4)
    from .extra import iter_once

    iter_once(r, chk, "curves.Curve.eval", "nodes")
