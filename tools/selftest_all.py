"""evaluate every self-validation variant for every property it is tagged with (16 jobs)"""
import sys, os, json, time
sys.path.insert(0, os.path.dirname(os.path.dirname(os.path.abspath(__file__))))
from concurrent.futures import ProcessPoolExecutor
from nv import REPO_SRC
from nv.selftest import VARIANTS as _V, _eval, seeded_variants, refactor_variants
VARIANTS = _V + seeded_variants() + refactor_variants()
from nv.cli import run_property

def base(prop):
    m, chk = run_property(prop, "quick", REPO_SRC)
    return [list(f.key()) for f in chk.findings]

if __name__ == "__main__":
    only = sys.argv[1:]
    props = sorted({p for v in VARIANTS for p in v["props"]})
    bases = {p: base(p) for p in props}
    jobs = [(p, v, REPO_SRC, bases[p]) for v in VARIANTS for p in v["props"] if not only or v["id"] in only or p in only]
    t = time.time()
    with ProcessPoolExecutor(16) as ex:
        res = list(ex.map(_eval, jobs))
    bad = 0
    for (p, v, _, _), r in zip(jobs, res):
        good = r["status"].startswith("detected") or r["status"] == "silent" or (v.get("optional") and r["status"] == "skipped")
        if not good:
            bad += 1
        print(f"{'ok ' if good else 'BAD'} {p} {v['id']:28s} {r['status']:24s} {r.get('wall', 0):5}s {str(r.get('how', r.get('new', r.get('why', ''))))[:230]}")
    print(len(jobs), "evaluations", bad, "bad", round(time.time() - t), "s")
