from fractions import Fraction as F
import numpy as np, traceback, warnings, signal
warnings.simplefilter("ignore")
from compmec.nurbs import Curve, KnotVector, GeneratorKnotVector, Function, Derivate, Integrate, Projection, Intersection
from compmec.nurbs import heavy
class TO(Exception): pass
def handler(s,f): raise TO()
signal.signal(signal.SIGALRM, handler)
def show(title, fn):
    print("==", title)
    signal.alarm(10)
    try:
        r = fn()
        print("   ->", r)
    except BaseException as e:
        print("   EXC", type(e).__name__, str(e)[:150])
    signal.alarm(0)

# tolerance = 0
c = Curve([0,0,0,F(1,2),1,1,1],[F(0),F(1),F(5),F(2)])
show("knot_remove tol=0 nonremovable", lambda: c.knot_remove([F(1,2)], tolerance=0))
print("   ", c.knotvector, c.ctrlpoints)
c = Curve([0,0,0,F(1,2),1,1,1],[F(0),F(1),F(5),F(2)])
show("knot_remove tol default nonremovable", lambda: c.knot_remove([F(1,2)]))
print("   ", c.knotvector, c.ctrlpoints)

# s / A
A = Curve([0,0,1,1],[F(1),F(2)])
show("2/A at 0", lambda: ((2/A)(F(0)), (1/A)(F(0))))
show("2/A rational", lambda: ((2/(1/A))(F(0)),))

# union different degrees
U = KnotVector([0,0,F(1,2),1,1]); V = KnotVector([0,0,0,1,1,1])
show("U|V", lambda: (U|V, V|U))
a = Curve(U,[F(0),F(1),F(0)]); b = Curve(V,[F(0),F(1),F(0)])
show("a+b diff degrees", lambda: ((a+b)(F(1,4)), a(F(1,4))+b(F(1,4))))
U = KnotVector([0,0,0,F(1,2),F(1,2),1,1,1]); V = KnotVector([0,0,0,0,F(1,2),1,1,1,1])
show("U|V 2", lambda: (U|V, V|U))

# normalize float
kv = GeneratorKnotVector.integer(1, 50, float); kv.normalize()
show("normalize float 49", lambda: (kv[-1], kv.limits))
kv = GeneratorKnotVector.uniform(1, 50, float)
show("uniform(1,50,float) limits", lambda: kv.limits)
bad = [n for n in range(2,200) if GeneratorKnotVector.uniform(1, n, float)[-1] != 1.0]
print("   uniform float npts with last != 1:", bad[:20])

# knot insert without ctrlpoints outside
c = Curve([0,0,1,1])
show("knot_insert outside no ctrlpts", lambda: c.knot_insert([2]))
print("   ", c.knotvector)
# find_roots exact zero
c = Curve([0,0,1,1],[1,2])
def f():
    c.weights=[1,-1]
show("weights with root exactly at sample", f)
def f2():
    c.weights=[-1,3]
show("weights with root", f2)
print(c.weights)
# span nan
show("span nan", lambda: KnotVector([0,0,1,1]).span(float('nan')))
# int64 in Linalg.solve
show("Linalg.solve big ints", lambda: heavy.Linalg.solve(((1,0),(0,1)), ((2**70,0),(0,1))))
