"""C06 — degree elevation is exact; degree reduction is its inverse or is refused."""
from __future__ import annotations

import ast

from ..vals import fmt_obj, root_of
from .common import CURVE_FIELDS, R, seg
from .c04 import committed_deps, no_inplace_elem
from .c05 import arg_flow, fit_flow, no_swallow, rule_n, tolerance_gate
from .divisions import rule_d

NEED = ("generic",)
C = "curves.Curve."


def run(m, chk):
    r = R(m, chk)
    chk.explanation = (
        "Static discharge of structural clauses of C06: degree_decrease goes through the tolerance gate of BaseCurve.update (GATE, N, ARG-FLOW, refusal escapes as ValueError) working on a fresh copy of the "
        "knot vector; the degree setter dispatches times>0 to degree_increase(times) and times<0 to degree_decrease(-times); degree_increase / apply commit last; no divisor on the elevation path is a bare node "
        "parameter (interior knot 0); the committed state depends on times, knot vector, points and weights. That elevation preserves the function and raises multiplicities by exactly t is not decided."
    )
    chk.decides = ["ERROR-COVERS (the error fit_curve returns contains the quadratic form of the error matrix for every quantity the fit replaces — weighted points and weights)", "MULT-AWARE (the copies inserted / removed around a degree elevation are counted from each knot's multiplicity)", "ELEVATED-VECTOR (the knot vector written next to Operations.degree_increase(U, t) is U + t * U.knots)", "ERROR-QUADRATIC (the error handed to the gate is the whole quadratic form when the fit is constrained)", "NODES-OF-NEW (the interpolation nodes handed to update() are the knots of the new knot vector, taken after its last change)", "DEHOMOG-PAIR (points divided by a list of weights are stored with exactly those weights)", "ARG-RANGE (degree_increase / degree_decrease refuse no admissible times before trying)", "LOOP-ACCUMULATE (the error handed to the gate is not overwritten per component in a loop)", "GATE-TOL", "N", "ARG-FLOW", "X-ESCAPE", "DISPATCH(degree setter)", "COMMIT-LAST", "D", "DEP-MAY", "fresh knot-vector copy", 'PRECHECK', 'MEMO-KEY (no value-keyed memoisation on the elevation / reduction path)', 'WEIGHT-HOMOG', 'OPEN-NODES (the fit behind degree_decrease integrates with open nodes)']
    chk.not_decided = ["elevation preserves the function", "multiplicities raised by exactly t", "reduction is the exact inverse"]
    tolerance_gate(r, chk)
    rule_n(r, chk)
    q = C + "degree_decrease"
    arg_flow(r, chk, "ARG-FLOW", q, ".update", "tolerance", ["tolerance"])
    arg_flow(r, chk, "ARG-FLOW", q, ".update", "nodes", ["self.knotvector", "times"], what="with tolerance=None the values at the remaining knots must be kept")
    from .extra import error_covers

    error_covers(r, chk)
    from .extra import error_quadratic

    error_quadratic(r, chk, "heavy.LeastSquare.func2func")
    from .extra import elevated_vector

    elevated_vector(r, chk, [C + "degree_increase"], floor=1)
    from .extra import mult_aware

    mult_aware(r, chk, ["heavy.Operations.degree_increase", "heavy.Operations.split_curve"], floor=2)
    from .extra import nodes_of_new

    nodes_of_new(r, chk, [C + "degree_decrease"])
    arg_flow(r, chk, "ARG-FLOW", q, ".update", "newknotvector", ["self.knotvector", "times"])
    # with tolerance=None the interpolation nodes must arrive at the least-squares operator, on the polynomial and on the rational branch
    arg_flow(r, chk, "ARG-FLOW", "curves.BaseCurve.update", ".fit_curve", "nodes", ["nodes"])
    arg_flow(r, chk, "ARG-FLOW", "curves.BaseCurve.update", ".fit_curve", "other", ["self"])
    fit_flow(r, chk)
    no_swallow(r, chk, [q, "curves.BaseCurve.degree.setter"])
    for qq, verb, when in ((q, "lowered", "before the gate"), (C + "degree_increase", "raised", "(a second curve on the same KnotVector object is then elevated from an already elevated vector)")):
        ctx = r.root(qq)
        hits = [e for e in sorted(ctx.summary.effects, key=repr) if e[2] == "_KnotVector__internal" and root_of(e[1]) is not None]
        chk.ob("SHARED-KV", f"{qq}: the knot vector is {verb} on a copy", not hits, loc=hits[0][3] if hits else r.loc(ctx, ctx.fi.node), detail="" if not hits else f"{qq}: the curve's own (possibly shared) KnotVector object {fmt_obj(hits[0][1])} is modified in place {when}", func=qq, construct="in-place change of the stored knot vector")
    # dispatch of the degree setter
    sq = "curves.BaseCurve.degree.setter"
    ctx = r.root(sq)
    inc = [c for c in r.calls_in(ctx, ".degree_increase") if c.kind == "call"]
    dec = [c for c in r.calls_in(ctx, ".degree_decrease") if c.kind == "call"]
    chk.floor("DISPATCH", "delegations in the degree setter", len(inc) + len(dec), 2)
    def diffname():
        for n in ast.walk(ctx.fi.node):
            if isinstance(n, ast.Assign) and isinstance(n.value, ast.BinOp) and isinstance(n.value.op, ast.Sub) and isinstance(n.targets[0], ast.Name) and "value" in seg(n.value.left) and "degree" in seg(n.value.right):
                return n.targets[0].id
        return None
    dn = diffname()
    from .c08 import path_facts

    def signs_at(nid):
        """the signs the difference can still have at a node, from the tests on every path to it"""
        poss = {"neg", "zero", "pos"}
        for txt, pol in path_facts(ctx, nid):
            t_ = txt.replace(" ", "")
            table = {f"{dn}>0": {"pos"}, f"0<{dn}": {"pos"}, f"{dn}<0": {"neg"}, f"0>{dn}": {"neg"}, f"{dn}==0": {"zero"}, f"0=={dn}": {"zero"},
                     f"{dn}>=0": {"pos", "zero"}, f"0<={dn}": {"pos", "zero"}, f"{dn}<=0": {"neg", "zero"}, f"0>={dn}": {"neg", "zero"}, f"{dn}!=0": {"neg", "pos"}, f"0!={dn}": {"neg", "pos"}}
            if t_ in table:
                poss &= table[t_] if pol else ({"neg", "zero", "pos"} - table[t_])
        return poss

    for cr, positive in [(c, True) for c in inc] + [(c, False) for c in dec]:
        a = cr.node.args[0] if cr.node.args else None
        arg_ok = a is not None and ((isinstance(a, ast.Name) and a.id == dn) if positive else (isinstance(a, ast.UnaryOp) and isinstance(a.op, ast.USub) and isinstance(a.operand, ast.Name) and a.operand.id == dn))
        poss = signs_at(cr.cfgnode) if dn else set()
        ok = arg_ok and poss == ({"pos"} if positive else {"neg"})
        chk.ob("DISPATCH", f"{sq}: `{seg(cr.node, 40)}` for {'a higher' if positive else 'a lower'} degree", ok, loc=r.loc(ctx, cr.node),
               detail="" if ok else f"{sq}: `{seg(cr.node, 50)}` is not reached exactly when the requested degree is {'higher' if positive else 'lower'} with the {'difference' if positive else 'negated difference'} as argument (signs of the difference possible there: {sorted(poss)})", func=sq, construct="degree dispatch")
    r.commit_last("COMMIT-LAST", C + "degree_increase")
    r.commit_last("COMMIT-LAST", "curves.BaseCurve.apply")
    no_inplace_elem(r, chk, ["curves.BaseCurve.apply"])
    from .extra import memo_key, precheck_weights
    from .homog import weight_homog

    weight_homog(r, chk, ["curves.Curve.fit_curve", "curves.BaseCurve.update", "curves.BaseCurve.apply"])
    from .c10 import open_nodes

    open_nodes(r, chk, "heavy.LeastSquare.func2func")

    memo_key(r, chk, entries=[C + "degree_increase", C + "degree_decrease"])

    precheck_weights(r, chk, ["curves.BaseCurve.apply", C + "degree_increase"])
    rule_d(r, chk, [C + "degree_increase"], floor=6)
    committed_deps(r, chk, C + "degree_increase", CURVE_FIELDS[1], ["times", "self.knotvector", "self.ctrlpoints", "self.weights"])
    committed_deps(r, chk, C + "degree_increase", CURVE_FIELDS[0], ["times", "self.knotvector"])
    committed_deps(r, chk, C + "degree_increase", CURVE_FIELDS[2], ["times", "self.knotvector", "self.weights"])
    from .extra import loop_accumulate

    loop_accumulate(r, chk, ["curves.Curve.fit_curve", "curves.BaseCurve.update", "heavy.LeastSquare.func2func", "heavy.LeastSquare.spline2spline"])
    from .extra import arg_range

    arg_range(r, chk, C + "degree_decrease", "times", lambda p: range(1, p + 1))
    arg_range(r, chk, C + "degree_increase", "times", lambda p: range(1, 4))
    from .extra import dehomog_pair

    dehomog_pair(r, chk, ["curves.Curve.fit_curve", "curves.BaseCurve.apply"], floor=2)
