"""Program model = index + interpreter results (generic mode and exact mode), cached by source digest."""
from __future__ import annotations

import hashlib
import os
import pickle
import sys
import time
from typing import Dict, Optional

from . import MODULES, REPO_SRC, AnalysisError
from .index import Program
from .interp import Analyzer

CACHE_DIR = os.path.join(os.path.dirname(os.path.dirname(os.path.abspath(__file__))), ".cache")


def _digest(src_dir: str, sources: Optional[dict]) -> str:
    h = hashlib.sha256()
    here = os.path.dirname(os.path.abspath(__file__))
    for fn in sorted(os.listdir(here)):
        if fn.endswith(".py"):
            with open(os.path.join(here, fn), "rb") as fh:
                h.update(fh.read())
    for m in MODULES:
        if sources and m in sources:
            s = sources[m]
            h.update(s.encode() if isinstance(s, str) else repr(s).encode())
        else:
            p = os.path.join(src_dir, m + ".py")
            if not os.path.exists(p):
                raise AnalysisError(f"module vanished: {p}")
            with open(p, "rb") as fh:
                h.update(fh.read())
    return h.hexdigest()[:24]


class Model:
    def __init__(self, prog: Program, digest: str):
        self.prog = prog
        self.digest = digest
        self.A: Optional[Analyzer] = None
        self.AX: Optional[Analyzer] = None
        self.build_s: Dict[str, float] = {}

    def generic(self) -> Analyzer:
        if self.A is None:
            t = time.time()
            self.A = Analyzer(self.prog, exact=False).run()
            self.build_s["generic"] = round(time.time() - t, 2)
        return self.A

    def exact(self) -> Analyzer:
        if self.AX is None:
            t = time.time()
            from .exact_entries import entries

            self.AX = Analyzer(self.prog, exact=True).run(entries(self.prog))
            self.build_s["exact"] = round(time.time() - t, 2)
        return self.AX


def load(src_dir: str = REPO_SRC, sources: Optional[dict] = None, need=("generic",), cache: bool = True) -> Model:
    sys.setrecursionlimit(20000)
    dg = _digest(src_dir, sources)
    path = os.path.join(CACHE_DIR, f"model-{dg}.pkl")
    m: Optional[Model] = None
    if cache and os.path.exists(path):
        try:
            with open(path, "rb") as fh:
                m = pickle.load(fh)
        except Exception:
            m = None
    dirty = False
    if m is None:
        m = Model(Program(src_dir, sources), dg)
        dirty = True
    if "generic" in need and m.A is None:
        m.generic()
        dirty = True
    if "exact" in need and m.AX is None:
        m.exact()
        dirty = True
    if cache and dirty:
        try:
            os.makedirs(CACHE_DIR, exist_ok=True)
            tmp = path + f".{os.getpid()}.tmp"
            with open(tmp, "wb") as fh:
                pickle.dump(m, fh, protocol=pickle.HIGHEST_PROTOCOL)
            os.replace(tmp, path)
            # keep the cache small
            ents = sorted((os.path.getmtime(os.path.join(CACHE_DIR, f)), f) for f in os.listdir(CACHE_DIR) if f.endswith(".pkl"))
            for _, f in ents[:-4]:
                try:
                    os.remove(os.path.join(CACHE_DIR, f))
                except OSError:
                    pass
        except Exception:
            pass
    return m
