"""C17 — KnotVector union / intersection."""
from __future__ import annotations

import ast

from .common import R, limits_guards, seg

NEED = ("generic",)
IKV = "heavy.ImmutableKnotVector"
KV = "knotspace.KnotVector"


def run(m, chk):
    r = R(m, chk)
    chk.explanation = (
        "Static discharge of structural clauses of C17: neither operand of | and & is modified and the result is a fresh object (PURE / FRESH), "
        "the limits comparison raising ValueError dominates the computation in ImmutableKnotVector.__or__/__and__ (GATE), and the result depends on both operands (DEP-MAY). "
        "That | is the coarsest common refinement is not decided beyond UNION-DEGREE (DESIGN §24)."
    )
    chk.decides = ["SELF-COMPARE (no atom of the interval test compares an end with itself)", "UNION-DEGREE (U | V compares multiplicities written in the common degree max(p, q))", "COMMIT-LAST (a refused |= / &= leaves the receiver as it was)", "NEG-ZERO-SLICE", "PURE", "FRESH", "GATE(limits ⇒ ValueError)", "DEP-MAY both operands", 'BOTH-MULTS (multiplicities of both operands consulted)', 'MULT-KEEP', 'SAME-INTERVAL (the interval guard is an equality, not a one-sided containment)']
    chk.not_decided = ["U|V is the coarsest common refinement (only the necessary condition UNION-DEGREE is decided)", "commutativity / idempotence as values"]
    for q in (KV + ".__or__", KV + ".__and__", IKV + ".__or__", IKV + ".__and__"):
        r.pure("PURE", q, ["self", "other"])
    for q in (KV + ".__ior__", KV + ".__iand__"):
        r.pure("PURE", q, ["other"])
    for q in (KV + ".__or__", KV + ".__and__"):
        r.fresh_result("FRESH", q, check_curve_fields=False)
    # `|=` / `&=` refuse different intervals: nothing of the receiver is written before the last thing that can refuse
    for q in (KV + ".__ior__", KV + ".__iand__"):
        r.commit_last("COMMIT-LAST", q)
    for q in (IKV + ".__or__", IKV + ".__and__"):
        ctx = r.root(q)
        fi = ctx.fi
        guards = limits_guards(r, ctx, {("P", 0)}, {("P", 1)})
        from .common import expand_locals

        allg = r.raise_guards(ctx, ("ValueError",))
        # no atom of the interval test compares a thing with itself (`umin != umin` for `umin != vmin`: one end is never compared)
        for t_ in [g_[0] for g_ in allg if isinstance(g_[0].ast, ast.expr)]:
            for c_ in ast.walk(t_.ast):
                if isinstance(c_, ast.Compare) and len(c_.ops) == 1:
                    same = seg(c_.left) == seg(c_.comparators[0])
                    chk.ob("SELF-COMPARE", f"{q}: `{seg(c_, 40)}` compares two different things", not same, loc=r.loc(ctx, c_),
                           detail="" if not same else f"{q}: `{seg(c_, 40)}` compares an end of one interval with itself: it is never true, so that end of the two intervals is not compared at all — knot vectors that share only the other end are merged instead of raising ValueError",
                           func=q, construct="interval end compared with itself")
        chk.floor("GATE-LIMITS", f"limits guard in {q}", len(guards), 1)
        from .extra import same_interval

        same_interval(r, chk, ctx, guards, q)
        rets = [n for n in r.stmt_nodes(ctx) if isinstance(n.ast, ast.Return)]
        for n in rets:
            ok = any(r.guard_dominates(ctx, g, n.id) for g in guards)
            chk.ob("GATE-LIMITS", f"{q}: `{seg(n.ast, 40)}` only after `self.limits != other.limits` ⇒ ValueError", ok, loc=r.loc(ctx, n.ast),
                   detail="" if ok else f"{q}: a result is returned at {r.loc(ctx, n.ast)} without the limits comparison: knot vectors on different intervals are merged instead of raising ValueError", func=q, construct="ungated result")
        # loops / computation after the guard
        work = [n for n in r.stmt_nodes(ctx) if n.kind == "for"]
        for n in work:
            ok = any(r.guard_dominates(ctx, g, n.id) for g in guards)
            chk.ob("GATE-LIMITS", f"{q}: loop at line {n.ast.lineno} dominated by the limits guard", ok, loc=r.loc(ctx, n.ast), detail="" if ok else f"{q}: computation at {r.loc(ctx, n.ast)} before the limits guard", func=q, construct="computation before guard")
        for nid, v in sorted(ctx.ret_sites.items()):
            have = r.deep_dep(ctx, v, heap=ctx.ret_states[nid].heap)
            miss = [p for i, p in enumerate(fi.params[:2]) if not R.dep_has(have, ("P", i))]
            ok = not miss
            chk.ob("DEP-MAY", f"{q}: result at line {ctx.cfg.nodes[nid].ast.lineno} depends on both operands", ok, loc=r.loc(ctx, ctx.cfg.nodes[nid].ast),
                   detail="" if ok else f"{q}: the vector returned at {r.loc(ctx, ctx.cfg.nodes[nid].ast)} does not depend on {', '.join(miss)}", func=q, construct=f"result ignores {', '.join(miss)}")
    from .extra import union_degree

    union_degree(r, chk)
    from .extra import both_mults, mult_keep

    both_mults(r, chk, IKV + ".__or__")
    both_mults(r, chk, IKV + ".__and__")
    mult_keep(r, chk, [IKV + ".__or__", IKV + ".__and__"], floor=2)
    for q in (KV + ".__or__", KV + ".__and__"):
        ctx = r.root(q)
        for nid, v in sorted(ctx.ret_sites.items()):
            have = r.deep_dep(ctx, v, heap=ctx.ret_states[nid].heap)
            miss = [p for i, p in enumerate(ctx.fi.params[:2]) if not R.dep_has(have, ("P", i))]
            ok = not miss
            chk.ob("DEP-MAY", f"{q}: result depends on both operands", ok, loc=r.loc(ctx, ctx.cfg.nodes[nid].ast), detail="" if ok else f"{q}: the result does not depend on {', '.join(miss)}", func=q, construct=f"result ignores {', '.join(miss)}")
    from .extra import neg_zero_slice

    neg_zero_slice(r, chk, [IKV + ".__or__", IKV + ".__and__", IKV + ".knots.getter", IKV + ".limits.getter", IKV + ".__new__", IKV + ".__is_valid"])
