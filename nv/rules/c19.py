"""C19 — projection returns nearest-point parameters."""
from __future__ import annotations

import ast
from typing import List, Optional

from .common import CURVE_FIELDS, R, seg
from .divisions import reachable_functions
from .loops import classify_while, for_mutating_own_iterable

NEED = ("generic",)
P = "advanced.Projection."
NEWTON = P + "__newton_point_on_curve"


def term(r: R, chk, entry: str, floor: int = 3):
    """TERM(e): every `while` reachable from e is in a recognised class; only 'float-convergence exits only' is reported"""
    funcs = reachable_functions(r, [entry])
    n = 0
    for q in funcs:
        fi = r.prog.func(q)
        for w in ast.walk(fi.node):
            if isinstance(w, ast.While):
                li = classify_while(fi, w)
                n += 1
                bad = li.cls == "float-convergence-only"
                if li.cls == "unclassified":
                    chk.note(f"TERM: unclassified loop (listed, not reported): {q}:{w.lineno} {li.why}")
                if li.cls == "index-scan" and not li.bounded:
                    chk.note(f"TERM: {q}:{w.lineno} index scan without bound — terminates by IndexError (exception discipline, see C03/X-INDEX)")
                counted = [s for s in ast.walk(w) if isinstance(s, ast.AugAssign) and isinstance(s.target, ast.Name) and isinstance(s.value, ast.Constant)]
                extra = ""
                if bad and counted:
                    extra = f"; the counter `{counted[0].target.id}` is stepped but never tested"
                chk.ob("TERM", f"{q}:{w.lineno} while-loop: {li.cls} ({li.why})", not bad, loc=f"{fi.module}.py:{w.lineno}",
                       detail="" if not bad else f"{q}: the loop at {fi.module}.py:{w.lineno} leaves only through comparisons of computed floating-point values with a tolerance / range tests{extra}: nothing bounds the number of iterations (NaN or a cycling iterate never returns) — reached from {entry}",
                       func=q, construct="loop with float-convergence exits only")
        for f in for_mutating_own_iterable(fi):
            chk.ob("TERM", f"{q}:{f.lineno} for-loop grows its own iterable", False, loc=f"{fi.module}.py:{f.lineno}", detail=f"{q}: `for` over `{seg(f.iter, 20)}` appends to it in its body", func=q, construct="for over a growing container")
            n += 1
    chk.floor("TERM", f"while loops reachable from {entry}", n, floor)
    # recursive cycles (listed)
    rec = []
    for q in funcs:
        ctx = r.A.roots.get(q)
        if ctx and any(f.qual == q for c in ctx.calls for f in c.callees):
            rec.append(q)
    chk.extra["recursive_functions_reachable"] = sorted(rec)
    # recursion: every (directly) recursive function reachable from the entry has a path that returns without the recursive
    # call having returned (the model's summary is bottom exactly when every path needs the recursion to come back first)
    for q in sorted(rec):
        ctx = r.A.roots[q]
        ok = ctx.summary.ret is not None
        chk.ob("TERM", f"{q}: recursion has a base case (a path returns without the recursive call)", ok, loc=f"{ctx.fi.module}.py:{ctx.fi.node.lineno}",
               detail="" if ok else f"{q}: every path to a return goes through the recursive call: the recursion has no base case and never returns (reached from {entry})", func=q, construct="recursion without base case")
    return funcs


def limit_names(fi) -> Optional[tuple]:
    for n in ast.walk(fi.node):
        if isinstance(n, ast.Assign) and isinstance(n.targets[0], ast.Tuple) and len(n.targets[0].elts) == 2 and "limits" in seg(n.value):
            a, b = n.targets[0].elts
            if isinstance(a, ast.Name) and isinstance(b, ast.Name):
                return a.id, b.id
    return None


def clamp_tests(ctx, var_pred, lo: str, hi: str):
    """test nodes comparing the iterate with the lower / the upper limit: returns (lo_tests, hi_tests)"""
    los, his = [], []
    for t in ctx.cfg.nodes:
        if t.kind != "test" or not isinstance(t.ast, ast.Compare) or len(t.ast.ops) != 1:
            continue
        l, rr, op = t.ast.left, t.ast.comparators[0], t.ast.ops[0]
        for a, b, o in ((l, rr, op), (rr, l, {ast.Lt: ast.Gt, ast.Gt: ast.Lt, ast.LtE: ast.GtE, ast.GtE: ast.LtE}.get(type(op), type(None))() if type(op) in (ast.Lt, ast.Gt, ast.LtE, ast.GtE) else None)):
            if o is None or not var_pred(a) or not isinstance(b, ast.Name):
                continue
            if b.id == lo and isinstance(o, (ast.Lt, ast.LtE)):
                los.append(t)
            if b.id == hi and isinstance(o, (ast.Gt, ast.GtE)):
                his.append(t)
    return los, his


def run(m, chk):
    r = R(m, chk)
    chk.explanation = (
        "Static discharge of structural clauses of C19: every loop reachable from Projection.point_on_curve has a structural termination argument (TERM; loops whose only exits are "
        "floating-point convergence tests are reported), the Newton iterate is compared with both ends of the interval after its last update before it is returned (CLAMP), the result "
        "passes the minimum-distance filter and a sort, the curve and the point are not modified, the result depends on both. Global minimality, stationarity and non-emptiness are not decided."
    )
    chk.decides = ["ERROR-COVERS (the error fit_curve returns contains the quadratic form of the error matrix for every quantity the fit replaces — weighted points and weights)", "UFUNC-FLOAT (float-only numpy functions are applied to converted values: exact data do not raise TypeError)", "CANDIDATES-ONLY (the candidates are the ends of the piece and the outcomes of the Newton iteration, never the start samples)", "SCALE-REACHES (every matrix the Bezier derivative helper returns went through the division by the interval length)", "STEP-APPLIED (the Newton iterate is returned only after the step computed for it has been applied)", "NAN-GUARD (the Newton iterate is returned only after a test a NaN fails)", "START-IN-RANGE (the Newton starts are end-exact samples of the interval)", "TERM", "CLAMP both sides", "must-pass-through(min-distance filter, sort)", "PURE", "DEP-MAY", "ENDS-CANDIDATE (both ends of every piece are among the candidates)"]
    chk.not_decided = ["the returned distance is the global minimum", "stationarity of interior parameters", "non-emptiness"]
    q = P + "point_on_curve"
    term(r, chk, q)
    # clamp
    ctx = r.root(NEWTON)
    fi = ctx.fi
    lim = limit_names(fi)
    # the iterate: the name that is updated inside a loop and occurs in a returned expression (whatever it is called)
    in_loops = {id(x) for lp in ast.walk(fi.node) if isinstance(lp, (ast.For, ast.While)) for st in lp.body for x in ast.walk(st)}
    updated = {}
    for n in r.stmt_nodes(ctx):
        if isinstance(n.ast, (ast.AugAssign, ast.Assign)) and id(n.ast) in in_loops:
            for t in ([n.ast.target] if isinstance(n.ast, ast.AugAssign) else n.ast.targets):
                if isinstance(t, ast.Name):
                    updated.setdefault(t.id, []).append(n)
    returned = {x.id for n in r.stmt_nodes(ctx) if isinstance(n.ast, ast.Return) and n.ast.value is not None for x in ast.walk(n.ast.value) if isinstance(x, ast.Name)}
    cands = sorted(nm for nm in updated if nm in returned)
    iter_name = cands[0] if len(cands) == 1 else ("initparam" if "initparam" in cands else (cands[0] if cands else "initparam"))
    upd = updated.get(iter_name, [])
    if lim is None or not upd:
        chk.floor("CLAMP", "limits unpacking and iterate update in the Newton helper", 0, 1)
    lo, hi = lim
    los, his = clamp_tests(ctx, lambda a: isinstance(a, ast.Name) and a.id == iter_name, lo, hi)
    rets = [n for n in r.stmt_nodes(ctx) if isinstance(n.ast, ast.Return) and n.ast.value is not None and any(isinstance(x, ast.Name) and x.id == iter_name for x in ast.walk(n.ast.value))]
    chk.floor("CLAMP", "returns of the iterate", len(rets), 1)
    def reach_without(start_nodes, avoid, cut_edges):
        seen, todo = set(), list(start_nodes)
        while todo:
            x = todo.pop()
            if x in seen or x in avoid:
                continue
            seen.add(x)
            for t_, lab in ctx.cfg.nodes[x].succ:
                if lab == "exc" or (x, lab) in cut_edges:
                    continue
                todo.append(t_)
        return seen

    for R_ in rets:
        for side, tests in (("lower", los), ("upper", his)):
            # after every update of the iterate, each path to this return traverses the passing edge of a test of that side
            cut = {(t.id, "f") for t in tests}
            ok = bool(tests)
            for u in upd:
                if R_.id in reach_without(ctx.cfg.succs(u.id, exc=False), {u.id}, cut):
                    ok = False
            chk.ob("CLAMP", f"{NEWTON}: `{seg(R_.ast, 30)}` only after the iterate passed the {side}-limit test following its last update", ok, loc=r.loc(ctx, R_.ast),
                   detail="" if ok else f"{NEWTON}: the iterate is returned at {r.loc(ctx, R_.ast)} without having been compared with the {side} end of the interval after its last update: a parameter outside [umin, umax] can be returned", func=NEWTON, construct=f"missing {side} clamp")
    # filter + sort
    ctx = r.root(q)
    rets = [n for n in r.stmt_nodes(ctx) if isinstance(n.ast, ast.Return)]
    chk.floor("FILTER", "returns of point_on_curve", len(rets), 1)
    for R_ in rets:
        dom = [n for n in r.stmt_nodes(ctx) if n.id != R_.id and ctx.cfg.dominates(n.id, R_.id)]
        txt = [seg(n.ast, 300) for n in dom] + [seg(R_.ast, 300)]  # the returned expression itself may do the last step
        has_min = any(("np.min(" in t or " min(" in t or "=min(" in t.replace(" ", "")) for t in txt)
        has_cmp = any(("<" in t and ("minimaldistance" in t or "min" in t)) for t in txt)
        has_sort = any((".sort(" in t or "sorted(" in t) for t in txt)
        for name, ok in (("minimum of the candidate distances", has_min), ("comparison with the minimum", has_cmp), ("sort", has_sort)):
            chk.ob("FILTER", f"{q}: the result passes through: {name}", ok, loc=r.loc(ctx, R_.ast), detail="" if ok else f"{q}: `{seg(R_.ast, 40)}` is reached without the {name}: candidates that are not nearest (or unsorted parameters) are returned", func=q, construct=f"result skips {name}")
        v = ctx.ret_sites.get(R_.id)
        have = r.deep_dep(ctx, v, heap=ctx.ret_states[R_.id].heap) if v is not None else set()
        need = r.srcs(ctx.fi, ["point", "curve.ctrlpoints", "curve.knotvector", "curve.weights"])
        miss = [w for w in need if not R.dep_has(have, w)]
        chk.ob("DEP-MAY", f"{q}: result depends on the point and the curve", not miss, loc=r.loc(ctx, R_.ast), detail="" if not miss else f"{q}: result ignores {r.fmt_deps(ctx.fi, miss)}", func=q, construct="result ignores an input")
    from .extra import error_covers

    error_covers(r, chk)
    from .extra import ends_candidate

    ends_candidate(r, chk, P + "point_on_bezier", q)
    from .extra import candidates_only

    candidates_only(r, chk, P + "point_on_bezier")
    r.pure("PURE", q, ["point", "curve"])
    r.pure("PURE", P + "point_on_bezier", ["point", "bezier"])
    from .extra import step_applied

    nq19 = next((q_ for q_ in r.A.roots if q_.endswith("newton_point_on_curve")), None)
    if nq19 is not None:
        step_applied(r, chk, nq19)
    from .extra import scale_reaches

    scale_reaches(r, chk, ["heavy.Calculus.derivate_nonrational_bezier"], floor=1)
    from .extra import ufunc_float

    ufunc_float(r, chk, [P + "point_on_curve", nq19])
    from .extra import starts_in_range

    starts_in_range(r, chk, "advanced.Projection.point_on_bezier", "newton_point_on_curve")
    from .extra import nan_guard

    nan_guard(r, chk, NEWTON)
