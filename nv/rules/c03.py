"""C03 — every reachable KnotVector is well formed; failed requests leave it unchanged."""
from __future__ import annotations

import ast

from .. import AnalysisError
from ..index import mangle
from ..vals import root_of
from .common import R, seg
from .c15 import direct_stores
from .loops import classify_while, scan_shape

NEED = ("generic", "exact")
IKV = "heavy.ImmutableKnotVector"
KV = "knotspace.KnotVector"
KV_COMPOSITE = {
    KV + ".__iadd__": "float(other) probe, then exactly one of shift / insert",
    KV + ".__isub__": "float(other) probe, then exactly one of shift(-x) / remove",
    KV + ".__imul__": "delegates to scale",
    KV + ".__itruediv__": "delegates to scale",
    KV + ".degree.setter": "remove / insert under disjoint relations of the same unmodified local",
}


def v1_guard_in(r: R, qual: str, nodes_param: str):
    """ValueError raise-guards of `qual` whose test asks `<receiver>.valid(<nodes>)`"""
    ctx = r.root(qual)
    pi = ctx.fi.params.index(nodes_param) if nodes_param in ctx.fi.params else None
    out = []
    for g in r.raise_guards(ctx, ("ValueError",)):
        t = g[0].ast
        exprs = [t]
        # a guard through a local (`ok = self.valid(nodes); if not ok: raise`) counts when the local has one definition
        for nm in {x.id for x in ast.walk(t) if isinstance(x, ast.Name)}:
            defs = [a for a in ast.walk(ctx.fi.node) if isinstance(a, ast.Assign) and any(isinstance(tt, ast.Name) and tt.id == nm for tt in a.targets)]
            if len(defs) == 1 and nm not in ctx.fi.params:
                exprs.append(defs[0].value)
        for c in (y for e_ in exprs for y in ast.walk(e_)):
            if isinstance(c, ast.Call) and isinstance(c.func, ast.Attribute) and c.func.attr == "valid" and c.args:
                recs = [cr for cr in ctx.calls if cr.node is c and cr.kind == "call" and any(f.qual.endswith(".valid") for f in cr.callees)]
                recv = ctx.val(c.func.value)
                arg = ctx.val(c.args[0])
                if recs and recv is not None and any(root_of(o) == 0 for o in recv.pts) and arg is not None and (pi is None or ("P", pi) in arg.all_dep()):
                    out.append(g)
    return out


def _is_valid_probe(st) -> bool:
    """`ok = self.valid(nodes)`: computes the guard condition, not a query result"""
    if isinstance(st, ast.Assign) and isinstance(st.value, ast.Call) and isinstance(st.value.func, ast.Attribute) and st.value.func.attr == "valid":
        return True
    # `nodes = tuple(nodes)` / `list(nodes)` before the guard: the argument made walkable more than once, no query result either
    # (with or without a `try: ... except TypeError: pass` around it for the scalar form)
    if isinstance(st, ast.Assign) and len(st.targets) == 1 and isinstance(st.targets[0], ast.Name) and isinstance(st.value, ast.Call) and isinstance(st.value.func, ast.Name) \
            and st.value.func.id in ("tuple", "list") and len(st.value.args) == 1 and isinstance(st.value.args[0], ast.Name) and st.value.args[0].id == st.targets[0].id:
        return True
    return isinstance(st, ast.Pass)


def v1(r: R, chk, prop: str = "C03"):
    """rule V1: insertion paths test the nodes against the receiver's *old* limits (ValueError)"""
    q = IKV + ".__add__"
    ctx = r.root(q)
    guards = v1_guard_in(r, q, "nodes")
    builds = [c for c in ctx.calls if c.kind in ("call", "new") and any(f.qual == IKV + ".__new__" for f in c.callees)]
    chk.floor("V1", "construction of the enlarged vector in ImmutableKnotVector.__add__", len(builds), 1)
    for b in builds:
        ok = any(r.guard_dominates(ctx, g, b.cfgnode) for g in guards)
        # a caller-side guard on every entry is accepted as well
        if not ok:
            ok = all(_entry_guarded(r, e, p) for e, p in ((KV + ".insert", "nodes"), ("curves.Curve.knot_insert", "nodes")))
        chk.ob("V1", f"{q}: `{seg(b.node, 50)}` dominated by `self.valid(nodes)` ⇒ ValueError", ok, loc=r.loc(ctx, b.node),
               detail="" if ok else (f"{q}: the enlarged vector is built at {r.loc(ctx, b.node)} without testing `nodes` against the receiver's old interval; the shape validator only sees the new vector, "
                                    "so KnotVector.insert / += / + and Curve.knot_insert accept nodes outside [umin, umax] (or fail later with AssertionError instead of ValueError)"),
               func=q, construct="insertion without interval test of nodes")


def _entry_guarded(r: R, qual: str, p: str) -> bool:
    ctx = r.root(qual)
    guards = v1_guard_in(r, qual, p)
    if not guards:
        return False
    writes = r.write_nodes(ctx, 0)
    return bool(writes) and all(any(r.guard_dominates(ctx, g, w) for g in guards) for w in writes)


def kv_mutators(r: R):
    out = []
    for fi in r.methods_of("KnotVector"):
        if fi.name in ("__init__", "__new__") or not fi.has_self:
            continue
        if r.effects_on(r.root(fi.qual), 0):
            out.append(fi)
    return sorted(out, key=lambda f: f.qual)


def _tri(e, is_elem_cmp):
    """three-valued truth of a test when every order comparison between two elements of the vector is False (what IEEE gives for
    an unordered pair) and everything else is unknown (None)"""
    if isinstance(e, ast.UnaryOp) and isinstance(e.op, ast.Not):
        v = _tri(e.operand, is_elem_cmp)
        return None if v is None else (not v)
    if isinstance(e, ast.BoolOp):
        vs = [_tri(v, is_elem_cmp) for v in e.values]
        if isinstance(e.op, ast.And):
            if any(v is False for v in vs):
                return False
            return True if all(v is True for v in vs) else None
        if any(v is True for v in vs):
            return True
        return False if all(v is False for v in vs) else None
    if isinstance(e, ast.Compare) and is_elem_cmp(e):
        return False
    return None


def unordered_rejected(r: R, chk, qual: str, rule="UNORDERED"):
    """the validator accepts only vectors with u_i <= u_(i+1) for every i.  A pair that is not ordered at all (a NaN) makes every
    order comparison False; where a test consists of such comparisons between elements of the vector, the outcome it has when they
    are all False must not lead to acceptance.  `if not a <= b: return False` rejects, `if a > b: return False` lets it through."""
    ctx = r.root(qual)
    fi = ctx.fi
    cfg = ctx.cfg
    vec = next((p for p in fi.params if p not in ("self", "cls")), None)
    elems = {vec}
    for a in ast.walk(fi.node):
        if isinstance(a, (ast.For, ast.comprehension)):
            srcs = {x.id for x in ast.walk(a.iter) if isinstance(x, ast.Name)}
            if vec in srcs and not any(isinstance(x, ast.Call) and isinstance(x.func, ast.Name) and x.func.id in ("range", "len") for x in ast.walk(a.iter)):
                elems |= {x.id for x in ast.walk(a.target) if isinstance(x, ast.Name)}

    def is_elem(x):
        if isinstance(x, ast.Subscript):
            return isinstance(x.value, ast.Name) and x.value.id == vec and not isinstance(x.slice, ast.Slice)
        return isinstance(x, ast.Name) and x.id in elems - {vec}

    def is_elem_cmp(c):
        return len(c.ops) == 1 and isinstance(c.ops[0], (ast.Lt, ast.LtE, ast.Gt, ast.GtE)) and is_elem(c.left) and is_elem(c.comparators[0])

    live = cfg.live_nodes()
    accepting = {n.id for n in cfg.nodes if n.id in live and isinstance(n.ast, ast.Return) and not (isinstance(n.ast.value, ast.Constant) and n.ast.value.value in (False, None))}
    n = 0
    for t in cfg.nodes:
        if t.kind != "test" or t.id not in live or not isinstance(t.ast, ast.expr):
            continue
        if not any(isinstance(c, ast.Compare) and is_elem_cmp(c) for c in ast.walk(t.ast)):
            continue
        v = _tri(t.ast, is_elem_cmp)
        if v is None:
            continue
        n += 1
        lab = "t" if v else "f"
        reach = set()
        for s_, l_ in t.succ:
            if l_ == lab:
                reach |= cfg.reachable(s_, exc=False)
        ok = not (reach & accepting)
        chk.ob(rule, f"{qual}: `{seg(t.ast, 40)}` rejects a pair that is not ordered", ok, loc=r.loc(ctx, t.ast),
               detail="" if ok else f"{qual}: when neither `<=` nor `>` holds between two neighbouring elements (a NaN), `{seg(t.ast, 40)}` is {v} and the vector goes on to be accepted: a KnotVector that is not non-decreasing becomes obtainable (span() on it does not terminate); the test has to accept only on a comparison that holds (`not a <= b` rejects)",
               func=qual, construct="order test lets an unordered pair through")
    if not n:
        chk.note(f"{rule}: {qual}: no test made of order comparisons between elements of the vector found: not decided")
    return n


def run(m, chk):
    r = R(m, chk)
    chk.explanation = (
        "Static discharge of structural clauses of C03: construction funnel (who may write degree/npts/payload, validator dominates), "
        "commit-last atomicity of every KnotVector mutator, interval validation of inserted nodes against the old limits (V1), "
        "no IndexError from the constructor's index scans (X-INDEX), span/mult/split dominated by the valid ⇒ ValueError guard. "
        "Completeness of the validator (that it accepts exactly the clamped vectors) and the values of span/mult are not decided."
    )
    chk.decides = ["WALK-ONCE (the nodes to insert / remove are walked once, or materialised first: a one-pass iterable cannot slip past the interval test)", "LIMITS-RAW (limits reads U[degree] and U[npts], not the tolerance-merged knots)", "NAN-REJECT (a node that is not ordered with the knots — a NaN — is not valid: span / mult raise ValueError instead of searching for ever)", "PROBE-ALL (the numeric probe of the validator is tried on every element: no all / any / next stops it early)", "TOL-ABSOLUTE (knot identity is decided on differences, never with a tolerance relative to the knots)", "LOSSY-COMPARE (exact knots and nodes are not compared through their float image)", "UNORDERED (the sortedness test of the validator rejects a pair that is not ordered at all)", "FUNNEL", "COMMIT-LAST (KnotVector)", "V1", "X-INDEX", "GATE(valid ⇒ ValueError) for span/mult/split", 'MULT-KEEP (distinct knots never become knot-vector elements without their multiplicity)']
    chk.not_decided = ["completeness of __is_valid (tails / unclamped vectors are accepted — seen by reading, out of static reach)", "agreement of span/mult/knots/limits values with the element list"]

    # 1. funnel ------------------------------------------------------------------------------
    newq = IKV + ".__new__"
    ctx = r.root(newq)
    for field in ("_ImmutableKnotVector__degree", "_ImmutableKnotVector__npts"):
        st = direct_stores(r, field)
        chk.floor("FUNNEL", f"stores of {field}", len(st), 1)
        for fi, n in st:
            ok = fi.qual == newq
            chk.ob("FUNNEL", f"store of {field} in {fi.qual}", ok, loc=f"{fi.module}.py:{n.lineno}", detail="" if ok else f"{fi.qual} writes {field} outside the validating constructor", func=fi.qual, construct=f"direct store {field}")
    # validator gate dominates the instance creation and the stores
    gates = [g for g in r.raise_guards(ctx, ("ValueError",)) if any(isinstance(c, ast.Call) and isinstance(c.func, ast.Attribute) and "is_valid" in c.func.attr for c in ast.walk(g[0].ast))]
    chk.floor("FUNNEL-GATE", "validator gate in __new__", len(gates), 1)
    valq = None
    for c in ctx.calls:
        for f in c.callees:
            if "is_valid" in f.name:
                valq = f.qual
    creates = [n for n in r.stmt_nodes(ctx) if n.kind == "stmt" and any(isinstance(c, ast.Call) and isinstance(c.func, ast.Attribute) and c.func.attr == "__new__" for c in ast.walk(n.ast))]
    stores = [n for n in r.stmt_nodes(ctx) if isinstance(n.ast, ast.Assign) and any(isinstance(t, ast.Attribute) and isinstance(t.ctx, ast.Store) for t in n.ast.targets)]
    chk.floor("FUNNEL-GATE", "instance creation in __new__", len(creates), 1)
    for n in creates + stores:
        ok = any(r.guard_dominates(ctx, g, n.id) for g in gates)
        chk.ob("FUNNEL-GATE", f"{newq}: `{seg(n.ast, 50)}` dominated by the validator gate", ok, loc=r.loc(ctx, n.ast), detail="" if ok else f"{newq}: `{seg(n.ast, 60)}` is reachable without passing `if not __is_valid(...): raise ValueError`", func=newq, construct=f"ungated {seg(n.ast, 40)}")
    # no other place creates tuple-instances of the class behind the constructor's back
    for fi in r.prog.all_functions():
        if fi.qual in (newq, KV + ".__new__") or fi.module == "__classes__":
            continue
        for c in ast.walk(fi.node):
            if isinstance(c, ast.Call) and isinstance(c.func, ast.Attribute) and c.func.attr == "__new__":
                chk.ob("FUNNEL", f"{fi.qual}: explicit __new__ call", False, loc=f"{fi.module}.py:{c.lineno}", detail=f"{fi.qual} calls `{seg(c, 60)}`: an instance is created without the validating constructor", func=fi.qual, construct="explicit __new__ bypass")
    # payload of the mutable facade
    sq = KV + ".internal.setter"
    st = direct_stores(r, "_KnotVector__internal")
    chk.floor("FUNNEL", "stores of KnotVector.__internal", len(st), 1)
    for fi, n in st:
        ok = fi.qual == sq
        chk.ob("FUNNEL", f"store of _KnotVector__internal in {fi.qual}", ok, loc=f"{fi.module}.py:{n.lineno}", detail="" if ok else f"{fi.qual} rebinds the payload of a KnotVector directly, bypassing the validating setter", func=fi.qual, construct="direct store _KnotVector__internal")
        if ok:
            sctx = r.root(sq)
            v = sctx.val(n.value) if isinstance(n, ast.Assign) else None
            good = v is not None and v.ty and v.ty <= {"inst:ImmutableKnotVector"}
            chk.ob("FUNNEL", f"{sq}: stored value is an ImmutableKnotVector on every path", good, loc=f"{fi.module}.py:{n.lineno}", detail="" if good else f"{sq}: the stored payload may be {sorted(v.ty) if v is not None else '?'} — not produced by the validating constructor", func=sq, construct="payload not validated")

    # 2. atomicity ----------------------------------------------------------------------------
    muts = kv_mutators(r)
    chk.floor("COMMIT-LAST", "KnotVector mutators (derived)", len(muts), 13)
    for fi in muts:
        if fi.qual in KV_COMPOSITE:
            direct = [n for (g, n) in direct_stores(r, "_KnotVector__internal") if g.qual == fi.qual]
            ok = not direct
            chk.ob("COMPOSITE", f"{fi.qual}: {KV_COMPOSITE[fi.qual]}", ok, loc=f"{fi.module}.py:{fi.node.lineno}", detail="" if ok else f"{fi.qual} writes the payload directly", func=fi.qual, construct="direct store in composite")
        else:
            r.commit_last("COMMIT-LAST", fi.qual)
    # degree.setter: the two steps are guarded by disjoint relations on one unmodified local
    dq = KV + ".degree.setter"
    dctx = r.root(dq)
    wn = r.write_nodes(dctx, 0)
    rel = []
    for w in wn:
        for t in dctx.cfg.nodes:
            if t.kind == "test" and dctx.cfg.edge_dominates(t.id, "t", w) and isinstance(t.ast, ast.Compare) and len(t.ast.ops) == 1:
                l, rr, op = t.ast.left, t.ast.comparators[0], t.ast.ops[0]
                if isinstance(l, ast.Name) and isinstance(rr, ast.Constant) and rr.value == 0:
                    rel.append((l.id, "<" if isinstance(op, ast.Lt) else ">" if isinstance(op, ast.Gt) else "?"))
                elif isinstance(rr, ast.Name) and isinstance(l, ast.Constant) and l.value == 0:
                    rel.append((rr.id, ">" if isinstance(op, ast.Lt) else "<" if isinstance(op, ast.Gt) else "?"))
    names = {n for n, _ in rel}
    reassigned = False
    if len(names) == 1:
        nm = next(iter(names))
        reassigned = sum(1 for x in ast.walk(dctx.fi.node) if isinstance(x, ast.Name) and x.id == nm and isinstance(x.ctx, ast.Store)) != 1
    ok = len(wn) == len(rel) and len(names) == 1 and sorted(o for _, o in rel) in (["<", ">"], ["<"], [">"]) and not reassigned
    chk.ob("COMPOSITE", f"{dq}: steps guarded by disjoint relations of one unmodified local", ok, loc=r.loc(dctx, dctx.fi.node), detail="" if ok else f"{dq}: the remove / insert steps are not mutually exclusive (guards found: {rel}) — a refused second step would leave the first applied", func=dq, construct="non-exclusive steps")

    # 3. V1 -------------------------------------------------------------------------------------
    v1(r, chk)

    from .extra import mult_keep

    mult_keep(r, chk, sorted(f.qual for f in r.prog.all_functions() if f.module in ("heavy", "knotspace") and f.cls is not None and f.cls.name in ("ImmutableKnotVector", "KnotVector", "GeneratorKnotVector")), floor=10)
    # 4. X-INDEX ---------------------------------------------------------------------------------
    scans = []
    for q in (valq, newq):
        if q is None:
            continue
        fi = r.prog.func(q)
        for n in ast.walk(fi.node):
            if isinstance(n, ast.While):
                li = classify_while(fi, n)
                if li.cls == "index-scan":
                    scans.append((fi, n, li))
    chk.floor("X-INDEX", "index scans on the construction path", len(scans), 1)
    val_shapes = {scan_shape(n.test) for fi, n, _ in scans if fi.qual == valq}
    for fi, n, li in scans:
        ok = bool(li.bounded)
        why = ""
        if not ok and fi.qual == newq:
            # exempt: dominated by the validator gate, and the validator contains the same scan
            c2 = r.root(newq)
            tnode = [x for x in c2.cfg.nodes if x.kind == "test" and x.ast is n.test]
            if tnode and any(r.guard_dominates(c2, g, tnode[0].id) for g in gates) and scan_shape(n.test) in val_shapes:
                ok, why = True, " (covered: the validator gate dominates it and ran the same scan)"
        chk.ob("X-INDEX", f"{fi.qual}: {li.why}{why}", ok, loc=f"{fi.module}.py:{n.lineno}",
               detail="" if ok else f"{fi.qual}: the scan `while {seg(n.test, 60)}` has no length bound: for a constant vector it runs off the end and IndexError escapes the constructor where ValueError is promised",
               func=fi.qual, construct="unbounded index scan")

    # 5. queries -----------------------------------------------------------------------------------
    for name in ("span", "mult", "split"):
        q = f"{IKV}.{name}"
        c = r.root(q)
        guards = v1_guard_in(r, q, "nodes")
        work = [n for n in r.stmt_nodes(c) if n.kind in ("stmt", "for") and not isinstance(n.ast, ast.Raise) and not (isinstance(n.ast, ast.Expr) and isinstance(n.ast.value, ast.Constant)) and not any(n is g[2] for g in guards) and not _is_valid_probe(n.ast)]
        chk.floor("GATE-VALID", f"statements of {q}", len(work), 1)
        bad = [n for n in work if not any(r.guard_dominates(c, g, n.id) for g in guards)]
        ok = not bad
        chk.ob("GATE-VALID", f"{q}: everything after `if not self.valid(nodes): raise ValueError`", ok, loc=r.loc(c, bad[0].ast) if bad else r.loc(c, c.fi.node),
               detail="" if ok else f"{q}: `{seg(bad[0].ast, 60)}` is reachable without the `valid(nodes)` ⇒ ValueError guard: a node outside the interval yields a value / another exception", func=q, construct="unguarded query")
    unordered_rejected(r, chk, "heavy.ImmutableKnotVector.__is_valid")
    probe_all(r, chk, "heavy.ImmutableKnotVector.__is_valid")
    from .extra import walk_once

    walk_once(r, chk, ["heavy.ImmutableKnotVector.__add__", "heavy.ImmutableKnotVector.__sub__"], floor=2)
    # the queries: `valid(nodes)` walks the argument, the answer is then computed from it — a one-pass iterable has to be
    # materialised first (valid itself walks once: its second use of the argument is the scalar case of the except branch)
    walk_once(r, chk, ["heavy.ImmutableKnotVector.span", "heavy.ImmutableKnotVector.mult", "heavy.ImmutableKnotVector.split"], floor=3, only=("nodes",))
    from .extra import limits_raw

    limits_raw(r, chk)
    from .extra import nan_reject

    nan_reject(r, chk, "heavy.ImmutableKnotVector.__valid_single")
    from .extra import lossy_compare

    lossy_compare(r, chk, m.exact())
    from .extra import tol_absolute

    tol_absolute(r, chk, ["heavy.ImmutableKnotVector.__get_unique", "heavy.ImmutableKnotVector.__mult_single", "heavy.ImmutableKnotVector.__span_single", "heavy.ImmutableKnotVector.__valid_single", "heavy.ImmutableKnotVector.__is_valid"])


EAGER_CONSUMERS = {"list", "tuple", "sum", "sorted", "min", "max", "set", "frozenset", "len", "array", "asarray", "fsum", "prod", "dict", "Counter", "deque"}
LAZY_CONSUMERS = {"all", "any", "next"}


def _probes_in(fi, vec: str):
    """(exhaustive, lazy) numeric probes over the parameter / local `vec` in one function"""
    from .common import expand_locals

    parent = {}
    for n in ast.walk(fi.node):
        for c in ast.iter_child_nodes(n):
            parent[id(c)] = n

    def over_vector(it) -> bool:
        it = expand_locals(fi, it)
        return any(isinstance(x, ast.Name) and x.id == vec for x in ast.walk(it))

    def fname(c):
        return c.func.id if isinstance(c.func, ast.Name) else c.func.attr if isinstance(c.func, ast.Attribute) else ""

    exhaustive, lazy = [], []
    for c in ast.walk(fi.node):
        if not isinstance(c, ast.Call):
            continue
        src = None  # the lazily iterated expression this probe lives in
        if isinstance(c.func, ast.Name) and c.func.id == "float" and c.args:
            p = c
            while id(p) in parent:
                q = parent[id(p)]
                if isinstance(q, (ast.ListComp, ast.SetComp, ast.DictComp)) and any(over_vector(g.iter) for g in q.generators):
                    if not any(g.ifs for g in q.generators):
                        exhaustive.append((c, "eager comprehension"))
                    break
                if isinstance(q, ast.GeneratorExp) and any(over_vector(g.iter) for g in q.generators):
                    src = q if not any(g.ifs for g in q.generators) else None
                    break
                if isinstance(q, ast.For) and over_vector(q.iter) and p in q.body:
                    unconditional = isinstance(p, (ast.Expr, ast.Assign, ast.Try))
                    has_break = any(isinstance(x, ast.Break) for x in ast.walk(q))
                    if unconditional and not has_break:
                        exhaustive.append((c, "loop without break"))
                    break
                if isinstance(q, (ast.If, ast.While)):
                    break  # a probe under a condition: not counted either way
                if isinstance(q, (ast.FunctionDef, ast.Lambda)):
                    break
                p = q
        elif fname(c) == "map" and len(c.args) == 2 and isinstance(c.args[0], ast.Name) and c.args[0].id == "float" and over_vector(c.args[1]):
            src = c
        if src is None:
            continue
        user = parent.get(id(src))
        if isinstance(user, ast.Call) and src in user.args:
            if fname(user) in EAGER_CONSUMERS:
                exhaustive.append((c, f"{fname(user)}(...) exhausts it"))
            elif fname(user) in LAZY_CONSUMERS:
                lazy.append((c, user))
        elif isinstance(user, ast.For) and user.iter is src and not any(isinstance(x, ast.Break) for x in ast.walk(user)):
            exhaustive.append((c, "loop over the mapped values"))
        elif isinstance(user, ast.Starred) or isinstance(user, (ast.Tuple, ast.List)):
            exhaustive.append((c, "unpacked"))
    return exhaustive, lazy


def probe_all(r: R, chk, qual: str, rule="PROBE-ALL"):
    """the numeric probe of the validator reaches every element of the vector: it sits in a loop without `break`, in an
    eager comprehension, or in a generator / map handed to a consumer that always exhausts it — not to all / any / next,
    which stop at the first falsy (0 is a legal knot) or truthy element and leave the rest unprobed.  The probe may sit in a
    private helper that is handed the vector."""
    fi = r.prog.func(qual)
    vec = next((p for p in fi.params if p not in ("self", "cls")), None)

    def fname(c):
        return c.func.id if isinstance(c.func, ast.Name) else c.func.attr if isinstance(c.func, ast.Attribute) else ""

    exhaustive, lazy = _probes_in(fi, vec)
    where = fi
    if not exhaustive and not lazy:
        # follow the resolved calls that receive the vector (one level)
        ctx = r.root(qual)
        for cr in ctx.calls:
            node = cr.node
            if not isinstance(node, ast.Call):
                continue
            for f in cr.callees:
                if f.module == "__classes__" or f.qual == qual:
                    continue
                fparams = [p for p in f.params if p not in ("self", "cls")]
                for k, a in enumerate(node.args):
                    if isinstance(a, ast.Name) and a.id == vec and k < len(fparams):
                        e2, l2 = _probes_in(f, fparams[k])
                        if e2 or l2:
                            exhaustive, lazy, where = exhaustive + e2, lazy + l2, f
    if not exhaustive and not lazy:
        chk.floor(rule, f"numeric probes of the elements in {qual}", 0, 1)
    ok = bool(exhaustive)
    chk.ob(rule, f"{qual}: `float(...)` is tried on every element of `{vec}`", ok, loc=f"{where.module}.py:{(exhaustive or lazy)[0][0].lineno}",
           detail="" if ok else f"{where.qual}: the only numeric probe is `{seg(lazy[0][1], 60)}`: `{fname(lazy[0][1])}` stops at the first {'falsy' if fname(lazy[0][1]) == 'all' else 'truthy' if fname(lazy[0][1]) == 'any' else ''} element — a knot 0 (or the first non-zero one) ends the scan and a non-numeric entry behind it is never probed, so it is accepted or fails later with another exception",
           func=qual, construct="numeric probe not exhaustive")
