"""Shared rule templates (DESIGN.md §2b) evaluated over the program model."""
from __future__ import annotations

import ast
from typing import Dict, Iterable, List, Optional, Set, Tuple

from .. import AnalysisError
from ..cfg import CFG, Node, raised_type
from ..index import FuncInfo, exc_is_sub
from ..interp import Ctx
from ..vals import Val, fmt_obj, fmt_src, root_of

CURVE_FIELDS = ("_BaseCurve__knotvector", "_BaseCurve__ctrlpoints", "_BaseCurve__weights")


def seg(node: ast.AST, n: int = 110) -> str:
    try:
        s = ast.unparse(node)
    except Exception:
        s = "<?>"
    s = " ".join(s.split())
    return s if len(s) <= n else s[: n - 3] + "..."


def base_obj(o):
    while o[0] in ("F", "E"):
        o = o[1]
    return o


class R:
    def __init__(self, m, chk):
        self.m = m
        self.chk = chk
        self.A = m.generic()
        self.prog = m.prog

    # ------------------------------------------------------------------ access
    def root(self, qual: str) -> Ctx:
        if qual not in self.prog.funcs:
            raise AnalysisError(f"anchor vanished: function {qual} no longer exists")
        return self.A.roots[qual]

    def has(self, qual: str) -> bool:
        return qual in self.prog.funcs

    def loc(self, ctx: Ctx, node) -> str:
        ln = node.lineno if hasattr(node, "lineno") else getattr(getattr(node, "ast", None), "lineno", ctx.fi.node.lineno)
        return f"{ctx.fi.module}.py:{ln}"

    def methods_of(self, *classes: str) -> List[FuncInfo]:
        out = []
        for c in classes:
            ci = self.prog.cls(c)
            out += list(ci.methods.values()) + list(ci.getters.values()) + list(ci.setters.values())
        return out

    def param_index(self, fi: FuncInfo, name: str) -> int:
        if name not in fi.params:
            raise AnalysisError(f"anchor vanished: parameter {name} of {fi.qual}")
        return fi.params.index(name)

    # ------------------------------------------------------------------ effects (E5)
    def effects_on(self, ctx: Ctx, i: int, kinds=("W", "M")) -> list:
        return sorted([e for e in ctx.summary.effects if root_of(e[1]) == i and e[0] in kinds], key=repr)

    def fmt_effect(self, e) -> str:
        kind, obj, field, loc, what = e
        return f"{what} on {fmt_obj(obj)} at {loc}"

    def pure(self, rule: str, qual: str, params: Iterable[str], note: str = "") -> bool:
        """PURE(op, i): op has no write / in-place effect on any object reachable from parameter i"""
        ctx = self.root(qual)
        ok_all = True
        for p in params:
            if p not in ctx.fi.params:
                raise AnalysisError(f"anchor vanished: parameter {p} of {qual}")
            i = ctx.fi.params.index(p)
            effs = self.effects_on(ctx, i)
            ok = not effs
            ok_all &= ok
            self.chk.ob(
                rule,
                f"PURE({qual}, {p})",
                ok,
                loc=self.loc(ctx, ctx.fi.node),
                detail="" if ok else f"{qual} may modify its operand `{p}`: " + "; ".join(self.fmt_effect(e) for e in effs[:4]),
                func=qual,
                construct=f"mutates {p}: " + (effs[0][4] + " " + fmt_obj(effs[0][1]) if effs else ""),
            )
        return ok_all

    def rooted(self, v: Optional[Val], deep: bool = False) -> Set[tuple]:
        if v is None:
            return set()
        pts = v.all_pts() if deep else v.pts
        return {o for o in pts if root_of(o) is not None}

    def fresh_result(self, rule: str, qual: str, check_curve_fields: bool = True, allow: Iterable[str] = ()) -> bool:
        """FRESH(op): the result (and for curves its knot vector object and its control point
        container / point objects) does not alias anything reachable from an operand"""
        ctx = self.root(qual)
        ret = ctx.summary.ret
        bad = []
        if ret is None:
            return True
        vals = [ret] + ([ret.elem] if ret.elem is not None else []) + (list(ret.items) if ret.items else [])
        objs = set()
        for v in vals:
            if v is None:
                continue
            for o in v.pts:
                if root_of(o) is not None:
                    # returning an immutable operand part (a number, a tuple) is no aliasing of state
                    if v.ty and v.ty <= {"int", "float", "number", "bool", "str", "None", "tuple"}:
                        continue
                    bad.append(f"result may be the operand object {fmt_obj(o)}")
                else:
                    objs.add(o)
        if check_curve_fields:
            for o in objs:
                for f in CURVE_FIELDS[:2]:
                    hv = ctx.summary.heap.get((o, f))
                    if hv is None:
                        continue
                    for x in hv.pts:
                        if root_of(x) is not None:
                            bad.append(f"{f.split('__')[-1]} of the result aliases {fmt_obj(x)}")
                    if f.endswith("ctrlpoints") and hv.elem is not None:
                        for x in hv.elem.pts:
                            if root_of(x) is not None and "ctrlpoints" in fmt_obj(x):
                                bad.append(f"control point objects of the result are the operand's objects {fmt_obj(x)}")
                kv = ctx.summary.heap.get((o, "_KnotVector__internal"))
        bad = [b for b in bad if not any(a in b for a in allow)]
        ok = not bad
        self.chk.ob(rule, f"FRESH({qual})", ok, loc=self.loc(ctx, ctx.fi.node), detail="" if ok else f"{qual}: " + "; ".join(sorted(set(bad))[:4]), func=qual, construct="aliases operand: " + (sorted(set(bad))[0] if bad else ""))
        return ok

    # ------------------------------------------------------------------ CFG helpers (E4)
    def stmt_nodes(self, ctx: Ctx) -> List[Node]:
        live = ctx.cfg.live_nodes()
        return [n for n in ctx.cfg.nodes if n.id in live and n.ast is not None]

    def arm_raises(self, ctx: Ctx, start: int, exc: Tuple[str, ...]) -> Optional[Node]:
        """follow straight-line code from `start`; return the Raise node if the arm ends by raising
        one of `exc` (message building assignments are allowed on the way)"""
        cfg = ctx.cfg
        cur = start
        for _ in range(12):
            n = cfg.nodes[cur]
            if n.kind != "stmt":
                return None
            if isinstance(n.ast, ast.Raise):
                t = raised_type(n.ast)
                if t is not None and any(exc_is_sub(t, e) for e in exc):
                    return n
                return None
            if isinstance(n.ast, ast.Assert):
                return None
            if not isinstance(n.ast, (ast.Assign, ast.AugAssign, ast.Expr, ast.Pass)):
                return None
            nx = [t for t, lab in n.succ if lab in ("n",)]
            if len(nx) != 1:
                return None
            cur = nx[0]
        return None

    def raise_guards(self, ctx: Ctx, exc=("ValueError",)) -> List[Tuple[Node, str, Node]]:
        """test nodes one arm of which raises `exc`: (test node, label of the passing arm, raise node)"""
        out = []
        for n in self.stmt_nodes(ctx):
            if n.kind != "test":
                continue
            arms = {lab: t for t, lab in n.succ if lab in ("t", "f")}
            for lab, t in arms.items():
                r = self.arm_raises(ctx, t, exc)
                if r is not None:
                    other = "f" if lab == "t" else "t"
                    out.append((n, other, r))
        return out

    def guard_dominates(self, ctx: Ctx, guard: Tuple[Node, str, Node], target: int) -> bool:
        n, lab, _ = guard
        return ctx.cfg.edge_dominates(n.id, lab, target)

    def nodes_where(self, ctx: Ctx, pred) -> List[Node]:
        return [n for n in self.stmt_nodes(ctx) if pred(n)]

    def calls_in(self, ctx: Ctx, callee_suffix: str = "", kind: Optional[str] = None):
        out = []
        for c in ctx.calls:
            if kind is not None and c.kind != kind:
                continue
            for fi in c.callees:
                if fi.qual.endswith(callee_suffix):
                    out.append(c)
                    break
        return sorted(out, key=lambda c: (getattr(c.node, "lineno", 0), getattr(c.node, "col_offset", 0)))

    def cond_mentions(self, test: ast.expr, pred) -> bool:
        return any(pred(x) for x in ast.walk(test))

    # ------------------------------------------------------------------ state writes / COMMIT-LAST
    def write_nodes(self, ctx: Ctx, root: int = 0) -> Dict[int, list]:
        """cfg nodes that write state of parameter `root` (field store, setter, own mutator, in-place)"""
        out = {}
        live = ctx.cfg.live_nodes()
        for nid, effs in ctx.node_effects.items():
            if nid not in live:
                continue
            es = [e for e in effs if root_of(e[1]) == root]
            if es:
                out[nid] = sorted(es, key=repr)
        return out

    @staticmethod
    def simple_expr(e: Optional[ast.expr]) -> bool:
        """a value that is already computed: name, constant, attribute of a name, tuple(name)"""
        if e is None:
            return True
        if isinstance(e, (ast.Name, ast.Constant)):
            return True
        if isinstance(e, ast.Attribute):
            return isinstance(e.value, ast.Name)
        if isinstance(e, ast.Call) and isinstance(e.func, ast.Name) and e.func.id in ("tuple", "list") and len(e.args) == 1 and not e.keywords:
            return R.simple_expr(e.args[0])
        if isinstance(e, (ast.Tuple, ast.List)):
            return all(R.simple_expr(x) for x in e.elts)
        if isinstance(e, ast.UnaryOp) and isinstance(e.op, (ast.USub, ast.Not)):
            return R.simple_expr(e.operand)
        return False

    @staticmethod
    def simple_test(e: ast.expr) -> bool:
        if isinstance(e, ast.BoolOp):
            return all(R.simple_test(x) for x in e.values)
        if isinstance(e, ast.UnaryOp) and isinstance(e.op, ast.Not):
            return R.simple_test(e.operand)
        if isinstance(e, ast.Compare) and len(e.ops) == 1 and isinstance(e.ops[0], (ast.Is, ast.IsNot, ast.Eq, ast.NotEq, ast.Lt, ast.Gt, ast.LtE, ast.GtE)):
            return R.simple_expr(e.left) and R.simple_expr(e.comparators[0])
        return R.simple_expr(e)

    def commit_group(self, ctx: Ctx, n: Node, writes: Dict[int, list]) -> bool:
        a = n.ast
        if n.kind in ("exit", "raise", "entry"):
            return True
        if n.kind == "test":
            return self.simple_test(a)
        if n.kind in ("for", "handler"):
            return False
        if isinstance(a, ast.Return):
            if a.value is None or self.simple_expr(a.value):
                return True
            # `return self.own_mutator(simple args)` — delegation is a write node
            if n.id in writes and isinstance(a.value, ast.Call):
                return all(self.simple_expr(x) for x in a.value.args) and all(self.simple_expr(k.value) for k in a.value.keywords)
            return False
        if isinstance(a, ast.Pass):
            return True
        if n.id in writes:
            if isinstance(a, ast.Assign) and len(a.targets) == 1 and isinstance(a.targets[0], ast.Attribute):
                return self.simple_expr(a.value)
            if isinstance(a, ast.Expr) and isinstance(a.value, ast.Call):
                c = a.value
                return all(self.simple_expr(x) for x in c.args) and all(self.simple_expr(k.value) for k in c.keywords)
            return False
        return False

    def commit_last(self, rule: str, qual: str, root: int = 0) -> bool:
        """COMMIT-LAST(f): on every path, once state of `self` has been written only statements
        of the commit group follow"""
        ctx = self.root(qual)
        cfg = ctx.cfg
        writes = self.write_nodes(ctx, root)
        bad = None
        for w in sorted(writes):
            reach = cfg.reachable_from_succ(w, exc=False)
            for x in sorted(reach):
                n = cfg.nodes[x]
                if not self.commit_group(ctx, n, writes):
                    bad = (cfg.nodes[w], n)
                    break
            if bad:
                break
        ok = bad is None
        detail = ""
        construct = ""
        if bad:
            w, n = bad
            detail = (
                f"{qual}: state of the receiver is written at {self.loc(ctx, w.ast)} (`{seg(w.ast, 60)}`) and then `{seg(n.ast, 80)}` "
                f"({self.loc(ctx, n.ast)}) still computes / may raise: a failure there leaves the object half-updated"
            )
            construct = f"after-commit: {seg(n.ast, 80)}"
        self.chk.ob(rule, f"COMMIT-LAST({qual})", ok, loc=self.loc(ctx, bad[1].ast) if bad else self.loc(ctx, ctx.fi.node), detail=detail, func=qual, construct=construct, nontrivial=bool(writes))
        return ok

    # ------------------------------------------------------------------ dependences (E7)
    def srcs(self, fi: FuncInfo, spec: Iterable[str]) -> Set[tuple]:
        """'self.knotvector' / 'other' / 'other.weights' ... -> dependence sources"""
        out = set()
        fld = {"knotvector": CURVE_FIELDS[0], "ctrlpoints": CURVE_FIELDS[1], "weights": CURVE_FIELDS[2]}
        for s in spec:
            if "." in s:
                p, f = s.split(".", 1)
                out.add(("PF", self.param_index(fi, p), fld.get(f, f)))
            else:
                out.add(("P", self.param_index(fi, s)))
        return out

    @staticmethod
    def dep_has(dep: Iterable[tuple], want: tuple) -> bool:
        """a dependence on a whole parameter object subsumes nothing; a required field dependence
        is satisfied by the field itself; a required parameter dependence by the parameter or any
        of its fields"""
        dep = set(dep)
        if want in dep:
            return True
        if want[0] == "P":
            return any(d[0] == "PF" and d[1] == want[1] for d in dep)
        return False

    def deep_dep(self, ctx: Ctx, v: Optional[Val], must: bool = False, heap=None) -> Set[tuple]:
        """dependences of a value including those of the objects it designates (fields in the heap)"""
        if v is None:
            return set()
        heap = ctx.summary.heap if heap is None else heap
        out = set(v.all_mdep() if must else v.all_dep())
        seen, todo = set(), list(v.all_pts())
        while todo:
            o = todo.pop()
            if o in seen:
                continue
            seen.add(o)
            for (ob, f), hv in heap.items():
                if ob == o:
                    out |= hv.all_mdep() if must else hv.all_dep()
                    todo.extend(hv.all_pts())
        return out

    def fmt_deps(self, fi: FuncInfo, deps) -> str:
        out = []
        for d in sorted(deps, key=repr):
            if d[0] == "P" and d[1] < len(fi.params):
                out.append(fi.params[d[1]])
            elif d[0] == "PF" and d[1] < len(fi.params):
                out.append(f"{fi.params[d[1]]}.{d[2].split('__')[-1]}")
            else:
                out.append(fmt_src(d))
        return ", ".join(out)


# ------------------------------------------------------------------------------------------------
def limits_guards(r: R, ctx: Ctx, srcs_a: Set[tuple], srcs_b: Set[tuple]):
    """ValueError raise-guards whose condition depends on (the knot vector of) both operands"""
    out = []
    for g in r.raise_guards(ctx, ("ValueError",)):
        v = ctx.val(g[0].ast)
        if v is None:
            continue
        d = v.all_dep()
        if any(R.dep_has(d, a) for a in srcs_a) and any(R.dep_has(d, b) for b in srcs_b):
            out.append(g)
    return out


def reach_cut(ctx: Ctx, starts, avoid=frozenset(), cut_edges=frozenset()) -> Set[int]:
    """nodes reachable over normal edges from `starts`, not entering `avoid`, not traversing `cut_edges` (node id, label)"""
    seen, todo = set(), list(starts)
    while todo:
        x = todo.pop()
        if x in seen or x in avoid:
            continue
        seen.add(x)
        for t_, lab in ctx.cfg.nodes[x].succ:
            if lab == "exc" or (x, lab) in cut_edges:
                continue
            todo.append(t_)
    return seen


def falls_through(ctx: Ctx) -> List[Node]:
    """nodes from which the function end is reached without a `return` (implicit None)"""
    cfg = ctx.cfg
    live = cfg.live_nodes()
    return [cfg.nodes[p] for p, lab in cfg.nodes[cfg.exit].pred if p in live and not isinstance(cfg.nodes[p].ast, ast.Return)]


# ------------------------------------------------------------------------------------------------
# local aliases: `w = self.weights`, `umin, umax = kv[0], kv[-1]` — a name with ONE definition whose right-hand side is a pure,
# simple expression (name / attribute chain / constant subscript) stands for that expression in facts and guards
def _pure_simple(e) -> bool:
    if isinstance(e, (ast.Name, ast.Constant)):
        return True
    if isinstance(e, ast.Attribute):
        return _pure_simple(e.value)
    if isinstance(e, ast.Subscript):
        sl = e.slice
        if isinstance(sl, ast.UnaryOp):
            sl = sl.operand
        return isinstance(sl, ast.Constant) and _pure_simple(e.value)
    return False


def local_aliases(fnode: ast.FunctionDef) -> Dict[str, ast.expr]:
    defs: Dict[str, list] = {}
    params = {a.arg for a in fnode.args.args + fnode.args.posonlyargs + fnode.args.kwonlyargs}
    for a in ast.walk(fnode):
        if isinstance(a, ast.Assign):
            for t in a.targets:
                if isinstance(t, ast.Name):
                    defs.setdefault(t.id, []).append(a.value)
                elif isinstance(t, (ast.Tuple, ast.List)):
                    if isinstance(a.value, (ast.Tuple, ast.List)) and len(a.value.elts) == len(t.elts):
                        for tt, vv in zip(t.elts, a.value.elts):
                            if isinstance(tt, ast.Name):
                                defs.setdefault(tt.id, []).append(vv)
                    else:
                        for tt in ast.walk(t):
                            if isinstance(tt, ast.Name):
                                defs.setdefault(tt.id, []).append(None)
        elif isinstance(a, (ast.AugAssign, ast.AnnAssign)) and isinstance(a.target, ast.Name):
            defs.setdefault(a.target.id, []).append(None)
        elif isinstance(a, (ast.For, ast.comprehension)):
            for tt in ast.walk(a.target):
                if isinstance(tt, ast.Name):
                    defs.setdefault(tt.id, []).append(None)
        elif isinstance(a, ast.NamedExpr) and isinstance(a.target, ast.Name):
            defs.setdefault(a.target.id, []).append(None)
    out = {}
    for k, vs in defs.items():
        if k in params or len(vs) != 1 or vs[0] is None or not _pure_simple(vs[0]) or isinstance(vs[0], ast.Constant):
            continue
        # the aliased expression must not mention a name that is itself reassigned — except a parameter normalised once by
        # `p = Ctor(p)` textually before the alias is taken
        bad = False
        for x in ast.walk(vs[0]):
            if not isinstance(x, ast.Name):
                continue
            ds = defs.get(x.id, [])
            if x.id in params:
                if len(ds) == 0:
                    continue
                if len(ds) == 1 and ds[0] is not None and any(isinstance(y, ast.Name) and y.id == x.id for y in ast.walk(ds[0])) and getattr(ds[0], "lineno", 10**9) < getattr(vs[0], "lineno", 0):
                    continue
                bad = True
            elif len(ds) > 1:
                bad = True
        if bad:
            continue
        out[k] = vs[0]
    return out


class _Unalias(ast.NodeTransformer):
    def __init__(self, al):
        self.al = al

    def visit_Name(self, n):
        if isinstance(n.ctx, ast.Load) and n.id in self.al:
            import copy as _c

            return self.visit(_c.deepcopy(self.al[n.id]))
        return n


def unalias(e: ast.expr, al: Dict[str, ast.expr]) -> ast.expr:
    import copy as _c

    if not al:
        return e
    return _Unalias(al).visit(_c.deepcopy(e))


def expand_locals(fi, e, depth: int = 3, keep=()):
    """the expression with every local name that has exactly one definition replaced by that definition (a few levels)"""
    import copy

    defs = {}
    for a in ast.walk(fi.node):
        if isinstance(a, ast.Assign) and len(a.targets) == 1 and isinstance(a.targets[0], ast.Name):
            defs.setdefault(a.targets[0].id, []).append(a.value)

    class T(ast.NodeTransformer):
        def visit_Name(self, n):
            if isinstance(n.ctx, ast.Load) and len(defs.get(n.id, [])) == 1 and n.id not in fi.params and n.id not in keep:
                return copy.deepcopy(defs[n.id][0])
            return n

    out = copy.deepcopy(e)
    for _ in range(depth):
        out = T().visit(out)
    return out
