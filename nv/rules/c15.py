"""C15 — curves stay consistent; failed operations are atomic; operands stay untouched."""
from __future__ import annotations

import ast

from .. import AnalysisError
from ..index import mangle
from ..vals import fmt_obj, root_of
from .common import CURVE_FIELDS, R, seg

NEED = ("generic",)

# A2 — composite Curve mutators (sequences of atomic steps), one reason each
COMPOSITE = {
    "curves.BaseCurve.degree.setter": "one delegate (degree_increase / degree_decrease), then returns",
    "curves.Curve.fit": "three mutually exclusive delegates",
    "curves.Curve.knot_clean": "repeats the atomic knot_remove until it is refused (refusal is caught)",
    "curves.Curve.degree_clean": "repeats the atomic degree_decrease until it is refused (refusal is caught)",
    "curves.Curve.clean": "degree_clean, knot_clean, then for rational curves one projection and a one-shot recursion",
    "curves.Curve.fit_function": "samples the function, then delegates to the atomic fit_points",
}
FIELD_WRITERS = {
    "_BaseCurve__ctrlpoints": {"curves.BaseCurve.__init__", "curves.BaseCurve.ctrlpoints.setter"},
    "_BaseCurve__weights": {"curves.BaseCurve.__init__", "curves.BaseCurve.weights.setter"},
    "_BaseCurve__knotvector": {"curves.BaseCurve.__init__", "curves.BaseCurve.update"},
}
# A1 — operations the property declares non-mutating, and the operands they must preserve
NONMUT = {
    "curves.BaseCurve": {
        "__call__": ["self", "nodes"], "__eq__": ["self", "other"], "__ne__": ["self", "obj"], "__neg__": ["self"],
        "__add__": ["self", "other"], "__radd__": ["self", "other"], "__sub__": ["self", "other"], "__rsub__": ["self", "other"],
        "__mul__": ["self", "other"], "__rmul__": ["self", "other"], "__matmul__": ["self", "other"], "__rmatmul__": ["self", "other"],
        "__truediv__": ["self", "other"], "__rtruediv__": ["self", "other"], "__or__": ["self", "other"],
        "__copy__": ["self"], "__deepcopy__": ["self"], "fraction": ["self"],
        "knotvector": ["self"], "degree": ["self"], "npts": ["self"], "knots": ["self"], "weights": ["self"], "ctrlpoints": ["self"],
    },
    "curves.Curve": {"__str__": ["self"], "eval": ["self", "nodes"], "split": ["self", "nodes"]},
}
ARG_PRESERVED = {
    "curves.Curve.fit_curve": ["other", "nodes"],
    "curves.Curve.fit_points": ["points", "nodes"],
    "curves.Curve.fit_function": ["function"],
    "curves.Curve.knot_insert": ["nodes"],
    "curves.Curve.knot_remove": ["nodes"],
    "curves.Curve.knot_clean": ["nodes"],
    "curves.BaseCurve.update": ["newknotvector", "nodes"],
    "curves.BaseCurve.knotvector.setter": ["value"],
    "curves.BaseCurve.apply": ["newknotvector", "matrix"],
    "curves.BaseCurve.ctrlpoints.setter": ["newpoints"],
    "curves.BaseCurve.weights.setter": ["value"],
    "calculus.Derivate.__new__": ["curve"], "calculus.Derivate.curve": ["curve"], "calculus.Derivate.bezier": ["curve"],
    "calculus.Derivate.spline": ["curve"], "calculus.Derivate.nonrational_bezier": ["curve"], "calculus.Derivate.rational_bezier": ["curve"],
    "calculus.Derivate.nonrational_spline": ["curve"], "calculus.Derivate.rational_spline": ["curve"],
    "calculus.Integrate.scalar": ["curve"], "calculus.Integrate.lenght": ["curve"], "calculus.Integrate.density": ["curve"],
    "calculus.Integrate.function": ["knotvector"],
    "advanced.Projection.point_on_curve": ["point", "curve"], "advanced.Projection.point_on_bezier": ["point", "bezier"],
    "advanced.Intersection.bcurve_and_bcurve": ["beziera", "bezierb"], "advanced.Intersection.curve_and_curve": ["curvea", "curveb"],
    "advanced.Intersection.filter_pairs": ["pairs"], "advanced.Intersection.pairs_min_distance": ["pairs", "curvea", "curveb"],
}
FRESH = [
    "curves.BaseCurve.__neg__", "curves.BaseCurve.__add__", "curves.BaseCurve.__radd__", "curves.BaseCurve.__sub__", "curves.BaseCurve.__rsub__",
    "curves.BaseCurve.__mul__", "curves.BaseCurve.__rmul__", "curves.BaseCurve.__matmul__", "curves.BaseCurve.__rmatmul__",
    "curves.BaseCurve.__truediv__", "curves.BaseCurve.__rtruediv__", "curves.BaseCurve.__or__", "curves.BaseCurve.__copy__",
    "curves.BaseCurve.__deepcopy__", "curves.BaseCurve.fraction", "curves.Curve.split", "calculus.Derivate.curve",
]


def direct_stores(r: R, field: str):
    """(function, node) of every syntactic store into the private field"""
    out = []
    for fi in r.prog.all_functions():
        for n in ast.walk(fi.node):
            tg = []
            if isinstance(n, ast.Assign):
                tg = n.targets
            elif isinstance(n, (ast.AugAssign, ast.AnnAssign)):
                tg = [n.target]
            for t in tg:
                for x in ast.walk(t):
                    if isinstance(x, ast.Attribute) and isinstance(x.ctx, ast.Store) and mangle(fi.clsname, x.attr) == field:
                        out.append((fi, n))
            if isinstance(n, ast.Call) and isinstance(n.func, ast.Name) and n.func.id == "setattr" and len(n.args) >= 2:
                a = n.args[1]
                if isinstance(a, ast.Constant) and a.value == field:
                    out.append((fi, n))
    return out


def in_function(fi, loc: str) -> bool:
    """the effect originates in the body of fi (reports name the origin, not every caller)"""
    try:
        mod, ln = loc.split(".py:")
        ln = int(ln)
    except ValueError:
        return True
    return mod == fi.module and fi.node.lineno <= ln <= (fi.node.end_lineno or ln)


def curve_mutators(r: R):
    """Curve / BaseCurve methods whose summary writes state of the receiver (derived, not listed)"""
    out = []
    for fi in r.methods_of("BaseCurve", "Curve"):
        if fi.name in ("__init__", "__new__") or not fi.has_self:
            continue
        ctx = r.root(fi.qual)
        if r.effects_on(ctx, 0):
            out.append(fi)
    return sorted(out, key=lambda f: f.qual)


def run(m, chk):
    r = R(m, chk)
    chk.explanation = (
        "Static discharge of the structural clauses of C15 on the resolved program (ast + CFG + alias/effect summaries): "
        "who may write the private state of a curve (funnel), commit-last ordering of every Curve mutator, "
        "absence of write / in-place effects on operands of the non-mutating operations, freshness of results, "
        "no in-place KnotVector mutator applied to a shared knot vector, no in-place operation on stored control point objects. "
        "The value-level clause (the curve evaluates on its whole interval) is not decided."
    )
    chk.decides = ["COMMIT-LOOP (a composite that commits step by step until the step is refused lets nothing but that refusal happen between two commits: the elements of a caller's sequence are probed before the first step, and no knot-vector method under the step refuses a request with an assert)", "ONE-COMMIT (the degree setter delegates to one committing call per path, never in a loop)", "TUPLE-MUTATE (no list-only method is called on a value that is a tuple on every path under the validating setters: the refusal is the ValueError that was meant)", "LEN-WEIGHTS (a weight vector of the wrong length is refused — by an explicit test or by a shape-checking contraction — before it is stored)", "invariant funnel (who-may-write + guard dominance)", "COMMIT-LAST for Curve mutators", "PURE/FRESH for non-mutating operations", "shared KnotVector never mutated by curve code", "NO-INPLACE-ELEM", 'PRECHECK', 'PRECHECK-LEN', 'KV-CONSISTENT (rebinding the knot vector leaves no stale control points / weights)']
    chk.not_decided = ["the curve evaluates on its whole interval", "len(ctrlpoints)=npts as a value-level fact beyond the guarded setter"]
    chk.assume("a setter's validation of an already computed value of the right length is not modelled as a failure point")
    chk.assume("numpy functions and user supplied callables do not modify their arguments; copy() of a user point yields an independent object")

    # 1. funnel ---------------------------------------------------------------------------
    for field, allowed in FIELD_WRITERS.items():
        stores = direct_stores(r, field)
        chk.floor("FUNNEL", f"direct stores of {field}", len(stores), 2)
        for fi, n in stores:
            ok = fi.qual in allowed
            chk.ob("FUNNEL", f"store of {field} in {fi.qual}: {seg(n, 50)}", ok, loc=f"{fi.module}.py:{n.lineno}",
                   detail="" if ok else f"{fi.qual} writes the private field {field} directly (`{seg(n, 70)}`); only {sorted(allowed)} may — the validated setter is bypassed",
                   func=fi.qual, construct=f"direct store {field}")
    # non-None control points are stored only under the length guard
    sq = "curves.BaseCurve.ctrlpoints.setter"
    ctx = r.root(sq)
    guards = [g for g in r.raise_guards(ctx, ("ValueError",)) if r.cond_mentions(g[0].ast, lambda x: isinstance(x, ast.Call) and isinstance(x.func, ast.Name) and x.func.id == "len") and r.cond_mentions(g[0].ast, lambda x: isinstance(x, ast.Attribute) and x.attr == "npts")]
    stores = [n for n in r.stmt_nodes(ctx) if isinstance(n.ast, ast.Assign) and any(isinstance(t, ast.Attribute) and mangle("BaseCurve", t.attr) == CURVE_FIELDS[1] for t in n.ast.targets)]
    nn = [n for n in stores if not (isinstance(n.ast.value, ast.Constant) and n.ast.value.value is None)]
    chk.floor("FUNNEL-GUARD", "non-None stores of the control points", len(nn), 1)
    for n in nn:
        ok = any(r.guard_dominates(ctx, g, n.id) for g in guards)
        chk.ob("FUNNEL-GUARD", f"{sq}: `{seg(n.ast, 50)}` dominated by len(points) != npts ⇒ ValueError", ok, loc=r.loc(ctx, n.ast),
               detail="" if ok else f"{sq}: control points are stored at {r.loc(ctx, n.ast)} on a path that does not pass the `len(newpoints) != self.npts` ⇒ ValueError guard", func=sq, construct="unguarded store of control points")
    # update: a rebinding of the knot vector is either the no-points case or is followed by the validated writes
    uq = "curves.BaseCurve.update"
    ctx = r.root(uq)
    kvstores = [n for n in r.stmt_nodes(ctx) if isinstance(n.ast, ast.Assign) and any(isinstance(t, ast.Attribute) and mangle("BaseCurve", t.attr) == CURVE_FIELDS[0] for t in n.ast.targets)]
    chk.floor("FUNNEL-UPDATE", "knot vector rebindings in update", len(kvstores), 1)
    cp_setter_nodes = {c.cfgnode for c in ctx.calls if c.kind == "setter" and any(f.qual == sq for f in c.callees)}
    from .c08 import path_facts

    for n in kvstores:
        a = ("self.ctrlpoints is None", True) in path_facts(ctx, n.id)
        reach = ctx.cfg.reachable(n.id, exc=False, avoid=cp_setter_nodes)
        b = ctx.cfg.exit not in reach
        chk.ob("FUNNEL-UPDATE", f"{uq}: `{seg(n.ast, 50)}` is the no-control-points case or is followed by the control point write", a or b, loc=r.loc(ctx, n.ast),
               detail="" if (a or b) else f"{uq}: the knot vector is rebound at {r.loc(ctx, n.ast)} and a path reaches the exit without writing matching control points", func=uq, construct=f"kv rebinding {seg(n.ast, 40)}")

    # 2. commit-last ----------------------------------------------------------------------
    muts = curve_mutators(r)
    chk.floor("COMMIT-LAST", "Curve mutators (derived from effect summaries)", len(muts), 15)
    for fi in muts:
        if fi.qual in COMPOSITE:
            ctx = r.root(fi.qual)
            direct = [n for f_ in CURVE_FIELDS for (g, n) in direct_stores(r, f_) if g.qual == fi.qual]
            ok = not direct
            chk.ob("COMPOSITE", f"{fi.qual}: {COMPOSITE[fi.qual]} — only delegates to atomic mutators", ok, loc=r.loc(ctx, fi.node),
                   detail="" if ok else f"{fi.qual} is a composite of atomic steps but writes private state directly: {seg(direct[0], 60)}", func=fi.qual, construct="direct store in composite")
        else:
            r.commit_last("COMMIT-LAST", fi.qual)
    for q in COMPOSITE:
        if not r.has(q):
            raise AnalysisError(f"anchor vanished: composite mutator {q}")

    from .extra import tuple_mutate

    tuple_mutate(r, chk, ["curves.BaseCurve.weights.setter", "curves.BaseCurve.ctrlpoints.setter"])
    # a setter that delegates to a committing operation does so once per path and never in a loop: several separately committed
    # steps are not one transaction (the request can be refused half-way)
    dsq = "curves.BaseCurve.degree.setter"
    dctx = r.root(dsq)
    muts_called = [c_ for c_ in dctx.calls if c_.kind == "call" and any(f_.name in ("degree_increase", "degree_decrease") for f_ in c_.callees)]
    chk.floor("ONE-COMMIT", "delegations of the degree setter", len(muts_called), 2)
    loops = [x for x in ast.walk(dctx.fi.node) if isinstance(x, (ast.For, ast.While))]
    for c_ in muts_called:
        in_loop = any(any(y is c_.node for y in ast.walk(lp)) for lp in loops)
        chk.ob("ONE-COMMIT", f"{dsq}: `{seg(c_.node, 40)}` is a single committing call", not in_loop, loc=r.loc(dctx, c_.node),
               detail="" if not in_loop else f"{dsq}: `{seg(c_.node, 40)}` is called in a loop: every call commits on its own, so a request that is refused at a later step (the true degree lies between the current and the requested one) raises ValueError after the earlier steps were already committed — the curve is left at an intermediate degree",
               func=dsq, construct="committing operation repeated in a loop")
    from .extra import commit_loop, len_weights

    commit_loop(r, chk, ["curves.Curve.knot_clean", "curves.Curve.degree_clean"])
    len_weights(r, chk)
    from .extra import kv_consistent, precheck_len, precheck_weights

    precheck_weights(r, chk, [fi.qual for fi in muts])
    precheck_len(r, chk, "curves.BaseCurve.apply")
    kv_consistent(r, chk, ["curves.BaseCurve.update"])
    # 3. non-mutating operations --------------------------------------------------------------
    n_pure = 0
    for cls, table in NONMUT.items():
        for name, params in table.items():
            ci = r.prog.cls(cls.split(".")[-1])
            fi = ci.methods.get(name) or ci.getters.get(name)
            if fi is None:
                raise AnalysisError(f"anchor vanished: {cls}.{name}")
            r.pure("PURE", fi.qual, params)
            n_pure += len(params)
    for q, params in ARG_PRESERVED.items():
        r.pure("PURE", q, params)
        n_pure += len(params)
    chk.floor("PURE", "operand-preservation instances", n_pure, 80)
    for q in FRESH:
        r.fresh_result("FRESH", q)

    # 4. shared KnotVector ---------------------------------------------------------------------
    shared = 0
    positive = 0
    for fi in r.prog.all_functions():
        if fi.module in ("knotspace", "heavy", "__classes__"):
            continue
        ctx = r.A.roots.get(fi.qual)
        if ctx is None:
            continue
        hits = []
        for e in sorted(ctx.summary.effects, key=repr):
            kind, obj, field, loc, what = e
            if field != "_KnotVector__internal":
                continue
            if root_of(obj) is None:
                continue
            # the knot vector object stored in a curve / function, or a KnotVector handed in
            hits.append(e)
        if fi.module == "functions":
            positive += len(hits)
            for e in hits:
                chk.note(f"{fi.qual}: mutates a possibly shared KnotVector ({fmt_obj(e[1])} at {e[3]}) — a Function operation, outside the statement of C15")
            continue
        shared += 1
        ok = not hits
        chk.ob("SHARED-KV", f"{fi.qual}: no in-place KnotVector mutator on a knot vector reachable from an argument", ok, loc=f"{fi.module}.py:{fi.node.lineno}",
               detail="" if ok else f"{fi.qual} mutates a KnotVector object it does not own ({fmt_obj(hits[0][1])}, {hits[0][4]} at {hits[0][3]}): curves built from the same KnotVector object change together",
               func=fi.qual, construct=f"in-place KnotVector mutation of {fmt_obj(hits[0][1])}" if hits else "")
    chk.floor("SHARED-KV", "functions of curves/calculus/advanced analysed", shared, 70)
    chk.extra["shared_kv_positive_control"] = positive
    if r.has("functions.BaseFunction.degree.setter") and "knotvector.degree" in ast.unparse(r.prog.func("functions.BaseFunction.degree.setter").node):
        chk.floor("SHARED-KV", "positive control (BaseFunction.degree.setter is recognised as mutating the shared KnotVector)", positive, 1)

    # 5. no in-place operation on stored point objects ---------------------------------------------
    n_el = 0
    for fi in r.prog.all_functions():
        if fi.module in ("__classes__",):
            continue
        ctx = r.A.roots.get(fi.qual)
        if ctx is None:
            continue
        n_el += 1
        hits = [e for e in sorted(ctx.summary.effects, key=repr) if e[0] == "M" and "ctrlpoints" in fmt_obj(e[1]) and e[1][0] == "E" and root_of(e[1]) is not None and in_function(fi, e[3])]
        if fi.module not in ("curves",) and not hits:
            continue
        ok = not hits
        chk.ob("NO-INPLACE-ELEM", f"{fi.qual}: no in-place operator applied to a stored control point object", ok, loc=hits[0][3] if hits else f"{fi.module}.py:{fi.node.lineno}",
               detail="" if ok else f"{fi.qual}: `{hits[0][4]}` at {hits[0][3]} is applied to {fmt_obj(hits[0][1])} — the point objects are shared with the caller and with shallow copies, and a failing in-place operation leaves the curve half-updated",
               func=fi.qual, construct=f"{hits[0][4]} at element of ctrlpoints" if hits else "")
