"""C09 — Derivate(curve) is the derivative of the curve."""
from __future__ import annotations

import ast

from .common import CURVE_FIELDS, R, falls_through, seg

NEED = ("generic",)
D = "calculus.Derivate."
FUNCS = ["__new__", "curve", "bezier", "spline", "nonrational_bezier", "rational_bezier", "nonrational_spline", "rational_spline"]


def run(m, chk):
    r = R(m, chk)
    chk.explanation = (
        "Static discharge of structural clauses of C09: no Derivate.* function modifies its curve and the result is a fresh curve; every dispatcher returns on every path "
        "(Bezier/spline x rational/non-rational exhaustively); the degree-0 branch returns a curve on the curve's limits built from 0 * ctrlpoints[0]; the result depends on knot vector, "
        "control points and — on rational branches — weights. The derivative values and the quotient-rule algebra are not decided."
    )
    chk.decides = ["COUNT-PAIR (the knot vector of the spline derivative loses a data-dependent number of knots — one per knot of full multiplicity — so its control points are selected by the knots as well, and never by their values)", "MULT-AWARE (the copies inserted / removed around a degree elevation are counted from each knot's multiplicity)", "SCALE-REACHES (every matrix the Bezier derivative helper returns went through the division by the interval length)", "TRUNC-FLOAT (no integer obtained by truncating a float quotient is used under Derivate)", "POINT-OPS (Derivate applies nothing to a control point but scalar * point and point + point, the protocol the library promises to be enough)", "TOL-ABSOLUTE (knot identity is decided on differences, never with a tolerance relative to the knots)", "DTYPE-INHERIT (the derivative factors are not stored into an array whose dtype comes from the data)", "RESULT-HOMOG (the derivative of a rational curve is of degree 0 in the weights: numerator and denominator parts are divided out)", "PURE", "FRESH", "EXHAUSTIVE dispatch", "DEP-MAY", "degree-0 branch shape", 'INTERVAL (the derivative lives on the operand knot values)', 'ZIP-ALIGN (the product knot vector of the quotient rule pairs parallel lists with the same slice)', 'NO-LOSSY (the derivative is not passed through a tolerance-accepting simplifier)']
    chk.not_decided = ["D(u) = dC/du as values", "quotient rule algebra", "knot vector of the derivative"]
    for f in FUNCS:
        r.pure("PURE", D + f, ["curve"])
        r.fresh_result("FRESH", D + f)
    from .extra import trunc_float, count_pair

    count_pair(r, chk, D + "nonrational_spline")
    trunc_float(r, chk, [D + "__new__"])
    from .extra import scale_reaches

    scale_reaches(r, chk, ["heavy.Calculus.derivate_nonrational_bezier"], floor=1)
    from .extra import mult_aware

    mult_aware(r, chk, ["heavy.Operations.degree_increase", "heavy.Operations.split_curve"], floor=2)
    from .extra import point_ops

    point_ops(r, chk, [D + f for f in FUNCS], floor=4)
    from .extra import no_lossy, zip_align

    zip_align(r, chk, [D + "__new__"])
    no_lossy(r, chk, [D + "__new__"])
    from .extra import dtype_inherit

    dtype_inherit(r, chk, [D + "__new__"])
    from .homog import result_homog

    result_homog(r, chk, [D + "rational_bezier", D + "rational_spline"], floor=2)
    for f in ("curve", "bezier", "spline", "__new__"):
        ctx = r.root(D + f)
        ft = falls_through(ctx)
        ok = not ft
        chk.ob("EXHAUSTIVE", f"{D + f}: every path ends in a `return`", ok, loc=r.loc(ctx, ft[0].ast) if ft else r.loc(ctx, ctx.fi.node), detail="" if ok else f"{D + f}: a path falls off the end after `{seg(ft[0].ast, 50)}` — Derivate returns None for that kind of curve", func=D + f, construct="dispatch falls through")
        rets = list(ctx.ret_sites.items())
        for nid, v in rets:
            okv = v is not None and any(t.startswith("inst:") for t in v.ty) and "None" not in v.ty
            chk.ob("EXHAUSTIVE", f"{D + f}: `{seg(ctx.cfg.nodes[nid].ast, 40)}` returns a curve", okv, loc=r.loc(ctx, ctx.cfg.nodes[nid].ast), detail="" if okv else f"{D + f}: `{seg(ctx.cfg.nodes[nid].ast, 50)}` may return {sorted(v.ty) if v else '?'}", func=D + f, construct="non-curve result")
    # dependence per leaf
    for f, need in (("nonrational_bezier", ["curve.knotvector", "curve.ctrlpoints"]), ("nonrational_spline", ["curve.knotvector", "curve.ctrlpoints"]),
                    ("rational_bezier", ["curve.knotvector", "curve.ctrlpoints", "curve.weights"]), ("rational_spline", ["curve.knotvector", "curve.ctrlpoints", "curve.weights"])):
        ctx = r.root(D + f)
        for nid, v in sorted(ctx.ret_sites.items()):
            have = r.deep_dep(ctx, v, heap=ctx.ret_states[nid].heap)
            miss = [w for w in r.srcs(ctx.fi, need) if not R.dep_has(have, w)]
            chk.ob("DEP-MAY", f"{D + f}: result depends on {', '.join(need)}", not miss, loc=r.loc(ctx, ctx.cfg.nodes[nid].ast), detail="" if not miss else f"{D + f}: the derivative does not depend on {r.fmt_deps(ctx.fi, miss)}", func=D + f, construct=f"ignores {r.fmt_deps(ctx.fi, miss)}")
    from .extra import interval_from_operand

    interval_from_operand(r, chk, [D + f for f in ("curve", "nonrational_bezier", "rational_bezier", "nonrational_spline")], floor=4)
    # degree-0 branch
    ctx = r.root(D + "curve")
    zero_tests = [n for n in r.stmt_nodes(ctx) if n.kind == "test" and "degree == 0" in seg(n.ast)]
    chk.floor("DEGREE0", "degree == 0 test in Derivate.curve", len(zero_tests), 1)
    for t in zero_tests:
        rets = [n for n in r.stmt_nodes(ctx) if isinstance(n.ast, ast.Return) and ctx.cfg.edge_dominates(t.id, "t", n.id)]
        ok = False
        for n in rets:
            v = ctx.ret_sites.get(n.id)
            have = r.deep_dep(ctx, v, heap=ctx.ret_states[n.id].heap) if v is not None else set()
            ok = R.dep_has(have, ("PF", 0, CURVE_FIELDS[0])) and R.dep_has(have, ("PF", 0, CURVE_FIELDS[1]))
            txt = " ".join(seg(s.ast, 200) for s in r.stmt_nodes(ctx) if ctx.cfg.edge_dominates(t.id, "t", s.id))
            ok = ok and "limits" in txt and ("0 *" in txt or "* 0" in txt)
        chk.ob("DEGREE0", f"{D}curve: the degree-0 branch returns the zero curve on the curve's limits", ok, loc=r.loc(ctx, t.ast), detail="" if ok else f"{D}curve: the degree-0 branch no longer builds `0 * ctrlpoints[0]` on `knotvector.limits`", func=D + "curve", construct="degree-0 branch")
    from .extra import tol_absolute

    tol_absolute(r, chk, ["heavy.Calculus.difference_vector", "heavy.Calculus.difference_matrix", "heavy.Calculus.derivate_nonrational_spline", "heavy.Calculus.derivate_nonrational_bezier"])
