"""E1b — model transformation: private helpers that the rules do not know are inlined into their callers.

The rules are anchored on the functions of the repository (public API and the private functions listed in KNOWN_PRIVATE, which
exist on the tree the rules were written for).  A clean-up that extracts a new private helper (`_check_node`, `__map_ctrlpoints`,
`_refined_copy`, …) moves guards, commits and call sites out of the anchored function although nothing changes in behaviour.  To
keep the rules meaningful the *analysed view* of every module inlines such helpers back into their callers before the index, the
CFGs and the interpreter are built.  This is a transformation of the model, never of /repo, and it is deliberately liberal about
evaluation order (arguments are bound before the inlined body, a call nested in a statement is hoisted in front of it): every rule
speaks about dominance, dependence, effects and guards, all of which survive.

What is inlined: a call `helper(args)` / `self.helper(args)` / `Class.helper(args)` to a function of the same module whose name
starts with `_`, is not a dunder, is not in KNOWN_PRIVATE, is not recursive, and whose body has one of the supported shapes
(structured early returns; bare returns inside the last loop).  A helper all of whose call sites were inlined is removed from the view.
Anything else is left alone (the rules then see a call, as before)."""
from __future__ import annotations

import ast
import copy
from typing import Dict, List, Optional, Tuple

# private functions of the tree the rules were written for: they are anchors of rules and stay what they are
KNOWN_PRIVATE = {
    "__newton_bcurve_and_bcurve", "__newton_point_on_curve", "_inse_retangle", "_inse_retangle_float", "__eval", "__compute_matrix",
    "__compute_vector", "__compute_vector_spline", "__valid_first_index", "__valid_second_index", "__get_unique", "__is_valid",
    "__mult_single", "__span_single", "__valid_single",
}

MAX_ROUNDS = 4


def _is_private(name: str) -> bool:
    return name.startswith("_") and not (name.startswith("__") and name.endswith("__")) and name not in KNOWN_PRIVATE


class _Unsupported(Exception):
    pass


def _contains_return(stmts) -> bool:
    for s in stmts:
        for x in ast.walk(s):
            if isinstance(x, ast.Return):
                return True
            if isinstance(x, (ast.FunctionDef, ast.Lambda)) and x is not s:
                pass
    return False


def _elim_returns(stmts: List[ast.stmt], ret: str) -> Tuple[List[ast.stmt], bool]:
    """rewrite a statement list so that `return E` becomes `ret = E` and nothing after it runs (structured cases only).
    Returns (new statements, definitely returned)."""
    out: List[ast.stmt] = []
    for i, st in enumerate(stmts):
        rest = stmts[i + 1:]
        if isinstance(st, ast.Return):
            val = st.value if st.value is not None else ast.Constant(value=None)
            out.append(ast.copy_location(ast.Assign(targets=[ast.Name(id=ret, ctx=ast.Store())], value=val), st))
            return out, True
        if isinstance(st, ast.If) and _contains_return([st]):
            body, rb = _elim_returns(st.body, ret)
            orelse, re_ = _elim_returns(st.orelse, ret)
            if rb and re_:
                out.append(ast.copy_location(ast.If(test=st.test, body=body or [ast.Pass()], orelse=orelse), st))
                return out, True
            if _maybe_returns(st.body) and not rb or _maybe_returns(st.orelse) and not re_:
                raise _Unsupported("conditional return nested in a branch that continues")
            rest_new, rr = _elim_returns(rest, ret)
            if rb:
                out.append(ast.copy_location(ast.If(test=st.test, body=body, orelse=(orelse + rest_new) or [ast.Pass()]), st))
            elif re_:
                out.append(ast.copy_location(ast.If(test=st.test, body=(body + rest_new) or [ast.Pass()], orelse=orelse), st))
            else:
                out.append(st)
                out.extend(rest_new)
            return out, rr
        if isinstance(st, ast.Try) and not rest and not st.finalbody and not st.orelse and _contains_return([st]):
            # `try: ...; return A` / `except X: ...; return B` as the last statement: every block ends in its own return
            body, rb = _elim_returns(st.body, ret)
            hs, ok_h = [], rb
            for h in st.handlers:
                hb, rh = _elim_returns(h.body, ret)
                ok_h = ok_h and (rh or _definitely_returns(h.body))
                hs.append(ast.copy_location(ast.ExceptHandler(type=h.type, name=h.name, body=hb or [ast.Pass()]), h))
            if ok_h:
                out.append(ast.copy_location(ast.Try(body=body, handlers=hs, orelse=[], finalbody=[]), st))
                return out, True
            raise _Unsupported("try with a block that falls through")
        if isinstance(st, (ast.For, ast.While, ast.Try, ast.With)) and _contains_return([st]):
            # bare returns inside the LAST statement of the helper, which is a loop (possibly with try inside): leaving the
            # helper is leaving that loop
            if rest or not isinstance(st, (ast.For, ast.While)):
                raise _Unsupported("return inside a loop / try that is not the last statement")
            new = copy.deepcopy(st)
            _returns_to_breaks(new, ret, depth=0)
            out.append(new)
            return out, False
        out.append(st)
    return out, False


def _is_test_like(e) -> bool:
    """an expression whose value is a bool: comparisons, `not`, and / or of such"""
    if isinstance(e, ast.Compare):
        return True
    if isinstance(e, ast.UnaryOp) and isinstance(e.op, ast.Not):
        return True
    if isinstance(e, ast.BoolOp):
        return all(_is_test_like(v) for v in e.values)
    if isinstance(e, ast.Constant) and isinstance(e.value, bool):
        return True
    if isinstance(e, ast.Call) and isinstance(e.func, ast.Name) and e.func.id in ("isinstance", "callable", "hasattr", "bool", "all", "any"):
        return True
    return False


def _negate(e):
    flip = {ast.Is: ast.IsNot, ast.IsNot: ast.Is, ast.Eq: ast.NotEq, ast.NotEq: ast.Eq, ast.In: ast.NotIn, ast.NotIn: ast.In}
    if isinstance(e, ast.Compare) and len(e.ops) == 1 and type(e.ops[0]) in flip and isinstance(e.ops[0], (ast.Is, ast.IsNot, ast.In, ast.NotIn)):
        return ast.Compare(left=e.left, ops=[flip[type(e.ops[0])]()], comparators=e.comparators)
    if isinstance(e, ast.UnaryOp) and isinstance(e.op, ast.Not) and _is_test_like(e.operand):
        return e.operand
    return ast.UnaryOp(op=ast.Not(), operand=e)


def _predicate_expr(stmts: List[ast.stmt]):
    """the single boolean expression a side-effect-free deciding helper computes, or None:
    `if c: return A` ... `return B`  with tests c that are comparisons; A / B boolean constants or test-like expressions.
    Evaluation order and short-circuiting are those of the statements."""
    if not stmts:
        return None
    st, rest = stmts[0], stmts[1:]
    if isinstance(st, ast.Return) and not rest and st.value is not None and _is_test_like(st.value):
        return st.value
    if isinstance(st, ast.If) and _is_test_like(st.test) and not any(isinstance(x, ast.NamedExpr) for x in ast.walk(st.test)):
        a = _predicate_expr(st.body)
        if a is None:
            return None
        b = _predicate_expr(list(st.orelse) + list(rest)) if not (st.orelse and rest) else None
        if b is None:
            return None
        c = st.test
        if isinstance(a, ast.Constant) and a.value is False:
            return ast.BoolOp(op=ast.And(), values=[_negate(c), b])
        if isinstance(a, ast.Constant) and a.value is True:
            return ast.BoolOp(op=ast.Or(), values=[c, b])
        if isinstance(b, ast.Constant) and b.value is False:
            return ast.BoolOp(op=ast.And(), values=[c, a])
        if isinstance(b, ast.Constant) and b.value is True:
            return ast.BoolOp(op=ast.Or(), values=[_negate(c), a])
        return ast.IfExp(test=c, body=a, orelse=b)
    return None


def _definitely_returns(stmts) -> bool:
    """every path through the statement list ends in return / raise"""
    for st in stmts:
        if isinstance(st, (ast.Return, ast.Raise)):
            return True
        if isinstance(st, ast.If) and st.orelse and _definitely_returns(st.body) and _definitely_returns(st.orelse):
            return True
        if isinstance(st, ast.While) and isinstance(st.test, ast.Constant) and st.test.value and not any(isinstance(x, ast.Break) for x in ast.walk(st)):
            return True
        if isinstance(st, ast.Try) and st.finalbody and _definitely_returns(st.finalbody):
            return True
    return False


def _maybe_returns(stmts) -> bool:
    return _contains_return(stmts)


def _returns_to_breaks(loop, ret: str, depth: int):
    """inside the helper's final loop: `return [E]` -> `ret = E; break` (only directly in that loop, not in nested loops)"""

    def rewrite(stmts, in_nested_loop):
        new = []
        for s in stmts:
            if isinstance(s, ast.Return):
                if in_nested_loop:
                    raise _Unsupported("return inside a nested loop")
                val = s.value if s.value is not None else ast.Constant(value=None)
                new.append(ast.copy_location(ast.Assign(targets=[ast.Name(id=ret, ctx=ast.Store())], value=val), s))
                new.append(ast.copy_location(ast.Break(), s))
                continue
            if isinstance(s, ast.If):
                s.body = rewrite(s.body, in_nested_loop)
                s.orelse = rewrite(s.orelse, in_nested_loop)
            elif isinstance(s, (ast.For, ast.While)):
                s.body = rewrite(s.body, True)
                s.orelse = rewrite(s.orelse, in_nested_loop)
            elif isinstance(s, ast.Try):
                s.body = rewrite(s.body, in_nested_loop)
                for h in s.handlers:
                    h.body = rewrite(h.body, in_nested_loop)
                s.orelse = rewrite(s.orelse, in_nested_loop)
                s.finalbody = rewrite(s.finalbody, in_nested_loop)
            elif isinstance(s, ast.With):
                s.body = rewrite(s.body, in_nested_loop)
            new.append(s)
        return new

    loop.body = rewrite(loop.body, False)
    if loop.orelse:
        raise _Unsupported("loop with else")


class _LamSubst(ast.NodeTransformer):
    def __init__(self, mapping: Dict[str, ast.expr]):
        self.mapping = mapping

    def visit_Name(self, n: ast.Name):
        if n.id in self.mapping and isinstance(n.ctx, ast.Load):
            return ast.copy_location(copy.deepcopy(self.mapping[n.id]), n)
        return n

    def visit_Lambda(self, n: ast.Lambda):
        bound = {a.arg for a in n.args.args + n.args.kwonlyargs + n.args.posonlyargs}
        n.body = _LamSubst({k: v for k, v in self.mapping.items() if k not in bound}).visit(n.body)
        return n


class _Renamer(ast.NodeTransformer):
    def __init__(self, mapping: Dict[str, ast.expr], prefix: str, locals_: set, lambdas: Optional[Dict[str, ast.Lambda]] = None, vararg=None):
        self.mapping, self.prefix, self.locals = mapping, prefix, locals_
        self.lambdas = lambdas or {}
        self.vararg = vararg or (None, [])

    def visit_Call(self, n: ast.Call):
        if self.vararg[0] is not None:
            # f(a, *values) with the caller's extra arguments in place of *values
            newargs = []
            for a in n.args:
                if isinstance(a, ast.Starred) and isinstance(a.value, ast.Name) and a.value.id == self.vararg[0]:
                    newargs += [copy.deepcopy(x) for x in self.vararg[1]]
                else:
                    newargs.append(a)
            n.args = newargs
        self.generic_visit(n)
        f = n.func
        if isinstance(f, ast.Name) and f.id in self.lambdas:
            # beta-reduction of a lambda handed to the helper: its free names belong to the caller and are left alone
            lam = self.lambdas[f.id]
            ps = [a.arg for a in lam.args.args]
            body = copy.deepcopy(lam.body)
            return ast.copy_location(_LamSubst(dict(zip(ps, n.args))).visit(body), n)
        return n

    def visit_IfExp(self, n: ast.IfExp):
        self.generic_visit(n)
        if isinstance(n.test, ast.Constant):
            return n.body if n.test.value else n.orelse
        return n

    def visit_Name(self, n: ast.Name):
        if n.id in self.mapping and isinstance(n.ctx, ast.Load):
            return ast.copy_location(copy.deepcopy(self.mapping[n.id]), n)
        if n.id in self.locals:
            return ast.copy_location(ast.Name(id=self.prefix + n.id, ctx=n.ctx), n)
        return n

    def visit_Lambda(self, n: ast.Lambda):
        bound = {a.arg for a in n.args.args + n.args.kwonlyargs + n.args.posonlyargs}
        inner = _Renamer({k: v for k, v in self.mapping.items() if k not in bound}, self.prefix, self.locals - bound)
        n.body = inner.visit(n.body)
        return n

    def visit_FunctionDef(self, n):
        return n  # nested defs are left alone


def _local_names(fn: ast.FunctionDef) -> set:
    out = set()
    for x in ast.walk(fn):
        if isinstance(x, ast.Name) and isinstance(x.ctx, (ast.Store, ast.Del)):
            out.add(x.id)
        elif isinstance(x, ast.ExceptHandler) and x.name:
            out.add(x.name)
    return out


def _only_called(fn: ast.FunctionDef, p: str, lam: ast.Lambda) -> bool:
    """the parameter is used in the helper only as `p(a, b, ...)` with as many positional arguments as the lambda takes, each argument
    a name / constant / attribute chain (so substituting it, possibly several times, into the lambda body changes nothing)"""
    a = lam.args
    if a.vararg or a.kwarg or a.kwonlyargs or a.defaults or a.posonlyargs:
        return False
    n = len(a.args)
    called = set()
    for x in ast.walk(fn):
        if isinstance(x, ast.Call) and isinstance(x.func, ast.Name) and x.func.id == p:
            if x.keywords or len(x.args) != n or not all(_simple_arg(y) for y in x.args):
                return False
            called.add(id(x.func))
    uses = [x for x in ast.walk(fn) if isinstance(x, ast.Name) and x.id == p]
    return bool(called) and all(id(x) in called for x in uses)


def _simple_arg(e: ast.expr) -> bool:
    if isinstance(e, (ast.Name, ast.Constant)):
        return True
    if isinstance(e, ast.Attribute):
        return _simple_arg(e.value)
    return False


class _Helper:
    def __init__(self, fn: ast.FunctionDef, cls: Optional[str]):
        self.fn, self.cls = fn, cls
        decos = [ast.unparse(d) for d in fn.decorator_list]
        a = fn.args
        self.params = [x.arg for x in a.posonlyargs + a.args]
        self.static = "staticmethod" in decos or (cls is not None and (not self.params or self.params[0] not in ("self", "cls")))
        self.is_method = cls is not None and not self.static and "classmethod" not in decos
        self.vararg = a.vararg.arg if a.vararg else None
        vararg_ok = True
        if self.vararg:
            # `*values` is supported when the body only ever passes it on as `f(..., *values)`
            starred = {id(x.value) for x in ast.walk(fn) if isinstance(x, ast.Starred) and isinstance(x.value, ast.Name) and x.value.id == self.vararg}
            in_call = {id(y.value) for c in ast.walk(fn) if isinstance(c, ast.Call) for y in c.args if isinstance(y, ast.Starred) and isinstance(y.value, ast.Name)}
            uses = [x for x in ast.walk(fn) if isinstance(x, ast.Name) and x.id == self.vararg]
            vararg_ok = bool(uses) and all(id(x) in starred and id(x) in in_call for x in uses)
        self.supported = vararg_ok and not (a.kwarg or a.kwonlyargs) and all(d in ("staticmethod",) for d in decos)
        self.defaults = {}
        nd = len(a.defaults)
        allp = a.posonlyargs + a.args
        for p, d in zip(allp[len(allp) - nd:], a.defaults):
            self.defaults[p.arg] = d
        self.calls_itself = any(isinstance(c, ast.Call) and _callee_name(c) == fn.name for c in ast.walk(fn))
        self.used, self.inlined = 0, 0


def _callee_name(c: ast.Call) -> Optional[str]:
    f = c.func
    if isinstance(f, ast.Name):
        return f.id
    if isinstance(f, ast.Attribute):
        return f.attr
    return None


def _unmangle(name: str, cls: Optional[str]) -> str:
    if cls and name.startswith("_" + cls.lstrip("_") + "__"):
        return name[len("_" + cls.lstrip("_")):]
    return name


class _Inliner:
    def __init__(self, tree: ast.Module):
        self.tree = tree
        self.counter = 0
        self.cur_fn: Optional[ast.FunctionDef] = None
        self.helpers: Dict[Tuple[Optional[str], str], _Helper] = {}
        for st in tree.body:
            if isinstance(st, ast.FunctionDef) and _is_private(st.name):
                self.helpers[(None, st.name)] = _Helper(st, None)
            elif isinstance(st, ast.ClassDef):
                for cs in st.body:
                    if isinstance(cs, ast.FunctionDef) and _is_private(cs.name):
                        self.helpers[(st.name, cs.name)] = _Helper(cs, st.name)

    # ------------------------------------------------------------------
    def resolve(self, call: ast.Call, cls: Optional[str]) -> Optional[Tuple[_Helper, Optional[ast.expr]]]:
        f = call.func
        if isinstance(f, ast.Name):
            h = self.helpers.get((None, f.id))
            if h is None and self.cur_fn is not None:
                # a local that only ever names one private helper: `compute = Cls.__helper` ... `compute(x)`
                ds = [a.value for a in ast.walk(self.cur_fn) if isinstance(a, ast.Assign) and any(isinstance(t, ast.Name) and t.id == f.id for t in a.targets)]
                stores = sum(1 for x in ast.walk(self.cur_fn) if isinstance(x, ast.Name) and x.id == f.id and isinstance(x.ctx, ast.Store))
                is_param = any(a.arg == f.id for a in self.cur_fn.args.args + self.cur_fn.args.posonlyargs + self.cur_fn.args.kwonlyargs)
                if len(ds) == 1 and stores == 1 and not is_param and isinstance(ds[0], (ast.Name, ast.Attribute)):
                    fake = ast.copy_location(ast.Call(func=ds[0], args=call.args, keywords=call.keywords), call)
                    if not (isinstance(ds[0], ast.Name) and ds[0].id == f.id):
                        return self.resolve(fake, cls)
            return (h, None) if h else None
        if isinstance(f, ast.Attribute):
            name = f.attr
            cands = [h for (c, n), h in self.helpers.items() if c is not None and n in (name, _unmangle(name, c))]
            if len(cands) > 1:
                # the same private name in several classes: the receiver says which one
                rv = f.value
                want = rv.id if isinstance(rv, ast.Name) and rv.id not in ("self", "cls") else cls
                cands = [h for h in cands if h.cls == want]
            if len(cands) != 1:
                return None
            h = cands[0]
            recv = f.value
            if isinstance(recv, ast.Name) and recv.id in ("self", "cls"):
                return h, recv
            if isinstance(recv, ast.Name) and recv.id == h.cls:
                return h, None  # Class.helper(...)
            if isinstance(recv, ast.Attribute) and recv.attr == "__class__":
                return h, None
            if isinstance(recv, ast.Name) and name.startswith("__") and h.is_method and cls == h.cls:
                # `other.__helper(...)` inside the class: the mangled name can only be this class's own helper
                return h, recv
            return None
        return None

    def expand(self, call: ast.Call, h: _Helper, recv: Optional[ast.expr], tail: bool = False) -> Tuple[List[ast.stmt], ast.expr]:
        if not h.supported or h.calls_itself:
            raise _Unsupported("shape")
        self.counter += 1
        k = self.counter
        prefix = f"_inl{k}_"
        params = list(h.params)
        mapping: Dict[str, ast.expr] = {}
        pre: List[ast.stmt] = []
        args = list(call.args)
        if any(isinstance(a, ast.Starred) for a in args) or any(kw.arg is None for kw in call.keywords):
            raise _Unsupported("star args")
        if h.is_method:
            if recv is None:
                # Class.helper(obj, ...) : first argument is the receiver
                if not args:
                    raise _Unsupported("no receiver")
                recv, args = args[0], args[1:]
            mapping[params[0]] = recv
            params = params[1:]
        elif h.cls is not None and not h.static:
            params = params[1:]  # classmethod: cls is not used by the supported shapes
        bound = {}
        for p, a in zip(params, args):
            bound[p] = a
        extras = list(args[len(params):])
        if extras and not h.vararg:
            raise _Unsupported("too many arguments")
        for kw in call.keywords:
            if kw.arg not in params:
                raise _Unsupported("unknown keyword")
            bound[kw.arg] = kw.value
        for p in params:
            if p not in bound:
                if p not in h.defaults:
                    raise _Unsupported("missing argument")
                bound[p] = h.defaults[p]
        reassigned = {x.id for x in ast.walk(h.fn) if isinstance(x, ast.Name) and isinstance(x.ctx, ast.Store)}
        locals_ = _local_names(h.fn)
        extra_exprs: List[ast.expr] = []
        for k_, a in enumerate(extras):
            if _simple_arg(a):
                extra_exprs.append(a)
            else:
                nm = f"{prefix}{h.vararg}{k_}"
                pre.append(ast.copy_location(ast.Assign(targets=[ast.Name(id=nm, ctx=ast.Store())], value=copy.deepcopy(a)), call))
                extra_exprs.append(ast.copy_location(ast.Name(id=nm, ctx=ast.Load()), call))
        lambdas: Dict[str, ast.Lambda] = {}
        for p in params:
            a = bound[p]
            if isinstance(a, ast.Lambda) and p not in reassigned and _only_called(h.fn, p, a):
                lambdas[p] = a
                continue
            if _simple_arg(a) and p not in reassigned:
                mapping[p] = a
            else:
                locals_.add(p)
                pre.append(ast.copy_location(ast.Assign(targets=[ast.Name(id=prefix + p, ctx=ast.Store())], value=copy.deepcopy(a)), call))
        body = [copy.deepcopy(s) for s in h.fn.body]
        if body and isinstance(body[0], ast.Expr) and isinstance(body[0].value, ast.Constant) and isinstance(body[0].value.value, str):
            body = body[1:]
        if tail:
            # `return helper(...)`: the returns of the helper are the returns of the caller, whatever its control flow
            if any(isinstance(x, (ast.Yield, ast.YieldFrom)) for b in body for x in ast.walk(b)):
                raise _Unsupported("generator")
            rn = _Renamer(mapping, prefix, locals_, lambdas, (h.vararg, extra_exprs))
            stmts = pre + [rn.visit(b) for b in body]
            if not _definitely_returns(stmts):
                stmts.append(ast.copy_location(ast.Return(value=ast.Constant(value=None)), call))
            for st_ in stmts:
                for x in ast.walk(st_):
                    if hasattr(x, "col_offset"):
                        x.col_offset = getattr(x, "col_offset", 0) + 1000 * k
                        if getattr(x, "end_col_offset", None) is not None:
                            x.end_col_offset += 1000 * k
            return stmts, None
        pe = _predicate_expr(body)
        if pe is not None:
            # a helper that only decides something (`if c: return False` ... `return e`): one boolean expression in the view
            rn = _Renamer(mapping, prefix, locals_, lambdas, (h.vararg, extra_exprs))
            return pre, ast.copy_location(ast.fix_missing_locations(rn.visit(pe)), call)
        ret = "ret"
        locals_.add(ret)
        has_ret = _contains_return(body)
        new_body, definitely = _elim_returns(body, ret)
        rn = _Renamer(mapping, prefix, locals_, lambdas, (h.vararg, extra_exprs))
        new_body = [rn.visit(s) for s in new_body]
        stmts = pre + new_body
        if has_ret and not definitely:
            # falling off the end returns None
            stmts = [ast.copy_location(ast.Assign(targets=[ast.Name(id=prefix + ret, ctx=ast.Store())], value=ast.Constant(value=None)), call)] + stmts
        result: ast.expr = ast.Name(id=prefix + ret, ctx=ast.Load()) if has_ret else ast.Constant(value=None)
        # `ret = <local>` as the very last statement: the local itself is the result (no alias in the view)
        if has_ret and definitely and stmts and isinstance(stmts[-1], ast.Assign) and isinstance(stmts[-1].targets[0], ast.Name) and stmts[-1].targets[0].id == prefix + ret and isinstance(stmts[-1].value, ast.Name) and stmts[-1].value.id.startswith(prefix):
            uses = sum(1 for s_ in stmts for x in ast.walk(s_) if isinstance(x, ast.Name) and x.id == prefix + ret)
            if uses == 1:
                result = ast.Name(id=stmts[-1].value.id, ctx=ast.Load())
                stmts = stmts[:-1]
        for s in stmts:
            for x in ast.walk(s):
                if hasattr(x, "col_offset"):
                    x.col_offset = getattr(x, "col_offset", 0) + 1000 * k
                    if getattr(x, "end_col_offset", None) is not None:
                        x.end_col_offset += 1000 * k
        return stmts, ast.copy_location(result, call)

    # ------------------------------------------------------------------
    def desugar(self, stmts: List[ast.stmt], cls: Optional[str], owner: str) -> Tuple[List[ast.stmt], bool]:
        """`X = [helper(v) for v in it]` (or the same inside tuple(...) / sum(...)) with an unknown private helper in the element:
        written as `tmp = []; for v in it: tmp.append(helper(v)); X = tmp` in the view, so that the call can be inlined"""
        out, changed = [], False
        for st in stmts:
            if isinstance(st, (ast.Assign, ast.Return, ast.Expr, ast.AugAssign)) and getattr(st, "value", None) is not None:
                comp = None
                for x in ast.walk(st.value):
                    if isinstance(x, (ast.ListComp, ast.GeneratorExp)) and len(x.generators) == 1 and not x.generators[0].is_async:
                        calls = [c for c in ast.walk(x.elt) if isinstance(c, ast.Call)]
                        res = [self.resolve(c, cls) for c in calls]
                        if any(r_ is not None and r_[0].fn.name != owner and r_[0].supported and not r_[0].calls_itself for r_ in res):
                            comp = x
                            break
                    if isinstance(x, (ast.Lambda, ast.IfExp, ast.BoolOp)):
                        pass
                if comp is not None and not any(isinstance(y, (ast.Lambda,)) and any(z is comp for z in ast.walk(y)) for y in ast.walk(st.value)):
                    self.counter += 1
                    tmp = f"_cmp{self.counter}"
                    g = comp.generators[0]
                    app = ast.Expr(value=ast.Call(func=ast.Attribute(value=ast.Name(id=tmp, ctx=ast.Load()), attr="append", ctx=ast.Load()), args=[comp.elt], keywords=[]))
                    body: List[ast.stmt] = [app]
                    for cond in reversed(g.ifs):
                        body = [ast.If(test=cond, body=body, orelse=[])]
                    loop = ast.For(target=g.target, iter=g.iter, body=body, orelse=[])
                    init = ast.Assign(targets=[ast.Name(id=tmp, ctx=ast.Store())], value=ast.List(elts=[], ctx=ast.Load()))

                    class _Swap(ast.NodeTransformer):
                        def visit_ListComp(self_, n):
                            return ast.Name(id=tmp, ctx=ast.Load()) if n is comp else self_.generic_visit(n)

                        def visit_GeneratorExp(self_, n):
                            return ast.Name(id=tmp, ctx=ast.Load()) if n is comp else self_.generic_visit(n)

                    st.value = _Swap().visit(st.value)
                    for new_ in (init, loop):
                        ast.copy_location(new_, st)
                        ast.fix_missing_locations(new_)
                    out += [init, loop, st]
                    changed = True
                    continue
            out.append(st)
        return out, changed

    def rewrite_block(self, stmts: List[ast.stmt], cls: Optional[str], owner: str) -> Tuple[List[ast.stmt], bool]:
        stmts, changed0 = self.desugar(stmts, cls, owner)
        out, changed = [], changed0
        for st in stmts:
            # recurse into compound statements first
            for field in ("body", "orelse", "finalbody"):
                sub = getattr(st, field, None)
                if isinstance(sub, list) and sub and isinstance(sub[0], ast.stmt) and not isinstance(st, (ast.FunctionDef, ast.ClassDef)):
                    new, ch = self.rewrite_block(sub, cls, owner)
                    setattr(st, field, new)
                    changed |= ch
            if isinstance(st, ast.Try):
                for h in st.handlers:
                    h.body, ch = self.rewrite_block(h.body, cls, owner)
                    changed |= ch
            if isinstance(st, ast.Return) and isinstance(st.value, ast.Call):
                res = self.resolve(st.value, cls)
                if res is not None and res[0].fn.name != owner and not any(self.resolve(c, cls) for a in list(st.value.args) + [kw.value for kw in st.value.keywords] for c in ast.walk(a) if isinstance(c, ast.Call)):
                    h, recv = res
                    try:
                        if not h.supported or h.calls_itself:
                            raise _Unsupported("shape")
                        body_, _ = self.expand(st.value, h, recv, tail=True)
                        h.used += 1
                        h.inlined += 1
                        out += body_
                        changed = True
                        continue
                    except _Unsupported:
                        pass
            hoisted: List[ast.stmt] = []
            for holder, attr in self.call_slots(st):
                call = getattr(holder, attr) if not isinstance(attr, tuple) else getattr(holder, attr[0])[attr[1]]
                res = self.resolve(call, cls)
                if res is None:
                    continue
                h, recv = res
                if h.fn.name == owner:
                    continue
                h.used += 1
                try:
                    pre, val = self.expand(call, h, recv)
                except _Unsupported:
                    continue
                h.inlined += 1
                # `X = helper(...)` whose result is a local of the inlined body: that local becomes X
                if isinstance(st, ast.Assign) and holder is st and attr == "value" and len(st.targets) == 1 and isinstance(st.targets[0], ast.Name) and isinstance(val, ast.Name) and val.id.startswith("_inl"):
                    tgt = st.targets[0].id
                    mentions = any(isinstance(x, ast.Name) and x.id == tgt for s_ in pre for x in ast.walk(s_))
                    if not mentions:
                        for s_ in pre:
                            for x in ast.walk(s_):
                                if isinstance(x, ast.Name) and x.id == val.id:
                                    x.id = tgt
                        hoisted += pre
                        st.value = ast.copy_location(ast.Name(id=tgt, ctx=ast.Load()), st)
                        st._inl_drop = True
                        changed = True
                        continue
                # `A, B = helper(...)` where every return of the helper is a tuple of that arity: the elements are bound to A, B
                # directly (no tuple, no alias in the view)
                if isinstance(st, ast.Assign) and holder is st and attr == "value" and len(st.targets) == 1 and isinstance(st.targets[0], ast.Tuple) and all(isinstance(e_, ast.Name) for e_ in st.targets[0].elts) and isinstance(val, ast.Name) and val.id.startswith("_inl"):
                    tnames = [e_.id for e_ in st.targets[0].elts]
                    rets = [a_ for s_ in pre for a_ in ast.walk(s_) if isinstance(a_, ast.Assign) and len(a_.targets) == 1 and isinstance(a_.targets[0], ast.Name) and a_.targets[0].id == val.id]
                    other_uses = [x for s_ in pre for x in ast.walk(s_) if isinstance(x, ast.Name) and x.id == val.id and not any(x is a_.targets[0] for a_ in rets)]
                    # the targets may be read in the inlined body (a parameter handed on under its own name) as long as the body never
                    # assigns them and no element of a returned tuple reads a target bound before it
                    stores_t = any(isinstance(x, ast.Name) and x.id in tnames and isinstance(x.ctx, ast.Store) for s_ in pre for x in ast.walk(s_))
                    order_ok = all(isinstance(a_.value, ast.Tuple) and not any(isinstance(x, ast.Name) and x.id in tnames[:j] for j, e_ in enumerate(a_.value.elts) for x in ast.walk(e_)) for a_ in rets)
                    mentions = stores_t or not order_ok
                    if rets and not other_uses and not mentions and all(isinstance(a_.value, ast.Tuple) and len(a_.value.elts) == len(tnames) for a_ in rets):
                        def split(stmts_):
                            out_ = []
                            for s_ in stmts_:
                                if any(s_ is a_ for a_ in rets):
                                    # the elements are temporaries of the inlined body: one assignment per target
                                    out_ += [ast.copy_location(ast.Assign(targets=[ast.Name(id=t_, ctx=ast.Store())], value=e_), s_) for t_, e_ in zip(tnames, s_.value.elts)]
                                    continue
                                for fld in ("body", "orelse", "finalbody"):
                                    sub_ = getattr(s_, fld, None)
                                    if isinstance(sub_, list) and sub_ and isinstance(sub_[0], ast.stmt):
                                        setattr(s_, fld, split(sub_))
                                if isinstance(s_, ast.Try):
                                    for h_ in s_.handlers:
                                        h_.body = split(h_.body)
                                out_.append(s_)
                            return out_

                        pre = split(pre)
                        hoisted += pre
                        st._inl_drop = True
                        changed = True
                        continue
                hoisted += pre
                if isinstance(attr, tuple):
                    getattr(holder, attr[0])[attr[1]] = val
                else:
                    setattr(holder, attr, val)
                changed = True
            out += hoisted
            if isinstance(st, ast.Expr) and isinstance(st.value, (ast.Constant, ast.Name)) and hoisted:
                continue  # the statement was just the call
            if getattr(st, "_inl_drop", False):
                continue  # `X = X` left over from binding the result directly
            out.append(st)
        return out, changed

    def call_slots(self, st: ast.stmt):
        """(holder, attribute) pairs where a helper call may be replaced and hoisted in front of statement st: anywhere in the
        expressions evaluated once by the statement (not inside lambdas / comprehensions / loop conditions / nested bodies)"""
        roots: List[Tuple[ast.AST, object]] = []
        if isinstance(st, (ast.Expr, ast.Return)):
            if st.value is not None:
                roots.append((st, "value"))
        elif isinstance(st, (ast.Assign, ast.AugAssign, ast.AnnAssign)):
            if getattr(st, "value", None) is not None:
                roots.append((st, "value"))
        elif isinstance(st, ast.If):
            roots.append((st, "test"))
        elif isinstance(st, ast.For):
            roots.append((st, "iter"))
        elif isinstance(st, ast.Assert):
            roots.append((st, "test"))
        elif isinstance(st, ast.Raise) and st.exc is not None:
            roots.append((st, "exc"))
        out = []

        def visit(holder, attr):
            node = getattr(holder, attr) if not isinstance(attr, tuple) else getattr(holder, attr[0])[attr[1]]
            if isinstance(node, (ast.Lambda, ast.ListComp, ast.SetComp, ast.DictComp, ast.GeneratorExp, ast.IfExp, ast.BoolOp)):
                return  # conditional / repeated evaluation: do not hoist out of it
            # children first (inner calls are hoisted before outer ones)
            for name, val in ast.iter_fields(node):
                if isinstance(val, ast.expr):
                    visit(node, name)
                elif isinstance(val, list):
                    for i, x in enumerate(val):
                        if isinstance(x, ast.expr):
                            visit(node, (name, i))
                        elif isinstance(x, ast.keyword):
                            visit(x, "value")
            if isinstance(node, ast.Call):
                out.append((holder, attr))

        for holder, attr in roots:
            visit(holder, attr)
        return out

    def run(self) -> bool:
        changed_any = False
        for _ in range(MAX_ROUNDS):
            changed = False
            for h in self.helpers.values():
                h.used = h.inlined = 0
            for st in self.tree.body:
                if isinstance(st, ast.FunctionDef):
                    self.cur_fn = st
                    st.body, ch = self.rewrite_block(st.body, None, st.name)
                    changed |= ch
                elif isinstance(st, ast.ClassDef):
                    for cs in st.body:
                        if isinstance(cs, ast.FunctionDef):
                            self.cur_fn = cs
                            cs.body, ch = self.rewrite_block(cs.body, st.name, cs.name)
                            changed |= ch
                self.cur_fn = None
            changed_any |= changed
            if not changed:
                break
        # helpers whose every call site was inlined (and that are not referenced otherwise) leave the view
        referenced = set()
        for x in ast.walk(self.tree):
            if isinstance(x, ast.Call):
                n = _callee_name(x)
                if n:
                    referenced.add(n)
            elif isinstance(x, ast.Attribute):
                referenced.add(x.attr)
            elif isinstance(x, ast.Name) and isinstance(x.ctx, ast.Load):
                referenced.add(x.id)
        def still_used(h: _Helper):
            names = {h.fn.name} | ({"_" + h.cls.lstrip("_") + h.fn.name} if h.cls and h.fn.name.startswith("__") else set())
            # a reference from inside the helper itself does not count
            inner = set()
            for x in ast.walk(h.fn):
                if isinstance(x, ast.Call) and _callee_name(x):
                    inner.add(_callee_name(x))
            return bool(names & referenced_outside(h, names))

        def referenced_outside(h: _Helper, names):
            out = set()
            for st in self.tree.body:
                nodes = [st] if not isinstance(st, ast.ClassDef) else st.body
                for d in nodes:
                    if d is h.fn:
                        continue
                    for x in ast.walk(d):
                        if isinstance(x, ast.Attribute) and x.attr in names:
                            out.add(x.attr)
                        elif isinstance(x, ast.Name) and x.id in names:
                            out.add(x.id)
            return out

        for (c, n), h in list(self.helpers.items()):
            if still_used(h):
                continue
            if c is None:
                self.tree.body = [s for s in self.tree.body if s is not h.fn]
            else:
                for s in self.tree.body:
                    if isinstance(s, ast.ClassDef) and s.name == c:
                        s.body = [d for d in s.body if d is not h.fn] or [ast.Pass()]
            changed_any = True
        if changed_any:
            ast.fix_missing_locations(self.tree)
        return changed_any


def inline_private_helpers(tree: ast.Module) -> Tuple[ast.Module, List[str]]:
    """returns the transformed tree and the names of the helpers that were inlined away"""
    inl = _Inliner(tree)
    before = {n for (_, n) in inl.helpers}
    if not before:
        return tree, []
    inl.run()
    after = set()
    for st in tree.body:
        if isinstance(st, ast.FunctionDef):
            after.add(st.name)
        elif isinstance(st, ast.ClassDef):
            after |= {d.name for d in st.body if isinstance(d, ast.FunctionDef)}
    return tree, sorted(before - after)
