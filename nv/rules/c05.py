"""C05 — knot removal is exact when possible, refused otherwise, never silently lossy."""
from __future__ import annotations

import ast
from typing import List, Optional

from .. import AnalysisError
from ..cfg import handler_types
from ..index import exc_is_sub
from ..vals import root_of
from .common import CURVE_FIELDS, R, seg

NEED = ("generic",)
UPDATE = "curves.BaseCurve.update"


def arg_flow(r: R, chk, rule: str, qual: str, callee_suffix: str, callee_param: str, need: List[str], min_sites: int = 1, what: str = ""):
    """ARG-FLOW: at every call site inside `qual` of a callee with parameter `callee_param`, the
    argument bound to it depends on the required sources (an omitted optional argument = its default)"""
    ctx = r.root(qual)
    want = r.srcs(ctx.fi, need)
    sites = 0
    for cr in r.calls_in(ctx, callee_suffix):
        for fi, bound in zip(cr.callees, cr.args):
            if not fi.qual.endswith(callee_suffix) or callee_param not in bound:
                continue
            sites += 1
            av = bound[callee_param]
            have = r.deep_dep(ctx, av, heap=_heap_at(ctx, cr.cfgnode)) if av is not None else set()
            missing = [w for w in want if not R.dep_has(have, w)]
            ok = not missing
            chk.ob(rule, f"{qual}: `{seg(cr.node, 50)}` passes {', '.join(need)} as `{callee_param}` of {fi.name}", ok, loc=r.loc(ctx, cr.node),
                   detail="" if ok else f"{qual}: at `{seg(cr.node, 70)}` the argument bound to `{callee_param}` of {fi.qual} does not depend on {r.fmt_deps(ctx.fi, missing)}" + (f" — {what}" if what else ""),
                   func=qual, construct=f"{callee_param} of {fi.name} ignores {r.fmt_deps(ctx.fi, missing)}")
    chk.floor(rule, f"call sites of *{callee_suffix} in {qual} with parameter {callee_param}", sites, min_sites)
    return sites


def _heap_at(ctx, nid):
    st = ctx.state_in.get(nid)
    return st.heap if st is not None else {}


def tolerance_gate(r: R, chk, rule_prefix: str = ""):
    """GATE(tolerance) in BaseCurve.update + freshness of the temporary curve + commit-last"""
    ctx = r.root(UPDATE)
    fi = ctx.fi
    tol = r.param_index(fi, "tolerance")
    # calls to fit_curve
    fits = r.calls_in(ctx, ".fit_curve")
    chk.floor("GATE-TOL", "fit_curve call in update", len(fits), 1)
    fit_targets = set()
    for cr in fits:
        recv = cr.args[0].get("self") if cr.args else None
        fresh = recv is not None and recv.pts and all(o[0] == "N" for o in recv.pts)
        chk.ob("GATE-TOL", f"{UPDATE}: fit_curve runs on a fresh temporary curve", bool(fresh), loc=r.loc(ctx, cr.node),
               detail="" if fresh else f"{UPDATE}: `{seg(cr.node, 60)}` fits an object that may be the curve itself / an operand: state changes before the tolerance gate has passed", func=UPDATE, construct="fit_curve on non-fresh receiver")
        # the name the error is bound to
        for n in r.stmt_nodes(ctx):
            if isinstance(n.ast, ast.Assign) and n.ast.value is cr.node:
                for t in n.ast.targets:
                    if isinstance(t, ast.Name):
                        fit_targets.add(t.id)
    gates = []
    for g in r.raise_guards(ctx, ("ValueError",)):
        for c in ast.walk(g[0].ast):
            if isinstance(c, ast.Compare) and len(c.ops) == 1 and isinstance(c.ops[0], (ast.Gt, ast.GtE, ast.Lt, ast.LtE)):
                names = {x.id for s in [c.left] + c.comparators for x in ast.walk(s) if isinstance(x, ast.Name)}
                if "tolerance" in names and names & fit_targets:
                    gates.append(g)
    chk.floor("GATE-TOL", "tolerance comparison guarding a ValueError in update", len(gates), 1)
    # the refusal is `error > tolerance`: an error EQUAL to the tolerance is within it — with exact data the error of a removable
    # knot is exactly 0, and tolerance = 0 is a meaningful request
    def polar(e, pol=True):
        """(comparison, polarity) pairs of a test: polarity False under an odd number of `not`"""
        if isinstance(e, ast.UnaryOp) and isinstance(e.op, ast.Not):
            yield from polar(e.operand, not pol)
        elif isinstance(e, ast.BoolOp):
            for v_ in e.values:
                yield from polar(v_, pol)
        elif isinstance(e, ast.Compare):
            yield e, pol

    for g in gates:
        for c, pol_ in polar(g[0].ast):
            if isinstance(c, ast.Compare) and len(c.ops) == 1 and isinstance(c.ops[0], (ast.Gt, ast.GtE, ast.Lt, ast.LtE)):
                names_l = {x.id for x in ast.walk(c.left) if isinstance(x, ast.Name)}
                names_r = {x.id for x in ast.walk(c.comparators[0]) if isinstance(x, ast.Name)}
                if not (("tolerance" in names_l | names_r) and (names_l | names_r) & fit_targets):
                    continue
                raising_when_true = (g[1] == "f") == pol_  # the passing arm is the false arm: the test being true raises (flipped under `not`)
                op = c.ops[0]
                err_left = bool(names_l & fit_targets)
                # raise iff error > tolerance:  (error > tol) true raises; (tol < error) true raises; (error <= tol) false raises; (tol >= error) false raises
                strict_ok = (raising_when_true and ((err_left and isinstance(op, ast.Gt)) or (not err_left and isinstance(op, ast.Lt)))) or (not raising_when_true and ((err_left and isinstance(op, ast.LtE)) or (not err_left and isinstance(op, ast.GtE))))
                chk.ob("GATE-TOL", f"{UPDATE}: `{seg(c, 40)}` refuses only an error strictly above the tolerance", strict_ok, loc=r.loc(ctx, c),
                       detail="" if strict_ok else f"{UPDATE}: `{seg(c, 40)}` also refuses an error equal to the tolerance: with exact (Fraction) data the error of a removable knot / degree is exactly 0, so knot_remove / degree_decrease with tolerance=0 raise, and knot_clean / degree_clean with tolerance=0 silently leave what is exactly removable",
                       func=UPDATE, construct="tolerance comparison not strict")
    writes = r.write_nodes(ctx, 0)
    from .c08 import path_facts

    chk.floor("GATE-TOL", "state writes in update", len(writes), 2)
    # a write is gated when no path reaches it without traversing the passing edge of the tolerance comparison, or an edge
    # that establishes `tolerance is None` (the caller asked for no gate) — the two may be one test (`tol is not None and err > tol`)
    # or nested tests
    from .common import reach_cut
    from .extra import edges_establishing

    cut = {(g[0].id, g[1]) for g in gates} | edges_establishing(ctx, ("tolerance is None", True))
    ungated = reach_cut(ctx, [ctx.cfg.entry], cut_edges=cut)
    for w in sorted(writes):
        n = ctx.cfg.nodes[w]
        a = ("self.ctrlpoints is None", True) in path_facts(ctx, w)
        b = w not in ungated
        chk.ob("GATE-TOL", f"{UPDATE}: `{seg(n.ast, 50)}` only after `error > tolerance` ⇒ ValueError has passed (or no control points)", a or b, loc=r.loc(ctx, n.ast),
               detail="" if (a or b) else f"{UPDATE}: the state write `{seg(n.ast, 60)}` at {r.loc(ctx, n.ast)} is reachable without passing the tolerance comparison: a lossy removal / reduction is committed silently",
               func=UPDATE, construct=f"ungated write {seg(n.ast, 40)}")
    r.commit_last("COMMIT-LAST", UPDATE)
    return gates


def rule_n(r: R, chk, qual: str = UPDATE, pname: str = "tolerance"):
    """rule N: a None-sentinel parameter for which 0 is a legal number is not tested by truthiness
    where the test guards a numeric comparison with it"""
    ctx = r.root(qual)
    fi = ctx.fi
    d = fi.defaults.get(pname)
    ann = fi.annots.get(pname)
    sentinel = (isinstance(d, ast.Constant) and d.value is None) or (ann is not None and "Optional" in ast.unparse(ann)) or (ann is not None and "None" in ast.unparse(ann))
    # 0 is legal: some function whose parameter flows into this one checks `>= 0`
    zero_legal = []
    for f2 in r.prog.all_functions():
        for n in ast.walk(f2.node):
            if isinstance(n, ast.Compare) and len(n.ops) == 1 and isinstance(n.ops[0], ast.GtE) and isinstance(n.left, ast.Name) and n.left.id == pname and isinstance(n.comparators[0], ast.Constant) and n.comparators[0].value == 0:
                zero_legal.append(f2.qual)
    flows = _flows_into(r, qual, pname, set(zero_legal))
    chk.note(f"rule N: `{pname}` of {qual}: None sentinel={sentinel}; `{pname} >= 0` is asserted in {sorted(set(zero_legal))}; those that flow into it: {sorted(flows)}")
    sites = 0
    for n in r.stmt_nodes(ctx):
        if n.kind != "test":
            continue
        t = n.ast
        bare = []
        cmpn = []
        for x in ast.walk(t):
            if isinstance(x, ast.BoolOp):
                bare += [v for v in x.values if isinstance(v, ast.Name) and v.id == pname]
                bare += [v for v in x.values if isinstance(v, ast.UnaryOp) and isinstance(v.op, ast.Not) and isinstance(v.operand, ast.Name) and v.operand.id == pname]
            if isinstance(x, ast.Compare) and any(isinstance(o, (ast.Lt, ast.Gt, ast.LtE, ast.GtE)) for o in x.ops) and any(isinstance(y, ast.Name) and y.id == pname for s in [x.left] + x.comparators for y in ast.walk(s)):
                cmpn.append(x)
        if isinstance(t, ast.Name) and t.id == pname:
            bare.append(t)
        if not cmpn and not bare:
            continue
        if not cmpn:
            # truthiness alone: does it guard a numeric comparison with the parameter further on?
            for m in ctx.cfg.nodes:
                if m.kind == "test" and m.id != n.id and ctx.cfg.edge_dominates(n.id, "t", m.id):
                    for x in ast.walk(m.ast):
                        if isinstance(x, ast.Compare) and any(isinstance(y, ast.Name) and y.id == pname for y in ast.walk(x)) and any(isinstance(o, (ast.Lt, ast.Gt, ast.LtE, ast.GtE)) for o in x.ops):
                            cmpn.append(x)
        if not cmpn:
            continue
        sites += 1
        ok = not (bare and sentinel and flows)
        chk.ob("N", f"{qual}: `{seg(t, 60)}` — `{pname}` compared numerically, None tested by identity", ok, loc=r.loc(ctx, t),
               detail="" if ok else f"{qual}: `{seg(t, 70)}` tests the None-sentinel parameter `{pname}` by truthiness, but 0 is a legal value for it (`{pname} >= 0` in {sorted(flows)[0]}): with {pname}=0 the comparison is skipped and a non-removable knot / irreducible degree is dropped silently",
               func=qual, construct=f"truthiness test of {pname} guarding a comparison")
    chk.floor("N", f"numeric comparisons with `{pname}` in {qual}", sites, 1)


def _flows_into(r: R, qual: str, pname: str, cands: set) -> set:
    """functions of `cands` whose parameter `pname` reaches parameter `pname` of `qual` through calls"""
    out = set()
    target = {(qual, pname)}
    changed = True
    while changed:
        changed = False
        for q, ctx in r.A.roots.items():
            for cr in ctx.calls:
                for fi, bound in zip(cr.callees, cr.args):
                    for pn, av in bound.items():
                        if (fi.qual, pn) in target and av is not None:
                            for c in av.const or ():
                                if isinstance(c, tuple) and c[0] == "sym" and len(c) == 2 and c[1] < len(ctx.fi.params):
                                    k = (q, ctx.fi.params[c[1]])
                                    if k not in target:
                                        target.add(k)
                                        changed = True
    for q, p in target:
        if q in cands and p == pname:
            out.add(q)
    return out


def no_swallow(r: R, chk, quals, exc="ValueError"):
    """X-ESCAPE: the refusal raised by update escapes these functions (no handler catches it)"""
    for q in quals:
        fi = r.prog.func(q)
        hs = [h for n in ast.walk(fi.node) if isinstance(n, ast.Try) for h in n.handlers if any(exc_is_sub(exc, t) for t in handler_types(h))]
        ok = not hs
        chk.ob("X-ESCAPE", f"{q}: the ValueError of a refused update is not caught", ok, loc=f"{fi.module}.py:{hs[0].lineno if hs else fi.node.lineno}",
               detail="" if ok else f"{q}: `except {seg(hs[0].type, 30) if hs[0].type else ''}` swallows the refusal: the caller is not told that the request was not carried out", func=q, construct="refusal swallowed")


def run(m, chk):
    r = R(m, chk)
    chk.explanation = (
        "Static discharge of structural clauses of C05 in BaseCurve.update / Curve.knot_remove: every state write is dominated by the tolerance "
        "comparison whose failure raises ValueError (GATE), the compared error comes from fit_curve on a fresh temporary curve, commit-last, "
        "None is the only 'no tolerance' value (rule N), the remaining knots and the tolerance flow to the gate / to func2func(fit_nodes) through "
        "every call site on both the polynomial and the rational branch (ARG-FLOW), the refusal escapes as ValueError. "
        "Exactness when removable, the error bound and the insert/remove round trip are not decided."
    )
    chk.decides = ["ERROR-COVERS (the error fit_curve returns contains the quadratic form of the error matrix for every quantity the fit replaces — weighted points and weights)", "WALK-ONCE (the nodes of knot_remove / knot_clean are materialised before the validation loop and the subtraction walk them: a one-pass iterable is not used up by the first)", "ABS-INSIDE (the error matrix of a vector-valued fit is reduced over absolute values: coordinates cannot cancel)", "DTYPE-AGREE (every array that is a factor of an in-place accumulation into the Gram matrices is built with their number type)", "PRECHECK (a refusal of the weights setter cannot come after the curve has been written)", "NODES-OF-NEW (the interpolation nodes handed to update() are the knots of the new knot vector, taken after its last change)", "ERROR-QUADRATIC (with interpolation constraints the reported error is the whole quadratic form in T, not the short form of the free minimiser)", "DEHOMOG-PAIR (points divided by a list of weights are stored with exactly those weights)", "LOOP-ACCUMULATE (the error handed to the gate is not overwritten per component in a loop)", "MEMO-KEY (no function on the path is memoised by the value of numbers / knot vectors)", "GATE-TOL", "COMMIT-LAST(update)", "N", "ARG-FLOW (nodes, tolerance)", "X-ESCAPE", "WEIGHT-HOMOG (control points a rational fit commits are of degree 0 in the weights)"]
    chk.not_decided = ["zero deviation when removable", "the error bound", "insert/remove round trip as values"]
    tolerance_gate(r, chk)
    rule_n(r, chk)
    q = "curves.Curve.knot_remove"
    arg_flow(r, chk, "ARG-FLOW", q, ".update", "nodes", ["nodes", "self.knotvector"], what="with tolerance=None the result must still interpolate the old curve at the remaining knots")
    from .extra import error_covers

    error_covers(r, chk)
    from .extra import walk_once

    walk_once(r, chk, ["curves.Curve.knot_remove", "curves.Curve.knot_clean"], floor=1, only=("nodes",))
    from .extra import abs_inside

    abs_inside(r, chk, ["curves.Curve.fit_curve", "curves.Curve.clean"], floor=0)  # expected count zero; reductions written through a helper are not named `error`
    from .extra import dtype_agree

    dtype_agree(r, chk)
    from .extra import precheck_weights

    precheck_weights(r, chk, ["curves.BaseCurve.update", "curves.Curve.knot_remove"])
    from .extra import nodes_of_new

    nodes_of_new(r, chk, ["curves.Curve.knot_remove"])
    arg_flow(r, chk, "ARG-FLOW", q, ".update", "tolerance", ["tolerance"])
    arg_flow(r, chk, "ARG-FLOW", q, ".update", "newknotvector", ["nodes", "self.knotvector"])
    arg_flow(r, chk, "ARG-FLOW", UPDATE, ".fit_curve", "nodes", ["nodes"])
    arg_flow(r, chk, "ARG-FLOW", UPDATE, ".fit_curve", "other", ["self"])
    fit_flow(r, chk)
    no_swallow(r, chk, [q, UPDATE])
    from .homog import weight_homog

    weight_homog(r, chk, ["curves.Curve.fit_curve", UPDATE])
    from .extra import memo_key

    nm = memo_key(r, chk, entries=['curves.Curve.knot_remove'])
    chk.floor("MEMO-KEY", "functions reachable from the entry points examined for value-keyed memoisation", nm, 3)
    from .extra import loop_accumulate

    loop_accumulate(r, chk, ["curves.Curve.fit_curve", "curves.BaseCurve.update", "heavy.LeastSquare.func2func", "heavy.LeastSquare.spline2spline"])
    from .extra import error_quadratic

    error_quadratic(r, chk, "heavy.LeastSquare.func2func")
    from .extra import dehomog_pair

    dehomog_pair(r, chk, ["curves.Curve.fit_curve"], floor=1)


def fit_flow(r: R, chk):
    fq = "curves.Curve.fit_curve"
    arg_flow(r, chk, "ARG-FLOW", fq, "LeastSquare.spline2spline", "fit_nodes", ["nodes"], what="polynomial branch")
    arg_flow(r, chk, "ARG-FLOW", fq, "LeastSquare.func2func", "fit_nodes", ["nodes"], what="rational branch")
    arg_flow(r, chk, "ARG-FLOW", "heavy.LeastSquare.spline2spline", "LeastSquare.func2func", "fit_nodes", ["fit_nodes"])
