from fractions import Fraction as F
import numpy as np, warnings
warnings.simplefilter("ignore")
from compmec.nurbs import Curve, KnotVector
c = Curve([F(-1),F(-1),F(1),F(1)],[F(1),F(2)])
try:
    c.knot_insert([F(0)]); print("ok", c.knotvector, c.ctrlpoints)
except Exception as e: print("EXC", type(e).__name__, e, "| state:", c.knotvector, c.ctrlpoints)
c = Curve([-1.,-1.,1.,1.],[1.,2.])
try:
    c.knot_insert([0.]); print("ok", c.knotvector, c.ctrlpoints)
except Exception as e: print("EXC", type(e).__name__, e, "| state:", c.knotvector, c.ctrlpoints)
c = Curve([-1.,-1.,1.,1.],[1.,2.])
try:
    ps = c.split([0.]); print("ok split", [p.ctrlpoints for p in ps])
except Exception as e: print("EXC", type(e).__name__, e)
c = Curve([-1.,-1.,0., 1.,1.],[1.,2.,4.])
try:
    c.degree_increase(1); print("ok deginc", c.ctrlpoints)
except Exception as e: print("EXC", type(e).__name__, e)
c = Curve([-1.,-1.,0., 1.,1.],[1.,2.,4.])
try:
    c.knot_insert([0.]); print("ok ins existing 0", c.knotvector, c.ctrlpoints)
except Exception as e: print("EXC", type(e).__name__, e)
c = Curve([0,0,1,1],[1.,2.])
try:
    c.knot_insert([0]); print("ok ins end 0", c.knotvector, c.ctrlpoints)
except Exception as e: print("EXC", type(e).__name__, e)
