"""Further rule templates added after the first round of independently seeded changes (DESIGN §10)."""
from __future__ import annotations

import ast
from typing import Dict, List, Optional, Set

from ..vals import root_of
from .common import CURVE_FIELDS, R, seg
from .c08 import path_facts


# ------------------------------------------------------------------------------------------------
# MEMO-KEY: no value-keyed memoisation on the numeric layer (== conflates 1, 1.0 and Fraction(1))
def memo_key(r: R, chk, rule="MEMO-KEY"):
    n = 0
    for fi in r.prog.all_functions():
        if fi.module == "__classes__":
            continue
        n += 1
        bad = None
        for d in fi.node.decorator_list:
            t = seg(d)
            if "lru_cache" in t or t.split("(")[0].split(".")[-1] == "cache" or "memoize" in t.lower():
                params = [p for p in fi.params if p not in ("self", "cls")]
                typed = all(isinstance(fi.annots.get(p), ast.Name) and fi.annots[p].id in ("int", "str", "bool") for p in params)
                if params and not typed:
                    bad = t
        if bad is None and not fi.node.decorator_list:
            continue
        chk.ob(rule, f"{fi.qual}: no value-keyed memoisation (`{seg(fi.node.decorator_list[0], 30) if fi.node.decorator_list else ''}`)", bad is None, loc=f"{fi.module}.py:{fi.node.lineno}",
               detail="" if bad is None else f"{fi.qual} is memoised with `@{bad}` on arguments that are numbers / tuples of numbers: the cache key compares with ==, so 1, 1.0 and Fraction(1) share an entry — the result for exact input depends on whether a float (or int) call came first, and exact input can come back as float",
               func=fi.qual, construct=f"memoised by value: @{bad}" if bad else "")
    return n


# ------------------------------------------------------------------------------------------------
# POLY-ONLY: polynomial-only helpers are called only where the path established `weights is None`
POLY_ONLY = ("LeastSquare.spline2spline", "heavy.eval_spline_nodes", "MathOperations.add_spline_curve", "MathOperations.mul_spline_curve", "MathOperations.knotvector_mul", "Operations.matrix_transformation")


def poly_only(r: R, chk, quals: List[str], rule="POLY-ONLY", floor: int = 1):
    n = 0
    for q in quals:
        ctx = r.root(q)
        fi = ctx.fi
        for cr in ctx.calls:
            for callee, bound in zip(cr.callees, cr.args):
                if not any(callee.qual.endswith(s) for s in POLY_ONLY):
                    continue
                facts = path_facts(ctx, cr.cfgnode)
                ops = set()
                for pn, av in bound.items():
                    if av is None:
                        continue
                    for d in av.all_dep():
                        if d[0] == "PF" and d[2] == CURVE_FIELDS[0]:
                            ops.add(d[1])
                for i in sorted(ops):
                    n += 1
                    name = fi.params[i]
                    ok = (f"{name}.weights is None", True) in facts
                    chk.ob(rule, f"{q}: `{seg(cr.node, 40)}` (polynomial basis of `{name}`) only where `{name}.weights is None`", ok, loc=r.loc(ctx, cr.node),
                           detail="" if ok else f"{q}: `{seg(cr.node, 60)}` works on the polynomial B-spline basis of `{name}`'s knot vector, but the path has not established `{name}.weights is None`: for a rational `{name}` the polynomial basis is used with the weights ignored",
                           func=q, construct=f"{callee.name} reached with rational {('self' if i == 0 else 'other')}")
    chk.floor(rule, "call sites of polynomial-only helpers", n, floor)


# ------------------------------------------------------------------------------------------------
# PRECHECK-WEIGHTS: a weights setter reached after the commit began has had its zero-test done before
def precheck_weights(r: R, chk, quals: List[str], rule="PRECHECK"):
    for q in quals:
        ctx = r.root(q)
        writes = r.write_nodes(ctx, 0)
        for cr in ctx.calls:
            if cr.kind != "setter" or not any(f.qual == "curves.BaseCurve.weights.setter" for f in cr.callees):
                continue
            tgt = cr.node
            stmt = ctx.cfg.nodes[cr.cfgnode].ast
            val = stmt.value if isinstance(stmt, ast.Assign) else None
            if val is None or (isinstance(val, ast.Constant) and val.value is None):
                continue
            recv = cr.args[0].get("self") if cr.args else None
            if recv is None or not any(root_of(o) == 0 for o in recv.pts):
                continue
            if isinstance(val, ast.Attribute) and isinstance(val.value, ast.Name) and val.attr == "weights":
                continue  # taken unchanged from another curve object: validated by that object's own setter
            before = [w for w in writes if w != cr.cfgnode and cr.cfgnode in ctx.cfg.reachable_from_succ(w, exc=False)]
            if not before:
                continue  # the setter is the first write: its refusal leaves the curve untouched
            guards = []
            for g in r.raise_guards(ctx, ("ValueError",)):
                exprs = [g[0].ast]
                for nm in {x.id for x in ast.walk(g[0].ast) if isinstance(x, ast.Name)}:
                    dd = [a for a in ast.walk(ctx.fi.node) if isinstance(a, ast.Assign) and any(isinstance(tt, ast.Name) and tt.id == nm for tt in a.targets)]
                    if len(dd) == 1 and nm not in ctx.fi.params:
                        exprs.append(dd[0].value)  # the test goes through a local with one definition
                calls = [c for e_ in exprs for c in ast.walk(e_) if isinstance(c, ast.Call) and seg(c.func).endswith("find_roots")]
                for c in calls:
                    names = {x.id for a in c.args for x in ast.walk(a) if isinstance(x, ast.Name)}
                    vn = {x.id for x in ast.walk(val) if isinstance(x, ast.Name)}
                    if names & vn:
                        guards.append(g)
            # every path from a (non-None) definition of the value to a state write traverses the passing edge of the test
            from .common import reach_cut

            vnames = {x.id for x in ast.walk(val) if isinstance(x, ast.Name)}
            defs = [n for n in r.stmt_nodes(ctx) if isinstance(n.ast, ast.Assign) and any(isinstance(t, ast.Name) and t.id in vnames for t in n.ast.targets) and not (isinstance(n.ast.value, ast.Constant) and n.ast.value.value is None)]
            cut = {(g[0].id, g[1]) for g in guards}
            ok = bool(guards) and bool(defs)
            for d in defs:
                free = reach_cut(ctx, ctx.cfg.succs(d.id, exc=False), cut_edges=cut)
                if any(w in free for w in before):
                    ok = False
            chk.ob(rule, f"{q}: `{seg(stmt, 40)}` after the commit began — zero-test of the new weights done before the first write", ok, loc=r.loc(ctx, stmt),
                   detail="" if ok else f"{q}: `{seg(stmt, 50)}` runs after state has already been written ({r.loc(ctx, ctx.cfg.nodes[min(before)].ast)}); the weights setter refuses weights whose weight function has a zero (ValueError) and no `find_roots` test of that value precedes the first write: the refusal leaves the curve with cleared control points / weights",
                   func=q, construct="weights setter may refuse after the commit began")


# ------------------------------------------------------------------------------------------------
# REFINE-BOTH (C13)
def refine_both(r: R, chk, qual: str, rule="REFINE-BOTH"):
    ctx = r.root(qual)
    loops = [n for n in r.stmt_nodes(ctx) if n.kind == "for" and "zip(" in seg(n.ast.iter) and seg(n.ast.iter).count("ctrlpoints") >= 2]
    chk.floor(rule, f"point-by-point comparison loop in {qual}", len(loops), 1)
    for lp in loops:
        names = [x.value.id for x in ast.walk(lp.ast.iter) if isinstance(x, ast.Attribute) and x.attr == "ctrlpoints" and isinstance(x.value, ast.Name)]
        for var in names:
            sets = [n for n in r.stmt_nodes(ctx) if isinstance(n.ast, ast.Assign) and any(isinstance(t, ast.Attribute) and t.attr == "knotvector" and isinstance(t.value, ast.Name) and t.value.id == var for t in n.ast.targets)]
            avoid = {n.id for n in sets}
            unrefined = lp.id in ctx.cfg.reachable(ctx.cfg.entry, exc=False, avoid=avoid)
            ok = not unrefined
            if unrefined:
                # allowed only where the two knot vectors were found equal
                for txt, pol in path_facts_avoiding(ctx, lp.id, avoid):
                    t = txt.replace(" ", "")
                    if pol and t in ("self.knotvector==other.knotvector", "other.knotvector==self.knotvector"):
                        ok = True
            chk.ob(rule, f"{qual}: `{var}` is compared only after refinement to the common knot vector (or where both knot vectors are equal)", ok, loc=r.loc(ctx, lp.ast),
                   detail="" if ok else f"{qual}: a path reaches the point-by-point comparison with `{var}` not refined to the common knot vector and without `self.knotvector == other.knotvector` having been established: control points over different knot vectors (e.g. the same knots with different multiplicities) are zipped and truncated",
                   func=qual, construct=f"{var} compared unrefined")


def path_facts_avoiding(ctx, nid: int, avoid: Set[int]):
    """facts (condition text, polarity) that hold on every path from the entry to nid that avoids `avoid`"""
    cfg = ctx.cfg
    facts = set()
    for t in cfg.nodes:
        if t.kind != "test" or t.id in avoid:
            continue
        for lab, pol in (("t", True), ("f", False)):
            if not any(l == lab for _, l in t.succ):
                continue
            # does every avoiding path traverse this edge?
            seen, todo = set(), [cfg.entry]
            while todo:
                x = todo.pop()
                if x in seen or x in avoid:
                    continue
                seen.add(x)
                for s, l2 in cfg.nodes[x].succ:
                    if l2 == "exc" or (x == t.id and l2 == lab):
                        continue
                    todo.append(s)
            if nid not in seen:
                c = t.ast
                parts = [c]
                if isinstance(c, ast.BoolOp) and ((isinstance(c.op, ast.And) and pol) or (isinstance(c.op, ast.Or) and not pol)):
                    parts = c.values
                elif isinstance(c, ast.BoolOp):
                    parts = []
                for p in parts:
                    pp, q = p, pol
                    while isinstance(pp, ast.UnaryOp) and isinstance(pp.op, ast.Not):
                        pp, q = pp.operand, not q
                    from .c08 import norm_fact

                    facts.add(norm_fact(pp, q))
    return facts


# ------------------------------------------------------------------------------------------------
# BOTH-MULTS (C17): the multiplicities of both operands are consulted
def both_mults(r: R, chk, qual: str, rule="BOTH-MULTS"):
    ctx = r.root(qual)
    seen = set()
    for cr in ctx.calls:
        for callee, bound in zip(cr.callees, cr.args):
            if callee.name in ("mult", "__mult_single", "count") or callee.name.endswith("mult_single"):
                rv = bound.get("self")
                if rv is not None:
                    seen |= {root_of(o) for o in rv.pts}
    for n in ast.walk(ctx.fi.node):
        if isinstance(n, ast.Call) and isinstance(n.func, ast.Attribute) and n.func.attr == "count":
            v = ctx.val(n.func.value)
            if v is not None:
                seen |= {root_of(o) for o in v.pts}
        if isinstance(n, (ast.For, ast.comprehension)):
            v = ctx.val(n.iter)
            if v is not None and any(t.startswith("inst:ImmutableKnotVector") for t in v.ty):
                pass  # iteration over a whole vector alone does not count multiplicities
    for i, who in ((0, "self"), (1, ctx.fi.params[1])):
        ok = i in seen
        chk.ob(rule, f"{qual}: the multiplicities of `{who}` are consulted", ok, loc=r.loc(ctx, ctx.fi.node),
               detail="" if ok else f"{qual}: no `mult()` / `count()` is taken on `{who}`: its multiplicities cannot influence the result (only its distinct knots / degree do), so the per-knot minimum / maximum is wrong whenever `{who}` has the decisive multiplicity",
               func=qual, construct=f"multiplicities of {'self' if i == 0 else 'other'} not consulted")


# ------------------------------------------------------------------------------------------------
# NORMALIZE-PATHS (C18)
def normalize_paths(r: R, chk, qual="knotspace.KnotVector.normalize", rule="NORMALIZE-PATHS"):
    ctx = r.root(qual)
    shifts = {c.cfgnode for c in ctx.calls if any(f.name in ("shift", "__iadd__", "__isub__") for f in c.callees)}
    scales = {c.cfgnode for c in ctx.calls if any(f.name in ("scale", "__imul__", "__itruediv__") or f.qual.endswith("internal.setter") for f in c.callees)} - shifts
    chk.floor(rule, "shift step in normalize", len(shifts), 1)
    chk.floor(rule, "scale step in normalize", len(scales), 1)
    rets = [n for n in r.stmt_nodes(ctx) if isinstance(n.ast, ast.Return)]
    for R_ in rets:
        for what, steps, fact in (("shift to 0", shifts, "self[0]==0"), ("scale to 1", scales, "self[-1]==1")):
            skipped = R_.id in ctx.cfg.reachable(ctx.cfg.entry, exc=False, avoid=steps)
            ok = not skipped
            if skipped:
                fs = {(t.replace(" ", ""), p) for t, p in path_facts_avoiding(ctx, R_.id, steps)}
                alt = {fact, fact.replace("==", "==").split("==")[1] + "==" + fact.split("==")[0]}
                ok = any((a, True) in fs for a in alt)
            chk.ob(rule, f"{qual}: `{seg(R_.ast, 30)}` is reached only after the {what} (or where `{fact}` already holds)", ok, loc=r.loc(ctx, R_.ast),
                   detail="" if ok else f"{qual}: a path returns at {r.loc(ctx, R_.ast)} without the {what} and without having established `{fact}`: the vector is returned on another interval than [0, 1]",
                   func=qual, construct=f"returns without {what}")


# ------------------------------------------------------------------------------------------------
# INTERVAL-FROM-OPERAND (C09 / C08 / C07): a result curve lives on a knot vector built from the operand's knot values
def kv_taint(fi, seeds: Set[str]):
    """names holding (something built from) the knot values of an operand: flow-insensitive fixpoint"""
    tainted = set()
    # names that hold (something derived from) an operand: the operands themselves, their copies, fractions ...
    derived = set(seeds)
    ch = True
    while ch:
        ch = False
        for n in ast.walk(fi.node):
            if isinstance(n, ast.Assign) and any(isinstance(x, ast.Name) and x.id in derived for x in ast.walk(n.value)):
                for t in n.targets:
                    for x in ast.walk(t):
                        if isinstance(x, ast.Name) and isinstance(x.ctx, ast.Store) and x.id not in derived:
                            derived.add(x.id)
                            ch = True
            elif isinstance(n, (ast.For, ast.comprehension)) and any(isinstance(x, ast.Name) and x.id in derived for x in ast.walk(n.iter)):
                for x in ast.walk(n.target):
                    if isinstance(x, ast.Name) and x.id not in derived:
                        derived.add(x.id)
                        ch = True

    def is_kv(e) -> bool:
        if isinstance(e, ast.Attribute):
            if e.attr in ("knotvector", "limits", "knots", "internal") and (isinstance(e.value, ast.Name) and (e.value.id in derived or e.value.id in tainted) or is_kv(e.value)):
                return True
            return False
        if isinstance(e, ast.Name):
            return e.id in tainted
        if isinstance(e, ast.Subscript):
            return is_kv(e.value)
        if isinstance(e, ast.BinOp):
            return is_kv(e.left) or is_kv(e.right)
        if isinstance(e, (ast.Tuple, ast.List)):
            return any(is_kv(x) for x in e.elts)
        if isinstance(e, ast.Call):
            fn = seg(e.func)
            if fn in ("tuple", "list", "sorted", "copy", "deepcopy", "KnotVector", "ImmutableKnotVector", "zip", "enumerate", "reversed") or fn.endswith((".split", "knotvector_mul", ".normalize")):
                return any(is_kv(a) for a in e.args) or (isinstance(e.func, ast.Attribute) and is_kv(e.func.value))
            return False
        if isinstance(e, ast.IfExp):
            return is_kv(e.body) or is_kv(e.orelse)
        return False

    changed = True
    while changed:
        changed = False
        for n in ast.walk(fi.node):
            if isinstance(n, ast.Assign):
                for t in n.targets:
                    names = [t] if isinstance(t, ast.Name) else [x for x in getattr(t, "elts", []) if isinstance(x, ast.Name)]
                    if isinstance(t, ast.Subscript) and isinstance(t.value, ast.Name):
                        names = [t.value]  # v[a:b] = <knot values>
                    if is_kv(n.value):
                        for x in names:
                            if x.id not in tainted:
                                tainted.add(x.id)
                                changed = True
            elif isinstance(n, ast.AugAssign) and isinstance(n.target, ast.Name) and is_kv(n.value) and n.target.id not in tainted:
                tainted.add(n.target.id)
                changed = True
            elif isinstance(n, (ast.For, ast.comprehension)) and is_kv(n.iter):
                for x in ast.walk(n.target):
                    if isinstance(x, ast.Name) and x.id not in tainted:
                        tainted.add(x.id)
                        changed = True
    return tainted, is_kv


def interval_from_operand(r: R, chk, quals: List[str], rule="INTERVAL", floor: int = 1):
    n = 0
    for q in quals:
        ctx = r.root(q)
        fi = ctx.fi
        seeds = {p for p in fi.params}
        tainted, is_kv = kv_taint(fi, seeds)
        for c in ast.walk(fi.node):
            if not isinstance(c, ast.Call) or not c.args:
                continue
            fn = seg(c.func)
            if not (fn in ("Curve",) or fn.endswith(".__class__")):
                continue
            v = ctx.val(c)
            if v is None or not any(t.startswith("inst:") and "Curve" in t for t in v.ty):
                continue
            n += 1
            ok = is_kv(c.args[0])
            chk.ob(rule, f"{q}: `{seg(c, 50)}` is built on a knot vector made from the operand's knot values", ok, loc=r.loc(ctx, c),
                   detail="" if ok else f"{q}: the result curve `{seg(c, 60)}` is built on `{seg(c.args[0], 40)}`, which is not derived from the knot values of the operand (only from its degree / a generator / literals): the result lives on another parameter interval than the operand",
                   func=q, construct=f"result knot vector not from the operand: {seg(c.args[0], 40)}")
    chk.floor(rule, "result curves constructed", n, floor)


# ------------------------------------------------------------------------------------------------
# MULT-KEEP (C03 / C04 / C07): distinct-knot values do not become knot-vector elements without their multiplicity
DEDUP_CALLS = ("set", "frozenset", "np.unique", "dict.fromkeys")


def dedup_taint(fi):
    """names holding de-duplicated knots / nodes (flow-insensitive): `.knots`, set(...), __get_unique(...), np.unique(...)"""
    conts, elems = set(), set()

    def is_dd(e) -> bool:
        if isinstance(e, ast.Attribute):
            return e.attr == "knots"
        if isinstance(e, ast.Name):
            return e.id in conts
        if isinstance(e, ast.Call):
            fn = seg(e.func)
            if fn in DEDUP_CALLS or fn.endswith("get_unique"):
                return True
            if fn in ("tuple", "list", "sorted") and e.args:
                return is_dd(e.args[0])
            return False
        if isinstance(e, ast.BinOp):
            if isinstance(e.op, ast.Mult):
                return False  # repetition restores a multiplicity
            if isinstance(e.op, (ast.Add,)):
                return is_dd(e.left) or is_dd(e.right)
            if isinstance(e.op, (ast.Sub, ast.BitOr, ast.BitAnd)):
                return is_dd(e.left) or is_dd(e.right)
            return False
        if isinstance(e, (ast.ListComp, ast.GeneratorExp)):
            loc = set()
            for g in e.generators:
                if is_dd(g.iter):
                    loc |= {x.id for x in ast.walk(g.target) if isinstance(x, ast.Name)}
            return isinstance(e.elt, ast.Name) and (e.elt.id in loc or e.elt.id in elems)
        if isinstance(e, ast.List):
            return any(isinstance(x, ast.Name) and x.id in elems for x in e.elts)
        if isinstance(e, ast.Subscript):
            return is_dd(e.value) and isinstance(e.slice, ast.Slice)
        return False

    changed = True
    while changed:
        changed = False
        for n in ast.walk(fi.node):
            if isinstance(n, ast.Assign) and len(n.targets) == 1 and isinstance(n.targets[0], ast.Name):
                if is_dd(n.value) and n.targets[0].id not in conts:
                    conts.add(n.targets[0].id)
                    changed = True
            elif isinstance(n, ast.AugAssign) and isinstance(n.target, ast.Name) and isinstance(n.op, ast.Add) and is_dd(n.value) and n.target.id not in conts:
                conts.add(n.target.id)
                changed = True
            elif isinstance(n, ast.For) and is_dd(n.iter):
                for x in ast.walk(n.target):
                    if isinstance(x, ast.Name) and x.id not in elems:
                        elems.add(x.id)
                        changed = True
    return conts, elems, is_dd


def mult_keep(r: R, chk, quals: List[str], rule="MULT-KEEP", floor: int = 1):
    """sinks: arguments of knot-vector constructors and of insertion requests"""
    n = 0
    for q in quals:
        ctx = r.root(q)
        fi = ctx.fi
        conts, elems, is_dd = dedup_taint(fi)
        for c in ast.walk(fi.node):
            sink = None
            if isinstance(c, ast.Call) and c.args:
                fn = seg(c.func)
                if fn in ("ImmutableKnotVector", "KnotVector") or fn.endswith(".__class__") and any(t in ("inst:ImmutableKnotVector", "inst:KnotVector") for t in (ctx.val(c).ty if ctx.val(c) is not None else ())):
                    sink = (c.args[0], "a knot vector is built from")
                elif fn.endswith(("Operations.knot_insert", ".insert")) and len(c.args) >= 1:
                    sink = (c.args[-1], "an insertion is requested with")
            elif isinstance(c, ast.BinOp) and isinstance(c.op, ast.Add):
                lv = ctx.val(c.left)
                if lv is not None and any(t in ("inst:KnotVector", "inst:ImmutableKnotVector") for t in lv.ty):
                    sink = (c.right, "an insertion is requested with")
            if sink is None:
                continue
            n += 1
            e, what = sink
            ok = not is_dd(e)
            chk.ob(rule, f"{q}: `{seg(c, 50)}` keeps multiplicities", ok, loc=r.loc(ctx, c),
                   detail="" if ok else f"{q}: {what} `{seg(e, 40)}`, a de-duplicated collection (distinct knots / a set) used without its multiplicities: repeated knots / repeated nodes are silently collapsed",
                   func=q, construct=f"de-duplicated values become knots: {seg(e, 40)}")
    chk.floor(rule, "knot-vector constructions / insertion requests", n, floor)
